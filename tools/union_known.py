#!/usr/bin/env python3
"""Maintenance: add the (site, input) pairs of a --dump-failures file to the existing open
entries of a property (matched by site).  Pairs whose site has no entry are printed."""
import json, os, sys
pid, dump = sys.argv[1:3]
here = os.path.dirname(os.path.dirname(os.path.abspath(__file__)))
kf = json.load(open(os.path.join(here, 'known_findings.json')))
pairs = json.load(open(dump))
bysite = {}
for e in kf['findings']:
    if e.get('property') == pid and e.get('status') == 'open' and e.get('inputs_file'):
        bysite.setdefault(e['site'], e)
rest = []
for s, i in pairs:
    e = bysite.get(s)
    if e is None:
        rest.append((s, i)); continue
    p = os.path.join(here, e['inputs_file'])
    cur = set(json.load(open(p)))
    if i not in cur:
        cur.add(i); json.dump(sorted(cur), open(p, 'w'), indent=0); e['n_inputs'] = len(cur)
json.dump(kf, open(os.path.join(here, 'known_findings.json'), 'w'), indent=1)
print('unmatched:', len(rest), rest[:8])
