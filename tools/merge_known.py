#!/usr/bin/env python3
"""Maintenance: merge a builder's proposed known-findings file into known_findings.json.
usage: merge_known.py <PID> <proposed.json> [--drop-obsolete-with fix1,fix2]"""
import json, os, re, sys
pid, src = sys.argv[1:3]
drop = set()
if '--drop-obsolete-with' in sys.argv:
    drop = set(sys.argv[sys.argv.index('--drop-obsolete-with') + 1].split(','))
here = os.path.dirname(os.path.dirname(os.path.abspath(__file__)))
kf = json.load(open(os.path.join(here, 'known_findings.json')))
kf['findings'] = [e for e in kf['findings'] if not (e.get('property') == pid and e.get('status') == 'open' and e.get('merged_from'))]
for k, e in enumerate(json.load(open(src))):
    if e.get('obsolete_with_fix') and str(e['obsolete_with_fix']) in drop:
        print('dropped (fixed):', e['site'], len(e['inputs']))
        continue
    slug = re.sub(r'[^A-Za-z0-9]+', '-', e['site']).strip('-')[:40]
    rel = 'known_findings/%s-%02d-%s.json' % (pid, k, slug)
    json.dump(sorted(e['inputs']), open(os.path.join(here, rel), 'w'), indent=0)
    kf['findings'].append({'property': pid, 'status': 'open', 'merged_from': os.path.basename(src),
                           'site': e['site'], 'what': e['what'], 'inputs_file': rel,
                           'n_inputs': len(e['inputs']), 'thorough_only': True})
    print('added:', e['site'], len(e['inputs']))
json.dump(kf, open(os.path.join(here, 'known_findings.json'), 'w'), indent=1)
