import json, os, re, glob
# wave 4: (change, needs, reporting check, strengthening) per seeded change; results from /var/tmp/seed-w4*.log
D = json.load(open(os.path.join(os.path.dirname(os.path.abspath(__file__)), "..", "seeded", "w4_notes.json")))
results = {}
for log in sorted(glob.glob('/var/tmp/seed-w4*.log')):
    for line in open(log):
        m = re.match(r'SEED /verif/seeded/(\S+): demo_clean=(\d+) demo_mutant=(\d+) baseline_rc=(\d+) checks: (.*)', line)
        if m: results[m.group(1)] = m.groups()[1:]
for sid, (change, needs, chk, strengthening) in sorted(D.items()):
    r = results.get(sid)
    if not r: print('no result', sid); continue
    caught = 'exit=1' in r[3]
    sites = []
    for f in glob.glob('/verif/seeded/%s/check_*.out' % sid):
        sites += re.findall(r'site=(\S+)', open(f).read())
    meta = {'id': sid, 'breaks_property': sid[:3], 'change': change, 'needs_to_manifest': needs,
            'status': ('caught-after-strengthening' if strengthening and not strengthening.startswith('already') else 'caught') if caught else 'MISSED',
            'reported_by_check': chk, 'reported_at': sorted(set(sites))[:6], 'strengthening': strengthening,
            'confirmed': 'tools/try_seed.sh seeded/%s %s: demo.py exit %s on a scratch worktree of /repo HEAD, exit %s with patch.diff applied; bin/baseline on the patched worktree rc=%s (264/264); then JV_REPO=<worktree> bin/check %s --tier quick -> %s' % (sid, chk, r[0], r[1], r[2], chk, r[3].strip())}
    json.dump(meta, open('/verif/seeded/%s/meta.json' % sid, 'w'), indent=1, ensure_ascii=False)
    print(sid, meta['status'], r[3].strip())
