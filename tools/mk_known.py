#!/usr/bin/env python3
"""Maintenance (never run by a registered check): turn a --dump-failures file into the explicit
input lists of open known findings.  usage: mk_known.py <PID> <dump.json> <spec.json>
spec: [{"slug":..., "site":..., "prefix": [id prefixes], "what":...}]"""
import json, os, re, sys
pid, dump, spec = sys.argv[1:4]
here = os.path.dirname(os.path.dirname(os.path.abspath(__file__)))
pairs = json.load(open(dump))
spec = json.load(open(spec))
kf = json.load(open(os.path.join(here, 'known_findings.json')))
kf['findings'] = [e for e in kf['findings'] if not (e.get('property') == pid and e.get('status') == 'open' and e.get('generated'))]
used = set()
for sp in spec:
    ids = sorted(i for s, i in pairs if s == sp['site'] and (any(i.startswith(p) or p in i for p in sp['prefix']) or any(re.search(r, i) for r in sp.get('regex', []))))
    used |= {(sp['site'], i) for i in ids}
    rel = 'known_findings/%s-%s.json' % (pid, sp['slug'])
    json.dump(ids, open(os.path.join(here, rel), 'w'), indent=0)
    e = {'property': pid, 'status': 'open', 'generated': True, 'site': sp['site'],
                           'what': sp['what'], 'inputs_file': rel, 'n_inputs': len(ids)}
    if sp.get('thorough_only'):
        e['thorough_only'] = True
    kf['findings'].append(e)
    print(sp['slug'], len(ids))
rest = [p for p in map(tuple, pairs) if p not in used]
print('unassigned:', len(rest), rest[:10])
json.dump(kf, open(os.path.join(here, 'known_findings.json'), 'w'), indent=1)
