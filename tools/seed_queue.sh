#!/bin/bash
# usage: tools/seed_queue.sh <logfile> <seed dir names...>   (sequential; check id = prefix before first '-')
log="$1"; shift
for s in "$@"; do id=$(echo "$s" | cut -d- -f1); JV_NPROC="${JV_NPROC:-6}" "$(dirname "$0")/try_seed.sh" "$(dirname "$0")/../seeded/$s" "$id" >> "$log" 2>&1; done
echo QUEUEDONE >> "$log"
