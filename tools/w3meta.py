import json, os, re, glob
D = {
 'C01-w3-1': ("error-node import scan (`follow_error_node_imports_if_possible`) treats a `;` AFTER the name as statement start: IndexError / invented imports",
              "a broken statement (error node) that contains `;` after the queried name, e.g. `foo(x); )`",
              "C01", "new family soups<=3 over the 8-token alphabet S8 with `;` (quick; <=4 thorough) and the snippet `semicolon-error`"),
 'C01-w3-2': ("sorted_definitions sorts by `(line, column) or (0, 0)`: names without position (compiled, no stub) next to positioned names under the same module-path key raise TypeError",
              "an unsaved buffer (path=None) or stub-less compiled module (`_functools`) in one result list with source names",
              "C01", "already reported by the corpus family (completion/ns_path.py); additionally every statement-kind snippet is now also analysed as an unsaved buffer (path=None) and a snippet `compiled-nostub` was added"),
 'C02-w3-1': ("reflected operator (`__radd__`) is executed with the right operand instead of the left one",
              "left operand without forward method, right operand whose reflected method returns its argument",
              "C02", "new PF carrier `magic_radd`"),
 'C02-w3-2': ("`*args` collection by takewhile swallows the first keyword argument after the positional ones",
              "a call `f(1, 2, key=value)` of `def f(*items, key=...)`",
              "C02", "new PF carriers `varargs_then_kw`, `varargs_forward_kw`"),
 'C04-w3-1': ("completion ordering moved into filter_names with a lower-cased fragment", "a typed fragment with an upper-case letter", "C04", ""),
 'C04-w3-2': ("SelfAttributeFilter decides syntactically (first parameter name of the directly enclosing method): `self.x = ...` inside a function nested in a method is no longer an instance attribute",
              "an attribute assigned through `self` in a closure inside a method", "C04", "new PF carrier `self_attr_closure` (completeness clause; also C02)"),
 'C05-w3-1': ("lru_cache on get_parso_cache_node: after rename -> apply -> rename back on the same path the old tree is analysed",
              "a history on one path: rename, apply, analyse again", "C05", "third step added to C05's rename histories: after rename and rename-back on the same paths the same request (text read from disk) must give the same result; also reported by C08 (same mechanism as C08-2)"),
 'C05-w3-2': ("rename guard `module_path is None` placed in front of the namespace-package branch: renaming an implicit namespace package announces no directory rename",
              "a rename of a directory without __init__.py", "C05", "new PF carrier `namespace_pkg` (mover)"),
 'C06-w3-1': ("'test' added to EXPRESSION_PARTS: a range covering `a if c else b` of a chained conditional is cut out as if it were an expression",
              "a chained conditional expression and a range that ends in the middle of it", "C06", "new shaped program `shaped:cond`, all character sub-ranges in the quick tier"),
 'C06-w3-2': ("inline guard no longer counts subscript/attribute targets: `cache['k'] = total = a + b` is inlined and the store into cache is lost",
              "a chained assignment with a subscript or attribute target", "C06", "new shaped program `shaped:chain`; inline candidates now include the name targets of chained assignments"),
 'C07-w3-1': ("ChangedFile.get_diff always appends a newline to the last new line: an added empty line when inline removes the last, unterminated line",
              "inline of a definition on the last line of a file without final newline", "C07", "hand-shaped programs `tiny:lastdef`, `tiny:xfile`, `tiny:xfile-from` in every layout (found the genuine defect fixed by 21c01c9 in the same lines)"),
 'C07-w3-2': ("cross-file inline files every edit under the path of the definition's module", "an inlined name with uses in another module", "C07", "inline requests for single assignments of every project file, not only main.py"),
 'C16-w3-1': ("the memoised sys.path list is extended in place (`+=`) with the sys.path modifications of whatever module was looked at first",
              "an imported module that appends to sys.path, and an import in the buffer that only resolves through that entry", "C16", "new program `u:syspath` with side files in the repetition family"),
 'C16-w3-2': ("decorator order swapped on ComprehensionMixin._iterate: the memo stores a one-shot generator, the second query that iterates the comprehension sees nothing",
              "two queries on one Script that both iterate the same comprehension", "C16", "new program `u:comprehension` in the repetition family"),
 'C17-w3-1': ("module-level dict cache of code lines keyed by path: get_line_code of another module is stale after the file changed", "ask, change an imported file, ask again", "C17", ""),
 'C17-w3-2': ("string_name NFKC-normalised: names of identifiers written with compatibility characters differ from the text at their position",
              "an identifier with a compatibility character (U+FB01)", "C17", "new layout `compat` (identifiers with the ligature U+FB01)"),
 'C18-w3-1': ("lru_cache on the ancestor lookup of BaseName.parent(): after the same path is re-parsed, re-used nodes answer with their old (deleted) class",
              "two texts on one path where a class header line was deleted", "C18", "new family: two-step histories on one path, every single-line deletion/insertion of a nested program that still parses"),
 'C18-w3-2': ("full_name maps EVERY path component through the implementation-module alias table", "a class/function spelled like `posix`, `_io`, `genericpath`", "C18", "new fixed text `alias-names`"),
}

D.update({
 'C03-w3-1': ("off-by-one in the 'first iterable of a comprehension' test (context.create_context): a name that is the first leaf of the first iterable is resolved from inside the comprehension",
              "a comprehension in a class body whose iterable starts with a class attribute, or an iterable whose leading name equals a loop target", "C03", "family added by the builder: comprehensions whose first iterable starts with the tracked identifier - 3 iterable forms (x, x.copy(), x[0]) x 2 targets (_ or x itself), in every enclosing scope kind, as list/set/dict comprehension and generator expression (quick +504 shapes x 4 levels)"),
 'C03-w3-2': ("GlobalNameFilter also merges `nonlocal` declarations into the module scope", "a `nonlocal x` in a nested function plus a use of x that Python resolves in the module", "C03", ""),
 'C08-w3-1': ("Script(path=...) without code parses with cache=True: answers come from the tree of an earlier unsaved buffer on that path", "Script(code=X, path=P) with X != file, then Script(path=P)", "C08", "disk events added by the builder (path mode): `save` (buffer written to its file, mtime +1 s) and `reload` (Script(path=P) without code), interleaved with the edit events in all orders to depth 2 (3 thorough)"),
 'C08-w3-2': ("early return in dynamic_arrays._internal_check_array_additions skips restoring settings.dynamic_params_for_other_modules (process-global)", "a buffer text iterating a list literal without .append, then a text needing callers in a sibling module", "C08", "new base `dyn` added by the builder (the only caller of a buffer function lives in a sibling module on disk) and event `add_list_loop`; every mismatch is re-judged by two single-purpose fresh interpreters because the leaked setting also reached the batched oracle interpreter"),
 'C09-w3-1': ("package sub-module listing memoised per parso cache entry of __init__.py", "a sub-module added/removed while __init__.py is untouched, queried through the listing", "C09", "events added by the builder: add/remove sub-modules of a regular package with __init__.py untouched, probes through the folder listing (completion after `from pkg import `, `pkg.`, goto on the removed one)"),
 'C09-w3-2': ("get_default_project memoised per folder", "Scripts without project=, then __init__.py of the edited file's folder added/removed", "C09", "events added by the builder: a buffer analysed WITHOUT project= (get_default_project decides the root) and +/- __init__.py of its own folder"),
 'C10-w3-1': ("ImplicitNamespaceValue stores sorted(set(paths)): portions searched alphabetically instead of in sys.path order", "a namespace package split over two roots in non-alphabetical sys.path order with a clashing sub-module", "C10", "family `namespace-portions-clash` added by the builder: same sub-module in every portion x module/package/namespace directory per portion x every sys.path order of the roots (72 layouts quick, 3 roots thorough)"),
 'C10-w3-2': ("the script's own dotted name derived from the sys.path that includes parent dirs (shortest-name heuristic picks `util` for proj/tools/util.py, registered in module_cache)", "smart_sys_path, a script in an __init__-less folder, a same-named module on an earlier entry", "C10", "family `script-in-plain-subdir` added by the builder: script in d/ or d/e/ without __init__.py x root holding nothing/module/package of each pool name x smart Project / explicit sys_path (144 layouts quick), oracle = clean child with jedi's configured path, incl. the full_name round trip"),
 'C11-w3-1': ("bound signature strips the first parameter before *args/**kwargs are resolved", "a decorated (functools.wraps pass-through) method/classmethod/__init__ accessed bound", "C11", "callable-kind family added by the builder: {method, classmethod, staticmethod, __call__, __init__} x {plain, functools.wraps pass-through} x every bound/unbound access, compared with inspect.signature of the very object"),
 'C11-w3-2': ("param to_string collapses whitespace, also inside string literals of defaults/annotations", "a default or annotation containing a string literal with two or more blanks / tab / newline", "C11", "default/annotation alphabet extended by the builder with white-space string literals ('a  b', tab, triple-quoted newline, '    ', ',  ') rotated over every position; compared by re-executing to_string()"),
 'C12-w3-1': ("safe-path filter moved out of _load_builtin_module and applied in one of two call sites only: auto_import_modules branch imports with the project sys.path", "a project file named like an auto_import_modules entry (gi.py) and a buffer importing it", "C12", ""),
 'C12-w3-2': ("Project._get_base_sys_path drops the defensive copy: `remove('')` edits the host's live sys.path under InterpreterEnvironment", "Script(environment=InterpreterEnvironment()) in a host whose sys.path contains ''", "C12", "level added by the builder: host sys.path shape (no '', '' first/middle/twice, relative entries) x environment kind (SameEnvironment, Script(environment=InterpreterEnvironment()), jedi.Interpreter) x project options x symbols x forms, judged 'host sys.path identical before and after every call' (reported at sys.path-changed@host; evaluated on /repo 2ab0e3b because fix 9abf6b1 later rewrote the patched function - the two other sites in that run are the defect that 9abf6b1 repairs)"),
 'C13-w3-1': ("get_key_paths iterates the live object (islice(obj)) instead of obj.keys(): dict subclasses' __iter__ runs in safe mode", "dict subclass with __iter__, completion inside subscript brackets `reg['`", "C13", "family `keys` added by the builder: dict-key completion on plain dict, OrderedDict, defaultdict and dict subclasses with counting __iter__/__next__/keys/__getitem__/__len__/__contains__ (class statements and type()-created), reached by name / attribute / index / nested key, 9 cursor shapes"),
 'C13-w3-2': ("getattr_static._safe_hasattr looks only in type(obj).__dict__: descriptor types that inherit __get__ count as plain attributes", "`class lazy(property)` / `class IntField(Field)` members on live objects", "C13", "levels added by the builder: property / non-data / data descriptor / metaclass property whose type only INHERITS __get__/__set__, on class, base and metaclass, plain and shadowed in the instance dict"),
 'C14-w3-1': ("is_crashed guard dropped at the top of CompiledSubprocess._send: a Script kept from before the crash raises ValueError (write to closed file)", "old Script re-queried after the crash was noticed through another Script", "C14", ""),
 'C14-w3-2': ("one shared try around the stream-closing loop in _cleanup_process: stdout/stderr of a helper that died before the send stay open", "crash phase 'before send' + fd table inspection", "C14", ""),
 'C15-w3-1': ("the memoiser forgets empty results: unresolvable diamonds are re-inferred along every path", "diamond-shaped definition graph with an unresolvable bottom", "C15", ""),
 'C15-w3-2': ("recursion limit raised only during Script entry points; lazily inferring result objects run under the host limit", "get_names()/search()/goto() then .infer() on a 45+ chain", "C15", "two-step family added by the builder: Names from get_names/search/goto/complete, then infer/goto/docstring/get_signatures/get_type_hint/defined_names/execute on them, on every program at n <= 64; workers now run under the recursion limit a default host has after `import jedi` from the tree under test (measured in a clean child) instead of a limit raised by the pool"),
 'C19-w3-1': ("Project search no longer scans foo.py for definitions named foo", "a definition spelled like the basename of its file", "C19", "family N added by the builder: every definition kind named exactly like its container (X.py at 4 places, X/__init__.py at 3, X.pyi at 2), 166 trees"),
 'C19-w3-2': ("search regex memoised by name without the `complete` flag", "search('render') then complete_search('render') in one process", "C19", "first seen but exit 2 (a process-level memo does not replay from one input in a fresh process); the builder made every tree one explicit call history (search then complete_search with the same string, reverse order, triple), replays re-execute the whole history in one fresh process, every tree got its own identifier token; reported as answer-depends-on-earlier-searches@complete_search"),
 'C20-w3-1': ("project dir prefixed only if not already on the sys path: it stays where the user listed it", "Project(proj, sys_path=[lib, proj])", "C20", "the builder added sys_path values that contain the project directory ([P], [P,b], [b,P], [b,a,P], [b,P,P], str and Path) and added_sys_path [P], [b,P] to the full configuration product"),
 'C20-w3-2': ("environment base sys path cached at module scope per executable: InterpreterEnvironment and SameEnvironment share it", "Interpreter, sys.path change, Interpreter again / Script(SameEnvironment)", "C20", "family added by the builder: all event sequences of length <= 4 over {Interpreter query, Script+SameEnvironment query, sys.path.append, sys.path.insert(0), insert project dir at 1} (660 sequences, 5 fresh interpreters), each query judged against the model fed with that environment's own current path (evaluated on /repo 2ab0e3b: fix 9abf6b1 later rewrote the patched function)"),
})

results = {}
for log in sorted(glob.glob('/var/tmp/seed-w3*.log')):
    for line in open(log):
        m = re.match(r'SEED /verif/seeded/(\S+): demo_clean=(\d+) demo_mutant=(\d+) baseline_rc=(\d+) checks: (.*)', line)
        if m: results[m.group(1)] = m.groups()[1:]
for sid, (change, needs, chk, strengthening) in sorted(D.items()):
    r = results.get(sid)
    if not r: print('no result', sid); continue
    caught = 'exit=1' in r[3]
    sites = []
    for f in glob.glob('/verif/seeded/%s/check_*.out' % sid):
        sites += re.findall(r'site=(\S+)', open(f).read())
    meta = {'id': sid, 'breaks_property': sid[:3], 'change': change, 'needs_to_manifest': needs,
            'status': ('caught-after-strengthening' if strengthening and not strengthening.startswith('already') else 'caught') if caught else 'MISSED',
            'reported_by_check': chk, 'reported_at': sorted(set(sites))[:6], 'strengthening': strengthening,
            'confirmed': 'tools/try_seed.sh seeded/%s %s: demo.py exit %s on a scratch worktree of /repo HEAD, exit %s with patch.diff applied; bin/baseline on the patched worktree rc=%s (264/264); then JV_REPO=<worktree> bin/check %s --tier quick -> %s' % (sid, chk, r[0], r[1], r[2], chk, r[3].strip())}
    json.dump(meta, open('/verif/seeded/%s/meta.json' % sid, 'w'), indent=1, ensure_ascii=False)
    print(sid, meta['status'], r[3].strip())
