#!/bin/bash
# usage: tools/try_seed.sh <dir with patch.diff demo.py> <check ids...>
# Confirms a seeded change (demo passes without / fails with it, baseline 264 pass) and runs
# the named checks against it in a scratch worktree (never in /repo).  Prints a summary line.
here="$(cd "$(dirname "$0")/.." && pwd)"
d="$(cd "$1" && pwd)"; shift
wt="/tmp/chk-$(basename "$(dirname "$d")")-$(basename "$d")-$$"
git -C /repo worktree add --detach "$wt" "${REV:-HEAD}" >/dev/null 2>&1 || { echo "worktree failed"; exit 2; }
trap 'git -C /repo worktree remove --force "$wt" >/dev/null 2>&1' EXIT
( cd /var/tmp && PYTHONPATH="$wt" PYTHONHASHSEED=0 timeout 600 /venv/bin/python -B "$d/demo.py" >"$d/demo_clean.out" 2>&1 ); rc0=$?
git -C "$wt" apply "$d/patch.diff" || { echo "SEED $d: patch does not apply"; exit 2; }
( cd /var/tmp && PYTHONPATH="$wt" PYTHONHASHSEED=0 timeout 600 /venv/bin/python -B "$d/demo.py" >"$d/demo_mut.out" 2>&1 ); rc1=$?
"$here/bin/baseline" "$wt" >"$d/baseline.out" 2>&1; rcb=$?
res=""
for id in "$@"; do
  JV_REPO="$wt" JV_NPROC="${JV_NPROC:-8}" "$here/bin/check" "$id" --tier "${TIER:-quick}" >"$d/check_$id.out" 2>&1; rc=$?
  nv=$(grep -c '^VIOLATION' "$d/check_$id.out")
  res="$res $id:exit=$rc,violations=$nv"
done
echo "SEED $d: demo_clean=$rc0 demo_mutant=$rc1 baseline_rc=$rcb checks:$res"
