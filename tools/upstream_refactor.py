#!/venv/bin/python
"""Regression net for fix: commits that touch jedi/api/refactoring: runs upstream's own
refactoring cases (test/refactor/*.py, the expectations of test_integration.test_refactor) against
a jedi tree with the vendored typeshed and prints {case: pass|fail|error}.  The 264-test baseline
cannot run them (the repository's `environment` fixture is broken in this sandbox).

usage: upstream_refactor.py <repo_dir> [<out.json>]"""
import json
import os
import sys

repo = os.path.abspath(sys.argv[1])
os.environ['JV_REPO'] = repo
sys.path.insert(0, os.path.join(os.path.dirname(os.path.abspath(__file__)), '..', 'lib'))
from jv import boot   # noqa
jedi = boot.boot()
env = boot.environment()
sys.path.insert(0, repo)
os.chdir(repo)
from test import refactor   # noqa

res = {}
for case in refactor.collect_dir_tests(os.path.join(repo, 'test', 'refactor'), {}):
    cid = '%s:%s:%s' % (os.path.basename(case._path), case._line_nr, case.name)
    desired = case.get_desired_result()
    try:
        if case.type == 'error':
            try:
                case.refactor(env)
                res[cid] = 'fail:no-error'
            except jedi.RefactoringError as e:
                res[cid] = 'pass' if str(e) == desired.strip() else 'fail:message'
        elif case.type == 'text':
            r = case.refactor(env)
            text = ''.join(f.get_new_code() for f in r.get_changed_files().values())
            res[cid] = 'pass' if text == desired and not r.get_renames() else 'fail'
        else:
            r = case.refactor(env)
            res[cid] = 'pass' if r.get_diff() == desired else 'fail'
    except Exception as e:
        res[cid] = 'error:' + type(e).__name__
if len(sys.argv) > 2:
    json.dump(res, open(sys.argv[2], 'w'), indent=0, sort_keys=True)
import collections
print(collections.Counter(v.split(':')[0] for v in res.values()))
