#!/venv/bin/python
"""Regression net for fix: commits: runs upstream's integration cases (test/completion,
test/static_analysis via test/run.py) against a jedi tree with the vendored typeshed, in
parallel, and writes {case id: 'pass'|'fail'|'error:<type>'} as JSON.

usage: upstream_integration.py <repo_dir> <out.json>    (the 264-test baseline cannot run these:
the repository's `environment` fixture is broken in this sandbox)
"""
import json
import os
import sys

repo, out = os.path.abspath(sys.argv[1]), sys.argv[2]
os.environ['JV_REPO'] = repo
sys.path.insert(0, os.path.join(os.path.dirname(os.path.abspath(__file__)), '..', 'lib'))
from jv import boot, pool   # noqa


def _init():
    boot.boot()
    boot.environment()
    sys.path.insert(0, repo)


def _cases():
    sys.path.insert(0, repo)
    os.chdir(repo)
    from test import run
    base = os.path.join(repo, 'test', 'completion')
    return list(run.collect_dir_tests(base, {}, False))


_CACHE = {}


def _work(idx):
    if 'cases' not in _CACHE:
        _CACHE['cases'] = _cases()
    case = _CACHE['cases'][idx]
    env = boot.environment()
    cid = '%s:%s:%s' % (os.path.basename(case.path), case.line_nr, case.test_type)
    if case.get_skip_reason(env):
        return [cid, 'skip']
    res = {}

    def cb(case_, actual, desired):
        res['ok'] = actual == desired
    try:
        case.run(cb, env)
        return [cid, 'pass' if res.get('ok') else 'fail']
    except Exception as e:
        return [cid, 'error:' + type(e).__name__]


if __name__ == '__main__':
    n = len(_cases())
    pres = pool.run(list(range(n)), '__main__:_work', init='__main__:_init', tag='upstream')
    d = {}
    for i in range(n):
        r = pres.results.get(i)
        if r is None:
            d['#%d' % i] = 'crash'
        else:
            d[r[0] if r[0] not in d else r[0] + '#%d' % i] = r[1]
    json.dump(d, open(out, 'w'), indent=0, sort_keys=True)
    import collections
    print(collections.Counter(v.split(':')[0] for v in d.values()))
    import shutil
    shutil.rmtree(boot.scratch_root(), ignore_errors=True)
