#!/usr/bin/env python3
"""Maintenance (never run by a registered check): add the (site, input) pairs of a
--dump-failures file to the open known-finding lists, matched by the rules of
known_findings/<PID>-spec.json (site + id prefix).  Nothing is removed.  Unmatched pairs are
printed: they are new violations and must be looked at.
usage: add_known.py <PID> <dump.json>"""
import json, os, re, sys
pid, dump = sys.argv[1:3]
here = os.path.dirname(os.path.dirname(os.path.abspath(__file__)))
pairs = [tuple(p) for p in json.load(open(dump))]
spec = json.load(open(os.path.join(here, 'known_findings', pid + '-spec.json')))
kf = json.load(open(os.path.join(here, 'known_findings.json')))
rest = []
added = {}
for s, i in pairs:
    for sp in spec:
        if sp['site'] == s and (any(i.startswith(p) or p in i for p in sp['prefix']) or any(re.search(r, i) for r in sp.get('regex', []))):
            rel = 'known_findings/%s-%s.json' % (pid, sp['slug'])
            if not os.path.exists(os.path.join(here, rel)):
                json.dump([], open(os.path.join(here, rel), 'w'))
                e = {'property': pid, 'status': 'open', 'generated': True, 'site': sp['site'],
                     'what': sp['what'], 'inputs_file': rel, 'n_inputs': 0}
                if sp.get('thorough_only'):
                    e['thorough_only'] = True
                kf['findings'].append(e)
            cur = set(json.load(open(os.path.join(here, rel))))
            if i not in cur:
                cur.add(i)
                json.dump(sorted(cur), open(os.path.join(here, rel), 'w'), indent=0)
                added[sp['slug']] = added.get(sp['slug'], 0) + 1
                for e in kf['findings']:
                    if e.get('inputs_file') == rel:
                        e['n_inputs'] = len(cur)
                        e['what'] = sp['what']
            break
    else:
        rest.append((s, i))
json.dump(kf, open(os.path.join(here, 'known_findings.json'), 'w'), indent=1)
print('added:', added)
print('unmatched:', len(rest), rest[:12])
