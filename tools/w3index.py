#!/usr/bin/env python3
"""Maintenance: (re)write the 'Wave 3' section of seeded/INDEX.md from seeded/*-w3-*/meta.json."""
import glob, json, os, re, sys
W = sys.argv[1] if len(sys.argv) > 1 else "3"
here = os.path.dirname(os.path.dirname(os.path.abspath(__file__)))
metas = [json.load(open(f)) for f in sorted(glob.glob(os.path.join(here, 'seeded', '*-w%s-*' % W, 'meta.json')))]
import collections
st = collections.Counter(m['status'] for m in metas)
rows = []
for m in metas:
    esc = lambda t: str(t).replace('|', '\\|').replace('\n', ' ')
    rows.append('| %s | %s | %s | %s | %s | %s |' % (m['id'], m['breaks_property'], esc(m['change']), esc(m['needs_to_manifest']),
                m['status'] + ('' if m.get('reported_by_check') in (None, m['breaks_property']) or not m['status'].startswith('caught') else ' (%s)' % m['reported_by_check']),
                esc(m.get('strengthening') or '-')))
sec = ['<!-- wave%s:begin -->' % W, '## Wave %s' % W,
       '',
       ('%d changes, 2 per property; the authors were given the list of ideas used in waves 1-2 and had to avoid them.' if W == '3' else '%d changes, one per property for eight properties with builder-made checks; the authors were given the ideas of waves 1-3 and had to avoid them; every check was evaluated untouched first.') % len(metas),
       'Status counts: ' + ', '.join('%s: %d' % kv for kv in sorted(st.items())) + '.',
       ] + (['For the nine checks built by the lead the ideas were read first and the families they need were added before the',
       'evaluation (so "caught-after-strengthening" there means: would have been missed by the check as it stood); for the',
       'builders\' checks the evaluation came first and the misses were handed to the builder of the check.'] if W == '3' else []) + [
       '',
       '| id | property | change | needs | status | strengthening |', '|---|---|---|---|---|---|'] + rows + ['<!-- wave%s:end -->' % W]
p = os.path.join(here, 'seeded', 'INDEX.md')
s = open(p).read()
if '<!-- wave%s:begin -->' % W in s:
    s = re.sub(r'<!-- wave%s:begin -->.*<!-- wave%s:end -->' % (W, W), lambda m: '\n'.join(sec), s, flags=re.S)
else:
    s = s.rstrip('\n') + '\n\n' + '\n'.join(sec) + '\n'
open(p, 'w').write(s)
print(st)
