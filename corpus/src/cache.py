"""
This caching is very important for speed and memory optimizations. There's
nothing really spectacular, just some decorators. The following cache types are
available:

- ``time_cache`` can be used to cache something for just a limited time span,
  which can be useful if there's user interaction and the user cannot react
  faster than a certain time.

This module is one of the reasons why |jedi| is not thread-safe. As you can see
there are global variables, which are holding the cache information. Some of
these variables are being cleaned after every API usage.
"""
import time
from functools import wraps
from typing import Any, Dict, Tuple

from jedi import settings
from parso.cache import parser_cache

_time_caches: Dict[str, Dict[Any, Tuple[float, Any]]] = {}


def clear_time_caches(delete_all: bool = False) -> None:
    """ Jedi caches many things, that should be completed after each completion
    finishes.

    :param delete_all: Deletes also the cache that is normally not deleted,
        like parser cache, which is important for faster parsing.
    """
    global _time_caches  # noqa: F824

    if delete_all:
        for cache in _time_caches.values():
            cache.clear()
        parser_cache.clear()
    else:
        # normally just kill the expired entries, not all
        for tc in _time_caches.values():
            # check time_cache for expired entries
            for key, (t, value) in list(tc.items()):
                if t < time.time():
                    # delete expired entries
                    del tc[key]


def signature_time_cache(time_add_setting):
    """
    This decorator works as follows: Call it with a setting and after that
    use the function with a callable that returns the key.
    But: This function is only called if the key is not available. After a
    certain amount of time (`time_add_setting`) the cache is invalid.

    If the given key is None, the function will not be cached.
    """
    def _temp(key_func):
        dct = {}
        _time_caches[time_add_setting] = dct

        def wrapper(*args, **kwargs):
            generator = key_func(*args, **kwargs)
            key = next(generator)
            try:
                expiry, value = dct[key]
                if expiry > time.time():
                    return value
            except KeyError:
                pass

            value = next(generator)
            time_add = getattr(settings, time_add_setting)
            if key is not None:
                dct[key] = time.time() + time_add, value
            return value
        return wrapper
    return _temp


def time_cache(seconds):
    def decorator(func):
        cache = {}

        @wraps(func)
        def wrapper(*args, **kwargs):
            key = (args, frozenset(kwargs.items()))
            try:
                created, result = cache[key]
                if time.time() < created + seconds:
                    return result
            except KeyError:
                pass
            result = func(*args, **kwargs)
            cache[key] = time.time(), result
            return result

        wrapper.clear_cache = lambda: cache.clear()  # type: ignore[attr-defined]
        return wrapper

    return decorator


def memoize_method(method):
    """A normal memoize function."""
    @wraps(method)
    def wrapper(self, *args, **kwargs):
        cache_dict = self.__dict__.setdefault('_memoize_method_dct', {})
        dct = cache_dict.setdefault(method, {})
        key = (args, frozenset(kwargs.items()))
        try:
            return dct[key]
        except KeyError:
            result = method(self, *args, **kwargs)
            dct[key] = result
            return result
    return wrapper
