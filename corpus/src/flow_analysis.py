from typing import Dict, Optional

from jedi.parser_utils import get_flow_branch_keyword, is_scope, get_parent_scope
from jedi.inference.recursion import execution_allowed
from jedi.inference.helpers import is_big_annoying_library


class Status:
    lookup_table: Dict[Optional[bool], 'Status'] = {}

    def __init__(self, value: Optional[bool], name: str) -> None:
        self._value = value
        self._name = name
        Status.lookup_table[value] = self

    def invert(self):
        if self is REACHABLE:
            return UNREACHABLE
        elif self is UNREACHABLE:
            return REACHABLE
        else:
            return UNSURE

    def __and__(self, other):
        if UNSURE in (self, other):
            return UNSURE
        else:
            return REACHABLE if self._value and other._value else UNREACHABLE

    def __repr__(self):
        return '<%s: %s>' % (type(self).__name__, self._name)


REACHABLE = Status(True, 'reachable')
UNREACHABLE = Status(False, 'unreachable')
UNSURE = Status(None, 'unsure')


def _get_flow_scopes(node):
    while True:
        node = get_parent_scope(node, include_flows=True)
        if node is None or is_scope(node):
            return
        yield node


def reachability_check(context, value_scope, node, origin_scope=None):
    if is_big_annoying_library(context) \
            or not context.inference_state.flow_analysis_enabled:
        return UNSURE

    first_flow_scope = get_parent_scope(node, include_flows=True)
    if origin_scope is not None:
        origin_flow_scopes = list(_get_flow_scopes(origin_scope))
        node_flow_scopes = list(_get_flow_scopes(node))

        branch_matches = True
        for flow_scope in origin_flow_scopes:
            if flow_scope in node_flow_scopes:
                node_keyword = get_flow_branch_keyword(flow_scope, node)
                origin_keyword = get_flow_branch_keyword(flow_scope, origin_scope)
                branch_matches = node_keyword == origin_keyword
                if flow_scope.type == 'if_stmt':
                    if not branch_matches:
                        return UNREACHABLE
                elif flow_scope.type == 'try_stmt':
                    if not branch_matches and origin_keyword == 'else' \
                            and node_keyword == 'except':
                        return UNREACHABLE
                if branch_matches:
                    break

        # Direct parents get resolved, we filter scopes that are separate
        # branches.  This makes sense for autocompletion and static analysis.
        # For actual Python it doesn't matter, because we're talking about
        # potentially unreachable code.
        # e.g. `if 0:` would cause all name lookup within the flow make
        # unaccessible. This is not a "problem" in Python, because the code is
        # never called. In Jedi though, we still want to infer types.
        while origin_scope is not None:
            if first_flow_scope == origin_scope and branch_matches:
                return REACHABLE
            origin_scope = origin_scope.parent

    return _break_check(context, value_scope, first_flow_scope, node)


def _break_check(context, value_scope, flow_scope, node):
    reachable = REACHABLE
    if flow_scope.type == 'if_stmt':
        if flow_scope.is_node_after_else(node):
            for check_node in flow_scope.get_test_nodes():
                reachable = _check_if(context, check_node)
                if reachable in (REACHABLE, UNSURE):
                    break
            reachable = reachable.invert()
        else:
            flow_node = flow_scope.get_corresponding_test_node(node)
            if flow_node is not None:
                reachable = _check_if(context, flow_node)
    elif flow_scope.type in ('try_stmt', 'while_stmt'):
        return UNSURE

    # Only reachable branches need to be examined further.
    if reachable in (UNREACHABLE, UNSURE):
        return reachable

    if value_scope != flow_scope and value_scope != flow_scope.parent:
        flow_scope = get_parent_scope(flow_scope, include_flows=True)
        return reachable & _break_check(context, value_scope, flow_scope, node)
    else:
        return reachable


def _check_if(context, node):
    with execution_allowed(context.inference_state, node) as allowed:
        if not allowed:
            return UNSURE

        types = context.infer_node(node)
        values = set(x.py__bool__() for x in types)
        if len(values) == 1:
            return Status.lookup_table[values.pop()]
        else:
            return UNSURE
