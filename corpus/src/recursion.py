"""
Recursions are the recipe of |jedi| to conquer Python code. However, someone
must stop recursions going mad. Some settings are here to make |jedi| stop at
the right time. You can read more about them :ref:`here <settings-recursion>`.

Next to the internal ``jedi.inference.cache`` this module also makes |jedi| not
thread-safe, because ``execution_recursion_decorator`` uses class variables to
count the function calls.

.. _settings-recursion:

Settings
~~~~~~~~~~

Recursion settings are important if you don't want extremely
recursive python code to go absolutely crazy.

The default values are based on experiments while completing the |jedi| library
itself (inception!). But I don't think there's any other Python library that
uses recursion in a similarly extreme way. Completion should also be fast and
therefore the quality might not always be maximal.

.. autodata:: recursion_limit
.. autodata:: total_function_execution_limit
.. autodata:: per_function_execution_limit
.. autodata:: per_function_recursion_limit
"""

from contextlib import contextmanager

from jedi import debug
from jedi.inference.base_value import NO_VALUES


recursion_limit = 15
"""
Like :func:`sys.getrecursionlimit()`, just for |jedi|.
"""
total_function_execution_limit = 200
"""
This is a hard limit of how many non-builtin functions can be executed.
"""
per_function_execution_limit = 6
"""
The maximal amount of times a specific function may be executed.
"""
per_function_recursion_limit = 2
"""
A function may not be executed more than this number of times recursively.
"""


class RecursionDetector:
    def __init__(self):
        self.pushed_nodes = []


@contextmanager
def execution_allowed(inference_state, node):
    """
    A decorator to detect recursions in statements. In a recursion a statement
    at the same place, in the same module may not be executed two times.
    """
    pushed_nodes = inference_state.recursion_detector.pushed_nodes

    if node in pushed_nodes:
        debug.warning('catched stmt recursion: %s @%s', node,
                      getattr(node, 'start_pos', None))
        yield False
    else:
        try:
            pushed_nodes.append(node)
            yield True
        finally:
            pushed_nodes.pop()


def execution_recursion_decorator(default=NO_VALUES):
    def decorator(func):
        def wrapper(self, **kwargs):
            detector = self.inference_state.execution_recursion_detector
            limit_reached = detector.push_execution(self)
            try:
                if limit_reached:
                    result = default
                else:
                    result = func(self, **kwargs)
            finally:
                detector.pop_execution()
            return result
        return wrapper
    return decorator


class ExecutionRecursionDetector:
    """
    Catches recursions of executions.
    """
    def __init__(self, inference_state):
        self._inference_state = inference_state

        self._recursion_level = 0
        self._parent_execution_funcs = []
        self._funcdef_execution_counts = {}
        self._execution_count = 0

    def pop_execution(self):
        self._parent_execution_funcs.pop()
        self._recursion_level -= 1

    def push_execution(self, execution):
        funcdef = execution.tree_node

        # These two will be undone in pop_execution.
        self._recursion_level += 1
        self._parent_execution_funcs.append(funcdef)

        module_context = execution.get_root_context()

        if module_context.is_builtins_module():
            # We have control over builtins so we know they are not recursing
            # like crazy. Therefore we just let them execute always, because
            # they usually just help a lot with getting good results.
            return False

        if self._recursion_level > recursion_limit:
            debug.warning('Recursion limit (%s) reached', recursion_limit)
            return True

        if self._execution_count >= total_function_execution_limit:
            debug.warning('Function execution limit (%s) reached', total_function_execution_limit)
            return True
        self._execution_count += 1

        if self._funcdef_execution_counts.setdefault(funcdef, 0) >= per_function_execution_limit:
            if module_context.py__name__() == 'typing':
                return False
            debug.warning(
                'Per function execution limit (%s) reached: %s',
                per_function_execution_limit,
                funcdef
            )
            return True
        self._funcdef_execution_counts[funcdef] += 1

        if self._parent_execution_funcs.count(funcdef) > per_function_recursion_limit:
            debug.warning(
                'Per function recursion limit (%s) reached: %s',
                per_function_recursion_limit,
                funcdef
            )
            return True
        return False
