from contextlib import contextmanager


@contextmanager
def monkeypatch(obj, attribute_name, new_value):
    """
    Like pytest's monkeypatch, but as a value manager.
    """
    old_value = getattr(obj, attribute_name)
    try:
        setattr(obj, attribute_name, new_value)
        yield
    finally:
        setattr(obj, attribute_name, old_value)


def indent_block(text, indention='    '):
    """This function indents a text block with a default of four spaces."""
    temp = ''
    while text and text[-1] == '\n':
        temp += text[-1]
        text = text[:-1]
    lines = text.split('\n')
    return '\n'.join(map(lambda s: indention + s, lines)) + temp
