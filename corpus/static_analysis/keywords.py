def raises():
    raise KeyError()


def wrong_name():
    #! 6 name-error
    raise NotExistingException()
