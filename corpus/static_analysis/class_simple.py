class Base(object):
    class Nested():
        def foo():
            pass


class X(Base.Nested):
    pass


X().foo()
#! 4 attribute-error
X().bar()
