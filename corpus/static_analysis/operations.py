-1 + 1
1 + 1.0
#! 2 type-error-operation
1 + '1'
#! 2 type-error-operation
1 - '1'

-1 - - 1
# TODO uncomment
#-1 - int()
#int() - float()
float() - 3.0

a = 3
b = ''
#! 2 type-error-operation
a + b
