# ----------
# isinstance
# ----------

isinstance(1, int)
isinstance(1, (int, str))

#! 14 type-error-isinstance
isinstance(1, 1)
#! 14 type-error-isinstance
isinstance(1, [int, str])
