"""
Jedi issues warnings for possible errors if ``__getattr__``,
``__getattribute__`` or ``setattr`` are used.
"""

# -----------------
# __getattr*__
# -----------------


class Cls():
    def __getattr__(self, name):
        return getattr(str, name)


Cls().upper

#! 6 warning attribute-error
Cls().undefined


class Inherited(Cls):
    pass

Inherited().upper

#! 12 warning attribute-error
Inherited().undefined

# -----------------
# setattr
# -----------------


class SetattrCls():
    def __init__(self, dct):
        # Jedi doesn't even try to understand such code
        for k, v in dct.items():
            setattr(self, k, v)

        self.defined = 3

c = SetattrCls({'a': 'b'})
c.defined
#! 2 warning attribute-error
c.undefined
