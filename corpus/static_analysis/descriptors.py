# classmethod
class TarFile():
    @classmethod
    def open(cls, name, **kwargs):
        return cls.taropen(name, **kwargs)

    @classmethod
    def taropen(cls, name, **kwargs):
        return name


# should just work
TarFile.open('hallo')
