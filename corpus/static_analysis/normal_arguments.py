# -----------------
# normal arguments (no keywords)
# -----------------


def simple(a):
    return a

simple(1)
#! 6 type-error-too-few-arguments
simple()
#! 10 type-error-too-many-arguments
simple(1, 2)


#! 10 type-error-too-many-arguments
simple(1, 2, 3)

# -----------------
# keyword arguments
# -----------------

simple(a=1)
#! 7 type-error-keyword-argument
simple(b=1)
#! 10 type-error-too-many-arguments
simple(1, a=1)


def two_params(x, y):
    return y


two_params(y=2, x=1)
two_params(1, y=2)

#! 11 type-error-multiple-values
two_params(1, x=2)
#! 17 type-error-too-many-arguments
two_params(1, 2, y=3)

# -----------------
# default arguments
# -----------------

def default(x, y=1, z=2):
    return x

#! 7 type-error-too-few-arguments
default()
default(1)
default(1, 2)
default(1, 2, 3)
#! 17 type-error-too-many-arguments
default(1, 2, 3, 4)

default(x=1)

# -----------------
# class arguments
# -----------------

class Instance():
    def __init__(self, foo):
        self.foo = foo

Instance(1).foo
Instance(foo=1).foo

#! 12 type-error-too-many-arguments
Instance(1, 2).foo
#! 8 type-error-too-few-arguments
Instance().foo
