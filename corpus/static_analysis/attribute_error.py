class Cls():
    class_attr = ''
    def __init__(self, input):
        self.instance_attr = 3
        self.input = input

    def f(self):
        #! 12 attribute-error
        return self.not_existing

    def undefined_object(self, obj):
        """
        Uses an arbitrary object and performs an operation on it, shouldn't
        be a problem.
        """
        obj.arbitrary_lookup

    def defined_lookup(self, obj):
        """
        `obj` is defined by a call into this function.
        """
        obj.upper
        #! 4 attribute-error
        obj.arbitrary_lookup

    #! 13 name-error
    class_attr = a

Cls(1).defined_lookup('')

c = Cls(1)
c.class_attr
Cls.class_attr
#! 4 attribute-error
Cls.class_attr_error
c.instance_attr
#! 2 attribute-error
c.instance_attr_error


c.something = None

#! 12 name-error
something = a
something

# -----------------
# Unused array variables should still raise attribute errors.
# -----------------

# should not raise anything.
for loop_variable in [1, 2]:
    #! 4 name-error
    x = undefined
    loop_variable

#! 28 name-error
for loop_variable in [1, 2, undefined]:
    pass

#! 7 attribute-error
[1, ''.undefined_attr]


def return_one(something):
    return 1

#! 14 attribute-error
return_one(''.undefined_attribute)

#! 12 name-error
[r for r in undefined]

#! 1 name-error
[undefined for r in [1, 2]]

[r for r in [1, 2]]

# some random error that showed up
class NotCalled():
    def match_something(self, param):
        seems_to_need_an_assignment = param
        return [value.match_something() for value in []]

# -----------------
# decorators
# -----------------

#! 1 name-error
@undefined_decorator
def func():
    return 1

# -----------------
# operators
# -----------------

string = '%s %s' % (1, 2)

# Shouldn't raise an error, because `string` is really just a string, not an
# array or something.
string.upper

# -----------------
# imports
# -----------------

# Star imports and the like in modules should not cause attribute errors in
# this module.
import import_tree

import_tree.a
import_tree.b
