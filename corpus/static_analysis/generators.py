def generator():
    yield 1

#! 11 type-error-not-subscriptable
generator()[0]

list(generator())[0]
