try:
    #! 4 attribute-error
    str.not_existing
except TypeError:
    pass

try:
    str.not_existing
except AttributeError:
    #! 4 attribute-error
    str.not_existing
    pass

try:
    import not_existing_import
except ImportError:
    pass
try:
    #! 7 import-error
    import not_existing_import2
except AttributeError:
    pass

# -----------------
# multi except
# -----------------
try:
    str.not_existing
except (TypeError, AttributeError): pass

try:
    str.not_existing
except ImportError:
    pass
except (NotImplementedError, AttributeError): pass

try:
    #! 4 attribute-error
    str.not_existing
except (TypeError, NotImplementedError): pass

# -----------------
# detailed except
# -----------------
try:
    str.not_existing
except ((AttributeError)): pass
try:
    #! 4 attribute-error
    str.not_existing
except [AttributeError]: pass

# Should be able to detect errors in except statement as well.
try:
    pass
#! 7 name-error
except Undefined:
    pass

# -----------------
# inheritance
# -----------------

try:
    undefined
except Exception:
    pass

# should catch everything
try:
    undefined
except:
    pass

# -----------------
# kind of similar: hasattr
# -----------------

if hasattr(str, 'undefined'):
    str.undefined
    str.upper
    #! 4 attribute-error
    str.undefined2
    #! 4 attribute-error
    int.undefined
else:
    str.upper
    #! 4 attribute-error
    str.undefined

# -----------------
# arguments
# -----------------

def i_see(r):
    return r

def lala():
    # This weird structure checks if the error is actually resolved in the
    # right place.
    a = TypeError
    try:
        i_see()
    except a:
        pass
    #! 5 type-error-too-few-arguments
    i_see()
