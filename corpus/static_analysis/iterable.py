
a, b = {'asdf': 3, 'b': 'str'}
a

x = [1]
x[0], b = {'a': 1, 'b': '2'}

dct = {3: ''}
for x in dct:
    pass

#! 4 type-error-not-iterable
for x, y in dct:
    pass

# Shouldn't cause issues, because if there are no types (or we don't know what
# the types are, we should just ignore it.
#! 0 value-error-too-few-values
a, b = []
#! 7 name-error
a, b = NOT_DEFINED
