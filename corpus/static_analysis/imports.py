
#! 7 import-error
import not_existing

import os

from os.path import abspath
#! 20 import-error
from os.path import not_existing

from datetime import date
date.today

#! 5 attribute-error
date.not_existing_attribute

#! 14 import-error
from datetime.date import today

#! 16 import-error
import datetime.datetime
#! 7 import-error
import not_existing_nested.date

import os.path
