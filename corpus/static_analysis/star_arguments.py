# -----------------
# *args
# -----------------


def simple(a):
    return a


def nested(*args):
    return simple(*args)

nested(1)
#! 6 type-error-too-few-arguments
nested()


def nested_no_call_to_function(*args):
    return simple(1, *args)


def simple2(a, b, c):
    return b
def nested(*args):
    return simple2(1, *args)
def nested_twice(*args1):
    return nested(*args1)

nested_twice(2, 3)
#! 13 type-error-too-few-arguments
nested_twice(2)
#! 19 type-error-too-many-arguments
nested_twice(2, 3, 4)


# A named argument can be located before *args.
def star_args_with_named(*args):
    return simple2(c='', *args)

star_args_with_named(1, 2)
# -----------------
# **kwargs
# -----------------


def kwargs_test(**kwargs):
    return simple2(1, **kwargs)

kwargs_test(c=3, b=2)
#! 12 type-error-too-few-arguments
kwargs_test(c=3)
#! 12 type-error-too-few-arguments
kwargs_test(b=2)
#! 22 type-error-keyword-argument
kwargs_test(b=2, c=3, d=4)
#! 12 type-error-multiple-values
kwargs_test(b=2, c=3, a=4)


def kwargs_nested(**kwargs):
    return kwargs_test(b=2, **kwargs)

kwargs_nested(c=3)
#! 13 type-error-too-few-arguments
kwargs_nested()
#! 19 type-error-keyword-argument
kwargs_nested(c=2, d=4)
#! 14 type-error-multiple-values
kwargs_nested(c=2, a=4)
# TODO reenable
##! 14 type-error-multiple-values
#kwargs_nested(b=3, c=2)

# -----------------
# mixed *args/**kwargs
# -----------------

def simple_mixed(a, b, c):
    return b

def mixed(*args, **kwargs):
    return simple_mixed(1, *args, **kwargs)

mixed(1, 2)
mixed(1, c=2)
mixed(b=2, c=3)
mixed(c=4, b='')

# need separate functions, otherwise these might swallow the errors
def mixed2(*args, **kwargs):
    return simple_mixed(1, *args, **kwargs)


#! 7 type-error-too-few-arguments
mixed2(c=2)
#! 7 type-error-too-few-arguments
mixed2(3)
#! 13 type-error-too-many-arguments
mixed2(3, 4, 5)
# TODO reenable
##! 13 type-error-too-many-arguments
#mixed2(3, 4, c=5)
#! 7 type-error-multiple-values
mixed2(3, b=5)

# -----------------
# plain wrong arguments
# -----------------

#! 12 type-error-star-star
simple(1, **[])
#! 12 type-error-star-star
simple(1, **1)
class A(): pass
#! 12 type-error-star-star
simple(1, **A())

#! 11 type-error-star
simple(1, *1)
