[a + 1 for a in [1, 2]]

#! 3 type-error-operation
[a + '' for a in [1, 2]]
#! 3 type-error-operation
(a + '' for a in [1, 2])

#! 12 type-error-not-iterable
[a for a in 1]

tuple(str(a) for a in [1])

#! 8 type-error-operation
tuple(a + 3 for a in [''])

# ----------
# Some variables within are not defined
# ----------

abcdef = []
#! 12 name-error
[1 for a in NOT_DEFINFED for b in abcdef if 1]

#! 25 name-error
[1 for a in [1] for b in NOT_DEFINED if 1]

#! 12 name-error
[1 for a in NOT_DEFINFED for b in [1] if 1]

#! 19 name-error
(1 for a in [1] if NOT_DEFINED)

# ----------
# unbalanced sides.
# ----------

# ok
(1 for a, b in [(1, 2)])
#! 13 value-error-too-few-values
(1 for a, b, c in [(1, 2)])
#! 10 value-error-too-many-values
(1 for a, b in [(1, 2, 3)])
