# -----------------
# Simple tests
# -----------------

import random

if random.choice([0, 1]):
    x = ''
else:
    x = 1
if random.choice([0, 1]):
    y = ''
else:
    y = 1

# A simple test
if x != 1:
    x.upper()
else:
    #! 2 attribute-error
    x.upper()
    pass

# This operation is wrong, because the types could be different.
#! 6 type-error-operation
z = x + y
# However, here we have correct types.
if x == y:
    z = x + y
else:
    #! 6 type-error-operation
    z = x + y


# TODO enable this one.
#x = 3
#if x != 1:
#    x.upper()

# -----------------
# With a function
# -----------------

def addition(a, b):
    if type(a) == type(b):
        # Might still be a type error, we might want to change this in the
        # future.
        #! 9 type-error-operation
        return a + b
    else:
        #! 9 type-error-operation
        return a + b

addition(1, 1)
addition(1.0, '')
