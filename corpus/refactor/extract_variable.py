# -------------------------------------------------- simple-1
def test():
    #? 35 text {'new_name': 'a'}
    return test(100, (30 + b, c) + 1)
# ++++++++++++++++++++++++++++++++++++++++++++++++++
def test():
    #? 35 text {'new_name': 'a'}
    a = (30 + b, c) + 1
    return test(100, a)
# -------------------------------------------------- simple-2
def test():
    #? 25 text {'new_name': 'a'}
    return test(100, (30 + b, c) + 1)
# ++++++++++++++++++++++++++++++++++++++++++++++++++
def test():
    #? 25 text {'new_name': 'a'}
    a = 30 + b
    return test(100, (a, c) + 1)
# -------------------------------------------------- simple-3
foo = 3.1
#? 8 text {'new_name': 'bar'}
x = int(foo + 1)
# ++++++++++++++++++++++++++++++++++++++++++++++++++
foo = 3.1
#? 8 text {'new_name': 'bar'}
bar = foo + 1
x = int(bar)
# -------------------------------------------------- simple-4
#? 13 text {'new_name': 'zzx.x'}
test(100, {1  |1: 2 + 3})
# ++++++++++++++++++++++++++++++++++++++++++++++++++
#? 13 text {'new_name': 'zzx.x'}
zzx.x = 1  |1
test(100, {zzx.x: 2 + 3})
# -------------------------------------------------- multiline-1
def test():
    #? 30 text {'new_name': 'x'}
    return test(1, (30 + b, c) 
                            + 1)
# ++++++++++++++++++++++++++++++++++++++++++++++++++
def test():
    #? 30 text {'new_name': 'x'}
    x = (30 + b, c) 
                                + 1
    return test(1, x)
# -------------------------------------------------- multiline-2
def test():
    #? 25 text {'new_name': 'x'}
    return test(1, (30 + b, c) 
                            + 1)
# ++++++++++++++++++++++++++++++++++++++++++++++++++
def test():
    #? 25 text {'new_name': 'x'}
    x = 30 + b
    return test(1, (x, c) 
                            + 1)
# -------------------------------------------------- for-param-error-1
#? 10 error {'new_name': 'x'}
def test(p1):
    return
# ++++++++++++++++++++++++++++++++++++++++++++++++++
Cannot extract a name that defines something
# -------------------------------------------------- for-param-error-2
#? 12 error {'new_name': 'x'}
def test(p1= 3):
    return
# ++++++++++++++++++++++++++++++++++++++++++++++++++
Cannot extract a "param"
# -------------------------------------------------- for-param-1
#? 12 text {'new_name': 'x'}
def test(p1=20):
    return
# ++++++++++++++++++++++++++++++++++++++++++++++++++
#? 12 text {'new_name': 'x'}
x = 20
def test(p1=x):
    return
# -------------------------------------------------- for-something
#? 12 text {'new_name': 'x'}
def test(p1=20):
    return
# ++++++++++++++++++++++++++++++++++++++++++++++++++
#? 12 text {'new_name': 'x'}
x = 20
def test(p1=x):
    return
# -------------------------------------------------- class-inheritance-1
#? 12 text {'new_name': 'x'}
class Foo(foo.Bar):
    pass
# ++++++++++++++++++++++++++++++++++++++++++++++++++
#? 12 text {'new_name': 'x'}
x = foo.Bar
class Foo(x):
    pass
# -------------------------------------------------- class-inheritance-2
#? 16 text {'new_name': 'x'}
class Foo(foo.Bar):
    pass
# ++++++++++++++++++++++++++++++++++++++++++++++++++
#? 16 text {'new_name': 'x'}
x = foo.Bar
class Foo(x):
    pass
# -------------------------------------------------- keyword-pass
#? 12 error {'new_name': 'x'}
def x(): pass
# ++++++++++++++++++++++++++++++++++++++++++++++++++
Cannot extract a "simple_stmt"
# -------------------------------------------------- keyword-continue
#? 5 error {'new_name': 'x'}
continue
# ++++++++++++++++++++++++++++++++++++++++++++++++++
Cannot extract a "simple_stmt"
# -------------------------------------------------- keyword-None
if 1:
    #? 4 text {'new_name': 'x'}
    None
# ++++++++++++++++++++++++++++++++++++++++++++++++++
if 1:
    #? 4 text {'new_name': 'x'}
    x = None
    x
# -------------------------------------------------- with-tuple
#? 4 text {'new_name': 'x'}
x +  1, 3
# ++++++++++++++++++++++++++++++++++++++++++++++++++
#? 4 text {'new_name': 'x'}
x = x +  1
x, 3
# -------------------------------------------------- range-1
#? 4 text {'new_name': 'x', 'until_column': 9}
y +  1, 3
# ++++++++++++++++++++++++++++++++++++++++++++++++++
#? 4 text {'new_name': 'x', 'until_column': 9}
x = y +  1, 3
x
# -------------------------------------------------- range-2
#? 1 text {'new_name': 'x', 'until_column': 3}
y +  1, 3
# ++++++++++++++++++++++++++++++++++++++++++++++++++
#? 1 text {'new_name': 'x', 'until_column': 3}
x = y +  1
x, 3
# -------------------------------------------------- range-3
#? 1 text {'new_name': 'x', 'until_column': 6}
y +  1, 3
# ++++++++++++++++++++++++++++++++++++++++++++++++++
#? 1 text {'new_name': 'x', 'until_column': 6}
x = y +  1
x, 3
# -------------------------------------------------- range-4
#? 1 text {'new_name': 'x', 'until_column': 1}
y +  1, 3
# ++++++++++++++++++++++++++++++++++++++++++++++++++
#? 1 text {'new_name': 'x', 'until_column': 1}
x = y
x +  1, 3
# -------------------------------------------------- addition-1
#? 4 text {'new_name': 'x', 'until_column': 9}
z = y + 1 + 2+ 3, 3
# ++++++++++++++++++++++++++++++++++++++++++++++++++
#? 4 text {'new_name': 'x', 'until_column': 9}
x = y + 1
z = x + 2+ 3, 3
# -------------------------------------------------- addition-2
#? 8 text {'new_name': 'x', 'until_column': 12}
z = y +1 + 2+ 3, 3
# ++++++++++++++++++++++++++++++++++++++++++++++++++
#? 8 text {'new_name': 'x', 'until_column': 12}
x = 1 + 2
z = y +x+ 3, 3
# -------------------------------------------------- addition-3
#? 10 text {'new_name': 'x', 'until_column': 14}
z = y + 1 + 2+ 3, 3
# ++++++++++++++++++++++++++++++++++++++++++++++++++
#? 10 text {'new_name': 'x', 'until_column': 14}
x = 1 + 2+ 3
z = y + x, 3
# -------------------------------------------------- addition-4
#? 13 text {'new_name': 'x', 'until_column': 17}
z = y + (1 + 2)+ 3, 3
# ++++++++++++++++++++++++++++++++++++++++++++++++++
#? 13 text {'new_name': 'x', 'until_column': 17}
x = (1 + 2)+ 3
z = y + x, 3
# -------------------------------------------------- mult-add-1
#? 8 text {'new_name': 'x', 'until_column': 11}
z = foo(y+1*2+3, 3)
# ++++++++++++++++++++++++++++++++++++++++++++++++++
#? 8 text {'new_name': 'x', 'until_column': 11}
x = y+1
z = foo(x*2+3, 3)
# -------------------------------------------------- mult-add-2
#? 12 text {'new_name': 'x', 'until_column': 15}
z = foo(y+1*2+3)
# ++++++++++++++++++++++++++++++++++++++++++++++++++
#? 12 text {'new_name': 'x', 'until_column': 15}
x = 2+3
z = foo(y+1*x)
# -------------------------------------------------- mult-add-3
#? 9 text {'new_name': 'x', 'until_column': 13}
z = (y+1*2+3)
# ++++++++++++++++++++++++++++++++++++++++++++++++++
#? 9 text {'new_name': 'x', 'until_column': 13}
x = (y+1*2+3)
z = x
# -------------------------------------------------- extract-weird-1
#? 0 error {'new_name': 'x', 'until_column': 7}
foo = 3
# ++++++++++++++++++++++++++++++++++++++++++++++++++
Cannot extract a "expr_stmt"
# -------------------------------------------------- extract-weird-2
#? 0 error {'new_name': 'x', 'until_column': 5}
def x():
    foo = 3
# ++++++++++++++++++++++++++++++++++++++++++++++++++
Cannot extract a "funcdef"
# -------------------------------------------------- extract-weird-3
def x():
#? 4 error {'new_name': 'x', 'until_column': 8}
    if 1:
        pass
# ++++++++++++++++++++++++++++++++++++++++++++++++++
Cannot extract a "if_stmt"
# -------------------------------------------------- extract-weird-4
#? 4 error {'new_name': 'x', 'until_column': 7}
x = foo = 4
# ++++++++++++++++++++++++++++++++++++++++++++++++++
Cannot extract a name that defines something
# -------------------------------------------------- keyword-None
#? 4 text {'new_name': 'x', 'until_column': 7}
yy = not foo or bar
# ++++++++++++++++++++++++++++++++++++++++++++++++++
#? 4 text {'new_name': 'x', 'until_column': 7}
x = not foo
yy = x or bar
# -------------------------------------------------- augassign
yy = ()
#? 6 text {'new_name': 'x', 'until_column': 10}
yy += 3, 4
# ++++++++++++++++++++++++++++++++++++++++++++++++++
yy = ()
#? 6 text {'new_name': 'x', 'until_column': 10}
x = 3, 4
yy += x
# -------------------------------------------------- if-else
#? 9 text {'new_name': 'x', 'until_column': 22}
yy = foo(a if y else b)
# ++++++++++++++++++++++++++++++++++++++++++++++++++
#? 9 text {'new_name': 'x', 'until_column': 22}
x = a if y else b
yy = foo(x)
# -------------------------------------------------- lambda
#? 8 text {'new_name': 'x', 'until_column': 17}
y = foo(lambda x: 3, 5)
# ++++++++++++++++++++++++++++++++++++++++++++++++++
#? 8 text {'new_name': 'x', 'until_column': 17}
x = lambda x: 3
y = foo(x, 5)
