"""
Test coverage for renaming is mostly being done by testing
`Script.get_references`.
"""

# -------------------------------------------------- no-name
#? 0 error {'new_name': 'blabla'}
1
# ++++++++++++++++++++++++++++++++++++++++++++++++++
There is no name under the cursor
# -------------------------------------------------- simple
def test1():
    #? 7 {'new_name': 'blabla'}
    test1()
    AssertionError
    return test1, test1.not_existing
# ++++++++++++++++++++++++++++++++++++++++++++++++++
--- rename.py
+++ rename.py
@@ -1,6 +1,6 @@
-def test1():
+def blabla():
     #? 7 {'new_name': 'blabla'}
-    test1()
+    blabla()
     AssertionError
-    return test1, test1.not_existing
+    return blabla, blabla.not_existing
# -------------------------------------------------- var-not-found
undefined_var
#? 0 {'new_name': 'lala'}
undefined_var
# ++++++++++++++++++++++++++++++++++++++++++++++++++
--- rename.py
+++ rename.py
@@ -1,4 +1,4 @@
 undefined_var
 #? 0 {'new_name': 'lala'}
-undefined_var
+lala
# -------------------------------------------------- different-scopes
def x():
    #? 7 {'new_name': 'v'}
    some_var = 3
    some_var
def y():
    some_var = 3
    some_var
# ++++++++++++++++++++++++++++++++++++++++++++++++++
--- rename.py
+++ rename.py
@@ -1,7 +1,7 @@
 def x():
     #? 7 {'new_name': 'v'}
-    some_var = 3
-    some_var
+    v = 3
+    v
 def y():
     some_var = 3
     some_var
# -------------------------------------------------- keyword-param1
#? 22 {'new_name': 'lala'}
def mykeywordparam1(param1):
    str(param1)
mykeywordparam1(1)
mykeywordparam1(param1=3)
mykeywordparam1(x, param1=2)
# ++++++++++++++++++++++++++++++++++++++++++++++++++
--- rename.py
+++ rename.py
@@ -1,7 +1,7 @@
 #? 22 {'new_name': 'lala'}
-def mykeywordparam1(param1):
-    str(param1)
+def mykeywordparam1(lala):
+    str(lala)
 mykeywordparam1(1)
-mykeywordparam1(param1=3)
-mykeywordparam1(x, param1=2)
+mykeywordparam1(lala=3)
+mykeywordparam1(x, lala=2)
# -------------------------------------------------- keyword-param2
def mykeywordparam2(param1):
    str(param1)
mykeywordparam2(1)
mykeywordparam2(param1=3)
#? 22 {'new_name': 'lala'}
mykeywordparam2(x, param1=2)
# ++++++++++++++++++++++++++++++++++++++++++++++++++
--- rename.py
+++ rename.py
@@ -1,7 +1,7 @@
-def mykeywordparam2(param1):
-    str(param1)
+def mykeywordparam2(lala):
+    str(lala)
 mykeywordparam2(1)
-mykeywordparam2(param1=3)
+mykeywordparam2(lala=3)
 #? 22 {'new_name': 'lala'}
-mykeywordparam2(x, param1=2)
+mykeywordparam2(x, lala=2)
# -------------------------------------------------- import
from import_tree.some_mod import foobar
#? 0 {'new_name': 'renamed'}
foobar
# ++++++++++++++++++++++++++++++++++++++++++++++++++
--- import_tree/some_mod.py
+++ import_tree/some_mod.py
@@ -1,2 +1,2 @@
-foobar = 3
+renamed = 3
--- rename.py
+++ rename.py
@@ -1,4 +1,4 @@
-from import_tree.some_mod import foobar
+from import_tree.some_mod import renamed
 #? 0 {'new_name': 'renamed'}
-foobar
+renamed
# -------------------------------------------------- module
from import_tree import some_mod
#? 0 {'new_name': 'renamedm'}
some_mod
# ++++++++++++++++++++++++++++++++++++++++++++++++++
rename from import_tree/some_mod.py
rename to import_tree/renamedm.py
--- rename.py
+++ rename.py
@@ -1,4 +1,4 @@
-from import_tree import some_mod
+from import_tree import renamedm
 #? 0 {'new_name': 'renamedm'}
-some_mod
+renamedm
# -------------------------------------------------- import-not-found
#? 20 {'new_name': 'lala'}
import undefined_import
haha( undefined_import)
# ++++++++++++++++++++++++++++++++++++++++++++++++++
--- rename.py
+++ rename.py
@@ -1,4 +1,4 @@
 #? 20 {'new_name': 'lala'}
-import undefined_import
-haha( undefined_import)
+import lala
+haha( lala)
# -------------------------------------------------- in-package-with-stub
#? 31 {'new_name': 'renamedm'}
from import_tree.pkgx import pkgx
# ++++++++++++++++++++++++++++++++++++++++++++++++++
--- import_tree/pkgx/__init__.py
+++ import_tree/pkgx/__init__.py
@@ -1,3 +1,3 @@
-def pkgx():
+def renamedm():
     pass
--- import_tree/pkgx/__init__.pyi
+++ import_tree/pkgx/__init__.pyi
@@ -1,2 +1,2 @@
-def pkgx() -> int: ...
+def renamedm() -> int: ...
--- import_tree/pkgx/mod.pyi
+++ import_tree/pkgx/mod.pyi
@@ -1,2 +1,2 @@
-from . import pkgx
+from . import renamedm
--- rename.py
+++ rename.py
@@ -1,3 +1,3 @@
 #? 31 {'new_name': 'renamedm'}
-from import_tree.pkgx import pkgx
+from import_tree.pkgx import renamedm
# -------------------------------------------------- package-with-stub
#? 18 {'new_name': 'renamedp'}
from import_tree.pkgx
# ++++++++++++++++++++++++++++++++++++++++++++++++++
rename from import_tree/pkgx
rename to import_tree/renamedp
--- import_tree/pkgx/mod2.py
+++ import_tree/renamedp/mod2.py
@@ -1,2 +1,2 @@
-from .. import pkgx
+from .. import renamedp
--- rename.py
+++ rename.py
@@ -1,3 +1,3 @@
 #? 18 {'new_name': 'renamedp'}
-from import_tree.pkgx
+from import_tree.renamedp
# -------------------------------------------------- weird-package-mix
if random_undefined_variable:
    from import_tree.pkgx import pkgx
else:
    from import_tree import pkgx
#? 4 {'new_name': 'rename'}
pkgx
# ++++++++++++++++++++++++++++++++++++++++++++++++++
rename from import_tree/pkgx
rename to import_tree/rename
--- import_tree/pkgx/__init__.py
+++ import_tree/rename/__init__.py
@@ -1,3 +1,3 @@
-def pkgx():
+def rename():
     pass
--- import_tree/pkgx/__init__.pyi
+++ import_tree/rename/__init__.pyi
@@ -1,2 +1,2 @@
-def pkgx() -> int: ...
+def rename() -> int: ...
--- import_tree/pkgx/mod.pyi
+++ import_tree/rename/mod.pyi
@@ -1,2 +1,2 @@
-from . import pkgx
+from . import rename
--- import_tree/pkgx/mod2.py
+++ import_tree/rename/mod2.py
@@ -1,2 +1,2 @@
-from .. import pkgx
+from .. import rename
--- rename.py
+++ rename.py
@@ -1,7 +1,7 @@
 if random_undefined_variable:
-    from import_tree.pkgx import pkgx
+    from import_tree.rename import rename
 else:
-    from import_tree import pkgx
+    from import_tree import rename
 #? 4 {'new_name': 'rename'}
-pkgx
+rename
