# -------------------------------------------------- in-module-0
global_var = 3
def x():
    foo = 3.1
    #? 11 text {'new_name': 'bar'}
    x = int(foo + 1 + global_var)
# ++++++++++++++++++++++++++++++++++++++++++++++++++
global_var = 3
def bar(foo):
    return int(foo + 1 + global_var)


def x():
    foo = 3.1
    #? 11 text {'new_name': 'bar'}
    x = bar(foo)
# -------------------------------------------------- in-module-1
glob = 3
#? 11 text {'new_name': 'a'}
test(100, (glob.a + b, c) + 1)
# ++++++++++++++++++++++++++++++++++++++++++++++++++
glob = 3
#? 11 text {'new_name': 'a'}
def a(b):
    return glob.a + b


test(100, (a(b), c) + 1)
# -------------------------------------------------- in-module-2
#? 0 text {'new_name': 'ab'}
100 + 1 * 2
# ++++++++++++++++++++++++++++++++++++++++++++++++++
#? 0 text {'new_name': 'ab'}
def ab():
    return 100 + 1 * 2


ab()
# -------------------------------------------------- in-function-1
def f(x):
#? 11 text {'new_name': 'ab'}
    return x + 1 * 2
# ++++++++++++++++++++++++++++++++++++++++++++++++++
def ab(x):
    return x + 1 * 2


def f(x):
#? 11 text {'new_name': 'ab'}
    return ab(x)
# -------------------------------------------------- in-function-with-dec
@classmethod
def f(x):
#? 11 text {'new_name': 'ab'}
    return x + 1 * 2
# ++++++++++++++++++++++++++++++++++++++++++++++++++
def ab(x):
    return x + 1 * 2


@classmethod
def f(x):
#? 11 text {'new_name': 'ab'}
    return ab(x)
# -------------------------------------------------- in-method-1
class X:
    def z(self): pass

    def f(x, b):
        #? 11 text {'new_name': 'ab'}
        return x + b * 2
# ++++++++++++++++++++++++++++++++++++++++++++++++++
class X:
    def z(self): pass

    def ab(x, b):
        return x + b * 2

    def f(x, b):
        #? 11 text {'new_name': 'ab'}
        return x.ab(b)
# -------------------------------------------------- in-method-2
glob1 = 1
class X:
    def g(self): pass

    def f(self, b, c):
        #? 11 text {'new_name': 'ab'}
        return self.g() or self.f(b) ^ glob1 & b
# ++++++++++++++++++++++++++++++++++++++++++++++++++
glob1 = 1
class X:
    def g(self): pass

    def ab(self, b):
        return self.g() or self.f(b) ^ glob1 & b

    def f(self, b, c):
        #? 11 text {'new_name': 'ab'}
        return self.ab(b)
# -------------------------------------------------- in-method-order
class X:
    def f(self, b, c):
        #? 18 text {'new_name': 'b'}
        return b | self.a
# ++++++++++++++++++++++++++++++++++++++++++++++++++
class X:
    def b(self, b):
        return b | self.a

    def f(self, b, c):
        #? 18 text {'new_name': 'b'}
        return self.b(b)
# -------------------------------------------------- in-classmethod-1
class X:
    @classmethod
    def f(x):
        #? 16 text {'new_name': 'ab'}
        return 25
# ++++++++++++++++++++++++++++++++++++++++++++++++++
class X:
    @classmethod
    def ab(x):
        return 25

    @classmethod
    def f(x):
        #? 16 text {'new_name': 'ab'}
        return x.ab()
# -------------------------------------------------- in-staticmethod-1
class X(int):
    @staticmethod
    def f(x):
        #? 16 text {'new_name': 'ab'}
        return 25 | 3
# ++++++++++++++++++++++++++++++++++++++++++++++++++
def ab():
    return 25 | 3

class X(int):
    @staticmethod
    def f(x):
        #? 16 text {'new_name': 'ab'}
        return ab()
# -------------------------------------------------- in-class-1
class Ya():
    a = 3
    #? 11 text {'new_name': 'f'}
    c = a + 2
# ++++++++++++++++++++++++++++++++++++++++++++++++++
def f(a):
    return a + 2


class Ya():
    a = 3
    #? 11 text {'new_name': 'f'}
    c = f(a)
# -------------------------------------------------- in-closure
def x(z):
    def y(x):
        #? 15 text {'new_name': 'f'}
        return -x * z
# ++++++++++++++++++++++++++++++++++++++++++++++++++
def f(x, z):
    return -x * z


def x(z):
    def y(x):
        #? 15 text {'new_name': 'f'}
        return f(x, z)
# -------------------------------------------------- with-range-1
#? 0 text {'new_name': 'a', 'until_line': 4}
v1 = 3
v2 = 2
x = test(v1 + v2 * v3)
# ++++++++++++++++++++++++++++++++++++++++++++++++++
#? 0 text {'new_name': 'a', 'until_line': 4}
def a(test, v3):
    v1 = 3
    v2 = 2
    x = test(v1 + v2 * v3)
    return x


x = a(test, v3)
# -------------------------------------------------- with-range-2
#? 2 text {'new_name': 'a', 'until_line': 6, 'until_column': 4}
#foo
v1 = 3
v2 = 2
x, y = test(v1 + v2 * v3)
#raaaa
y
# ++++++++++++++++++++++++++++++++++++++++++++++++++
#? 2 text {'new_name': 'a', 'until_line': 6, 'until_column': 4}
def a(test, v3):
    #foo
    v1 = 3
    v2 = 2
    x, y = test(v1 + v2 * v3)
    #raaaa
    return y


y = a(test, v3)
y
# -------------------------------------------------- with-range-3
#foo
#? 2 text {'new_name': 'a', 'until_line': 5, 'until_column': 4}
v1 = 3
v2 = 2
x, y = test(v1 + v2 * v3)
#raaaa
y
# ++++++++++++++++++++++++++++++++++++++++++++++++++
#foo
#? 2 text {'new_name': 'a', 'until_line': 5, 'until_column': 4}
def a(test, v3):
    v1 = 3
    v2 = 2
    x, y = test(v1 + v2 * v3)
    return y


y = a(test, v3)
#raaaa
y
# -------------------------------------------------- with-range-func-1
import os
# comment1
@dec
# comment2
def x(v1):
    #foo
    #? 2 text {'new_name': 'a', 'until_line': 9, 'until_column': 5}
    v2 = 2
    if 1:
        x, y = os.listdir(v1 + v2 * v3)
    #bar
    return x, y
# ++++++++++++++++++++++++++++++++++++++++++++++++++
import os
# comment1
def a(v1, v3):
    v2 = 2
    if 1:
        x, y = os.listdir(v1 + v2 * v3)
    return x, y


@dec
# comment2
def x(v1):
    #foo
    #? 2 text {'new_name': 'a', 'until_line': 9, 'until_column': 5}
    x, y = a(v1, v3)
    #bar
    return x, y
# -------------------------------------------------- with-range-func-2
import os
# comment1
# comment2
def x(v1):
    #? 2 text {'new_name': 'a', 'until_line': 10, 'until_column': 0}
    #foo
    v2 = 2
    if 1:
        x, y = os.listdir(v1 + v2 * v3)
    #bar
    return y
x
# ++++++++++++++++++++++++++++++++++++++++++++++++++
import os
# comment1
# comment2
def a(v1, v3):
    #foo
    v2 = 2
    if 1:
        x, y = os.listdir(v1 + v2 * v3)
    #bar
    return y


def x(v1):
    #? 2 text {'new_name': 'a', 'until_line': 10, 'until_column': 0}
    y = a(v1, v3)
    return y
x
# -------------------------------------------------- with-range-func-3
def x(v1):
    #? 2 text {'new_name': 'func', 'until_line': 6, 'until_column': 4}
    #foo
    v2 = 2
    x = v1 * 2
    y = 3
    #bar
    return x
x
# ++++++++++++++++++++++++++++++++++++++++++++++++++
def func(v1):
    #foo
    v2 = 2
    x = v1 * 2
    return x


def x(v1):
    #? 2 text {'new_name': 'func', 'until_line': 6, 'until_column': 4}
    x = func(v1)
    y = 3
    #bar
    return x
x
# -------------------------------------------------- in-class-range-1
class X1:
    #? 9 text {'new_name': 'f', 'until_line': 4}
    a = 3
    c = a + 2
# ++++++++++++++++++++++++++++++++++++++++++++++++++
def f():
    a = 3
    c = a + 2
    return c


class X1:
    #? 9 text {'new_name': 'f', 'until_line': 4}
    c = f()
# -------------------------------------------------- in-method-range-1
glob1 = 1
class X:
    # ha
    def g(self): pass

    # haha
    def f(self, b, c):
        #? 11 text {'new_name': 'ab', 'until_line': 12, 'until_column': 28}
        #foo
        local1 = 3
        local2 = 4
        x= self.g() or self.f(b) ^ glob1 & b is local1
        # bar
# ++++++++++++++++++++++++++++++++++++++++++++++++++
glob1 = 1
class X:
    # ha
    def g(self): pass

    # haha
    def ab(self, b):
        #foo
        local1 = 3
        local2 = 4
        x= self.g() or self.f(b) ^ glob1 & b is local1
        return x

    def f(self, b, c):
        #? 11 text {'new_name': 'ab', 'until_line': 12, 'until_column': 28}
        x = self.ab(b)
        # bar
# -------------------------------------------------- in-method-range-2
glob1 = 1
class X:
    # comment

    def f(self, b, c):
        #? 11 text {'new_name': 'ab', 'until_line': 11, 'until_column': 10}
        #foo
        local1 = 3
        local2 = 4
        return local1 * glob1 * b
        # bar
# ++++++++++++++++++++++++++++++++++++++++++++++++++
glob1 = 1
class X:
    # comment

    def ab(self, b):
        #foo
        local1 = 3
        local2 = 4
        return local1 * glob1 * b
        # bar

    def f(self, b, c):
        #? 11 text {'new_name': 'ab', 'until_line': 11, 'until_column': 10}
        return self.ab(b)
# -------------------------------------------------- in-method-range-3
glob1 = 1
class X:
    def f(self, b, c):
        local1, local2 = 3, 4
        #foo
        #? 11 text {'new_name': 'ab', 'until_line': 7, 'until_column': 29}
        return local1 & glob1 & b
        # bar
    local2
# ++++++++++++++++++++++++++++++++++++++++++++++++++
glob1 = 1
class X:
    def ab(self, local1, b):
        return local1 & glob1 & b

    def f(self, b, c):
        local1, local2 = 3, 4
        #foo
        #? 11 text {'new_name': 'ab', 'until_line': 7, 'until_column': 29}
        return self.ab(local1, b)
        # bar
    local2
# -------------------------------------------------- in-method-no-param
glob1 = 1
class X:
    def f():
        #? 11 text {'new_name': 'ab', 'until_line': 5, 'until_column': 22}
        return glob1 + 2
# ++++++++++++++++++++++++++++++++++++++++++++++++++
glob1 = 1
class X:
    def ab():
        return glob1 + 2

    def f():
        #? 11 text {'new_name': 'ab', 'until_line': 5, 'until_column': 22}
        return ab()
# -------------------------------------------------- random-return-1
def x():
    #? 0 error {'new_name': 'ab', 'until_line': 5, 'until_column': 10}
    if x:
        return 1
    return 1
# ++++++++++++++++++++++++++++++++++++++++++++++++++
Can only extract return statements if they are at the end.
# -------------------------------------------------- random-return-2
def x():
    #? 0 error {'new_name': 'ab', 'until_line': 5, 'until_column': 10}
    #
    return
    pass
# ++++++++++++++++++++++++++++++++++++++++++++++++++
Can only extract return statements if they are at the end.
# -------------------------------------------------- random-yield-1
def x():
    #? 0 error {'new_name': 'ab', 'until_line': 5, 'until_column': 10}
    #
    if (yield 1):
        return
    pass
# ++++++++++++++++++++++++++++++++++++++++++++++++++
Cannot extract yield statements.
# -------------------------------------------------- random-yield-2
def x():
    #? 0 error {'new_name': 'ab', 'until_line': 4, 'until_column': 10}
    #
    try:
        yield
    finally:
        pass
# ++++++++++++++++++++++++++++++++++++++++++++++++++
Cannot extract yield statements.
