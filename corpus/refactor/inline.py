# -------------------------------------------------- no-name-error
#? 0 error
1
# ++++++++++++++++++++++++++++++++++++++++++++++++++
There is no name under the cursor
# -------------------------------------------------- no-reference-error
#? 0 error
a = 1
# ++++++++++++++++++++++++++++++++++++++++++++++++++
There are no references to this name
# -------------------------------------------------- multi-equal-error
def test():
    #? 4 error
    a = b = 3
    return test(100, a)
# ++++++++++++++++++++++++++++++++++++++++++++++++++
Cannot inline a statement with multiple definitions
# -------------------------------------------------- no-definition-error
#? 5 error
test(a)
# ++++++++++++++++++++++++++++++++++++++++++++++++++
No definition found to inline
# -------------------------------------------------- multi-names-error
#? 0 error
a, b[1] = 3
test(a)
# ++++++++++++++++++++++++++++++++++++++++++++++++++
Cannot inline a statement with multiple definitions
# -------------------------------------------------- addition-error
#? 0 error
a = 2
a += 3
test(a)
# ++++++++++++++++++++++++++++++++++++++++++++++++++
Cannot inline a name with multiple definitions
# -------------------------------------------------- only-addition-error
#? 0 error
a += 3
test(a)
# ++++++++++++++++++++++++++++++++++++++++++++++++++
Cannot inline a statement with "+="
# -------------------------------------------------- with-annotation
foobarb: int = 1
#? 5
test(foobarb)
# ++++++++++++++++++++++++++++++++++++++++++++++++++
--- inline.py
+++ inline.py
@@ -1,4 +1,3 @@
-foobarb: int = 1
 #? 5
-test(foobarb)
+test(1)
# -------------------------------------------------- only-annotation-error
a: int
#? 5 error
test(a)
# ++++++++++++++++++++++++++++++++++++++++++++++++++
Cannot inline a statement that is defined by an annotation
# -------------------------------------------------- builtin
import math
#? 7 error
math.cos
# ++++++++++++++++++++++++++++++++++++++++++++++++++
Cannot inline builtins/extensions
# -------------------------------------------------- module-error
from import_tree import inline_mod
#? 11 error
test(inline_mod)
# ++++++++++++++++++++++++++++++++++++++++++++++++++
Cannot inline imports, modules or namespaces
# -------------------------------------------------- module-works
from import_tree import inline_mod
#? 22
test(x, inline_mod.  inline_var.conjugate)
# ++++++++++++++++++++++++++++++++++++++++++++++++++
--- import_tree/inline_mod.py
+++ import_tree/inline_mod.py
@@ -1,2 +1 @@
-inline_var = 5 + 3
--- inline.py
+++ inline.py
@@ -1,4 +1,4 @@
 from import_tree import inline_mod
 #? 22
-test(x, inline_mod.  inline_var.conjugate)
+test(x, (5 + 3).conjugate)
# -------------------------------------------------- class
class A: pass
#? 5 error
test(A)
# ++++++++++++++++++++++++++++++++++++++++++++++++++
Cannot inline a class
# -------------------------------------------------- function
def foo(a):
    return a + 1
#? 5 error
test(foo(1))
# ++++++++++++++++++++++++++++++++++++++++++++++++++
Cannot inline a function
# -------------------------------------------------- for-stmt
for x in []:
    #? 9 error
    test(x)
# ++++++++++++++++++++++++++++++++++++++++++++++++++
Cannot inline a for_stmt
# -------------------------------------------------- simple
def test():
    #? 4
    a = (30 + b, c) + 1
    return test(100, a)
# ++++++++++++++++++++++++++++++++++++++++++++++++++
--- inline.py
+++ inline.py
@@ -1,5 +1,4 @@
 def test():
     #? 4
-    a = (30 + b, c) + 1
-    return test(100, a)
+    return test(100, (30 + b, c) + 1)
# -------------------------------------------------- tuple
if 1:
    #? 4
    a = 1, 2
    return test(100, a)
# ++++++++++++++++++++++++++++++++++++++++++++++++++
--- inline.py
+++ inline.py
@@ -1,5 +1,4 @@
 if 1:
     #? 4
-    a = 1, 2
-    return test(100, a)
+    return test(100, (1, 2))
# -------------------------------------------------- multiplication-add-parens1
a = 1+2
#? 11
test(100 * a)
# ++++++++++++++++++++++++++++++++++++++++++++++++++
--- inline.py
+++ inline.py
@@ -1,4 +1,3 @@
-a = 1+2
 #? 11
-test(100 * a)
+test(100 * (1+2))
# -------------------------------------------------- multiplication-add-parens2
a = 1+2
#? 11
(x, 100 * a)
# ++++++++++++++++++++++++++++++++++++++++++++++++++
--- inline.py
+++ inline.py
@@ -1,4 +1,3 @@
-a = 1+2
 #? 11
-(x, 100 * a)
+(x, 100 * (1+2))
# -------------------------------------------------- multiplication-add-parens3
x
a = 1+2
#? 9
(100 ** a)
# ++++++++++++++++++++++++++++++++++++++++++++++++++
--- inline.py
+++ inline.py
@@ -1,5 +1,4 @@
 x
-a = 1+2
 #? 9
-(100 ** a)
+(100 ** (1+2))
# -------------------------------------------------- no-add-parens1
x
a = 1+2
#? 5
test(a)
# ++++++++++++++++++++++++++++++++++++++++++++++++++
--- inline.py
+++ inline.py
@@ -1,5 +1,4 @@
 x
-a = 1+2
 #? 5
-test(a)
+test(1+2)
# -------------------------------------------------- no-add-parens2
a = 1+2
#? 9
test(3, a)
# ++++++++++++++++++++++++++++++++++++++++++++++++++
--- inline.py
+++ inline.py
@@ -1,4 +1,3 @@
-a = 1+2
 #? 9
-test(3, a)
+test(3, 1+2)
# -------------------------------------------------- no-add-parens3
a = 1|2
#? 5
(3, a)
# ++++++++++++++++++++++++++++++++++++++++++++++++++
--- inline.py
+++ inline.py
@@ -1,4 +1,3 @@
-a = 1|2
 #? 5
-(3, a)
+(3, 1|2)
# -------------------------------------------------- comment
a = 1 and 2 # foo
#? 9
(3, 3 * a)
# ++++++++++++++++++++++++++++++++++++++++++++++++++
--- inline.py
+++ inline.py
@@ -1,4 +1,4 @@
-a = 1 and 2 # foo
+ # foo
 #? 9
-(3, 3 * a)
+(3, 3 * (1 and 2))
# -------------------------------------------------- semicolon
a = 1, 2	; b = 3
#? 9
(3, 3 == a)
# ++++++++++++++++++++++++++++++++++++++++++++++++++
--- inline.py
+++ inline.py
@@ -1,4 +1,4 @@
-a = 1, 2	; b = 3
+ b = 3
 #? 9
-(3, 3 == a)
+(3, 3 == (1, 2))
# -------------------------------------------------- no-tree-name
a = 1 + 2 
#? 0
a.conjugate
# ++++++++++++++++++++++++++++++++++++++++++++++++++
--- inline.py
+++ inline.py
@@ -1,4 +1,3 @@
-a = 1 + 2 
 #? 0
-a.conjugate
+(1 + 2).conjugate
