"""
Test Jedi's operation understanding. Jedi should understand simple additions,
multiplications, etc.
"""
# -----------------
# numbers
# -----------------
x = [1, 'a', 1.0]

#? int() str() float()
x[12]

#? float()
x[1 + 1]

index = 0 + 1

#? str()
x[index]

#? int()
x[1 + (-1)]

def calculate(number):
    return number + constant

constant = 1

#? float()
x[calculate(1)]

def calculate(number):
    return number + constant

# -----------------
# strings
# -----------------

x = 'upp' + 'e'

#? str.upper
getattr(str, x + 'r')

a = "a"*3
#? str()
a
a = 3 * "a"
#? str()
a

a = 3 * "a"
#? str()
a

#? int()
(3 ** 3)
#? int() float()
(3 ** 'a')
#? int()
(3 + 'a')
#? bool()
(3 == 'a')
#? bool()
(3 >= 'a')

class X():
    foo = 2
#? int()
(X.foo ** 3)

# -----------------
# assignments
# -----------------

x = [1, 'a', 1.0]

i = 0
i += 1
i += 1
#? float()
x[i]

i = 1
i += 1
i -= 3
i += 1
#? int()
x[i]

# -----------------
# in
# -----------------

if 'X' in 'Y':
    a = 3
else:
    a = ''
# For now don't really check for truth values. So in should return both
# results.
#? str() int()
a

if 'X' not in 'Y':
    b = 3
else:
    b = ''
# For now don't really check for truth values. So in should return both
# results.
#? str() int()
b

# -----------------
# for flow assignments
# -----------------

class FooBar(object):
    fuu = 0.1
    raboof = 'fourtytwo'

# targets should be working
target = ''
for char in ['f', 'u', 'u']:
    target += char
#? float()
getattr(FooBar, target)

# github #24
target = u''
for char in reversed(['f', 'o', 'o', 'b', 'a', 'r']):
    target += char

#? str()
getattr(FooBar, target)


# -----------------
# repetition problems -> could be very slow and memory expensive - shouldn't
# be.
# -----------------

b = [str(1)]
l = list
for x in [l(0), l(1), l(2), l(3), l(4), l(5), l(6), l(7), l(8), l(9), l(10),
          l(11), l(12), l(13), l(14), l(15), l(16), l(17), l(18), l(19), l(20),
          l(21), l(22), l(23), l(24), l(25), l(26), l(27), l(28), l(29)]:
    b += x

#? str()
b[1]


# -----------------
# undefined names
# -----------------
a = foobarbaz + 'hello'

#? int() float()
{'hello': 1, 'bar': 1.0}[a]

# -----------------
# stubs
# -----------------

from datetime import datetime, timedelta

#?
(datetime - timedelta)
#? datetime()
(datetime() - timedelta())
#? timedelta() datetime()
(datetime() - datetime())
#? timedelta()
(timedelta() - datetime())
#? timedelta()
(timedelta() - timedelta())

# -----------------
# magic methods
# -----------------

class C:
    def __sub__(self, other) -> int: ...
    def __radd__(self, other) -> float: ...

#? int()
(C() - object())
#? C() object()
(object() - C())
#? C() object()
(C() + object())
#? float()
(object() + C())
