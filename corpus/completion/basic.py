# -----------------
# cursor position
# -----------------
#? 0 int
int()
#? 3 int
int()
#? 4 str
int(str)


# -----------------
# should not complete
# -----------------
#? []
.
#? []
str..
#? []
a(0):.
#? 2 []
0x0
#? []
1j
#? ['and', 'or', 'if', 'is', 'in', 'not']
1j 
x = None()
#?
x

# -----------------
# if/else/elif
# -----------------

if (random.choice([0, 1])):
    1
elif(random.choice([0, 1])):
    a = 3
else:
    a = ''
#? int() str()
a
def func():
    if random.choice([0, 1]):
        1
    elif(random.choice([0, 1])):
        a = 3
    else:
        a = ''
    #? int() str()
    return a
#? int() str()
func()

# -----------------
# keywords
# -----------------

#? list()
assert []

def focus_return():
    #? list()
    return []


# -----------------
# for loops
# -----------------

for a in [1,2]:
    #? int()
    a

for a1 in 1,"":
    #? int() str()
    a1

for a3, b3 in (1,""), (1,""), (1,""):
    #? int()
    a3
    #? str()
    b3
for (a3, b3) in (1,""), (1,""), (1,""):
    #? int()
    a3
    #? str()
    b3

for a4, (b4, c4) in (1,("", list)), (1,("", list)):
    #? int()
    a4
    #? str()
    b4
    #? list
    c4

a = []
for i in [1,'']:
    #? int() str()
    i
    a += [i]

#? int() str()
a[0]

for i in list([1,'']):
    #? int() str()
    i

#? int() str()
for x in [1,'']: x

a = []
b = [1.0,'']
for i in b:
    a += [i]

#? float() str()
a[0]

for i in [1,2,3]:
    #? int()
    i
else:
    i


# -----------------
# range()
# -----------------
for i in range(10):
    #? int()
    i

# -----------------
# ternary operator
# -----------------

a = 3
b = '' if a else set()
#? str() set()
b

def ret(a):
    return ['' if a else set()]

#? str() set()
ret(1)[0]
#? str() set()
ret()[0]

# -----------------
# global vars
# -----------------

def global_define():
    #? int()
    global global_var_in_func
    global_var_in_func = 3

#? int()
global_var_in_func

#? ['global_var_in_func']
global_var_in_f


def funct1():
    # From issue #610
    global global_dict_var
    global_dict_var = dict()
def funct2():
    #! ['global_dict_var', 'global_dict_var']
    global global_dict_var
    #? dict()
    global_dict_var


global_var_predefined = None

def init_global_var_predefined():
    global global_var_predefined
    if global_var_predefined is None:
        global_var_predefined = 3

#? int() None
global_var_predefined


def global_as_import():
    from import_tree import globals
    #? ['foo']
    globals.foo
    #? int()
    globals.foo


global r
r = r[r]
if r:
    r += r + 2
    #? int()
    r

# -----------------
# del
# -----------------

deleted_var = 3
del deleted_var
#?
deleted_var
#? []
deleted_var
#! []
deleted_var

# -----------------
# within docstrs
# -----------------

def a():
    """
    #? []
    global_define
    #?
    str
    """
    pass

#?
# str literals in comment """ upper

# python >= 3.11
def completion_in_comment():
    #? ['Exception', 'ExceptionGroup']
    # might fail because the comment is not a leaf: Exception
    pass

some_word
#? ['Exception', 'ExceptionGroup']
# Very simple comment completion: Exception
# Commment after it

# -----------------
# magic methods
# -----------------

class A(object): pass
class B(): pass

#? ['__init__']
A.__init__
#? ['__init__']
B.__init__

#? ['__init__']
int().__init__

# -----------------
# comments
# -----------------

class A():
    def __init__(self):
        self.hello = {}  # comment shouldn't be a string
#? dict()
A().hello

# -----------------
# unicode
# -----------------
a = 'smörbröd'
#? str()
a
xyz = 'smörbröd.py'
if 1:
    #? str()
    xyz

#?
¹.

# -----------------
# exceptions
# -----------------
try:
    import math
except ImportError as i_a:
    #? ['i_a']
    i_a
    #? ImportError()
    i_a


class MyException(Exception):
    def __init__(self, my_attr):
        self.my_attr = my_attr

try:
    raise MyException(1)
except MyException as e:
    #? ['my_attr']
    e.my_attr
    #? 22 ['my_attr']
    for x in e.my_attr:
        pass

# -----------------
# params
# -----------------

my_param = 1
#? 9 str()
def foo1(my_param):
    my_param = 3.0
foo1("")

my_type = float()
#? 20 float()
def foo2(my_param: my_type):
    pass
foo2("")
#? 20 int()
def foo3(my_param=my_param):
    pass
foo3("")

some_default = ''
#? []
def foo(my_t
#? []
def foo(my_t, my_ty
#? ['some_default']
def foo(my_t=some_defa
#? ['some_default']
def foo(my_t=some_defa, my_t2=some_defa

#? ['my_type']
def foo(my_t: lala=some_defa, my_t2: my_typ
#? ['my_type']
def foo(my_t: lala=some_defa, my_t2: my_typ
#? []
def foo(my_t: lala=some_defa, my_t

#? []
lambda my_t
#? []
lambda my_, my_t
#? ['some_default']
lambda x=some_defa
#? ['some_default']
lambda y, x=some_defa

# Just make sure we're not in some weird parsing recovery after opening brackets
def  

# -----------------
# continuations
# -----------------

foo = \
1
#? int()
foo

# -----------------
# module attributes
# -----------------

# Don't move this to imports.py, because there's a star import.
#? str()
__file__
#? ['__file__']
__file__

#? str()
math.__file__
# Should not lead to errors
#?
math()

# -----------------
# with statements
# -----------------

with open('') as f:
    #? ['closed']
    f.closed
    for line in f:
        # TODO this is wrong
        #? bytes()
        line

with open('') as f1, open('') as f2:
    #? ['closed']
    f1.closed
    #? ['closed']
    f2.closed


class Foo():
    def __enter__(self):
        return ''

#? 14 str()
with Foo() as f3:
    #? str()
    f3
#! 14 ['with Foo() as f3: f3']
with Foo() as f3:
    f3
#? 6 Foo
with Foo() as f3:
    f3

with open("a"), open("b") as bfile:
    #? ['flush']
   bfile.flush

# -----------------
# Avoiding multiple definitions
# -----------------

some_array = ['', '']
#! ['def upper']
some_array[some_not_defined_index].upper

# -----------------
# operator
# -----------------

#? bool()
res = 'f' in 'foo'; res

#? bool()
res = not {}; res
