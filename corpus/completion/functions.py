def x():
    return

#? None
x()

def array(first_param):
    #? ['first_param']
    first_param
    return list()

#? []
array.first_param
#? []
array.first_param.
func = array
#? []
func.first_param

#? list()
array()

#? ['array']
arr


def inputs(param):
    return param

#? list
inputs(list)

def variable_middle():
    var = 3
    return var

#? int()
variable_middle()

def variable_rename(param):
    var = param
    return var

#? int()
variable_rename(1)

def multi_line_func(a, # comment blabla

                    b):
    return b

#? str()
multi_line_func(1,'')

def multi_line_call(b):
    return b


multi_line_call(
#? int()
  b=1)


# nothing after comma
def asdf(a):
    return a

x = asdf(a=1,
    )
#? int()
x

# -----------------
# double execution
# -----------------
def double_exe(param):
    return param

#? str()
variable_rename(double_exe)("")

# -> shouldn't work (and throw no error)
#? []
variable_rename(list())().
#? []
variable_rename(1)().

# -----------------
# recursions (should ignore)
# -----------------
def recursion(a, b):
    if a:
        return b
    else:
        return recursion(a+".", b+1)

# Does not also return int anymore, because we now support operators in simple cases.
#? float()
recursion("a", 1.0)

def other(a):
    return recursion2(a)

def recursion2(a):
    if random.choice([0, 1]):
        return other(a)
    else:
        if random.choice([0, 1]):
            return recursion2("")
        else:
            return a

#? int() str()
recursion2(1)

# -----------------
# ordering
# -----------------

def a():
    #? int()
    b()
    return b()

def b():
    return 1

#? int()
a()

# -----------------
# keyword arguments
# -----------------

def func(a=1, b=''):
    return a, b

exe = func(b=list, a=tuple)
#? tuple
exe[0]

#? list
exe[1]

# -----------------
# default arguments
# -----------------

#? int()
func()[0]
#? str()
func()[1]
#? float()
func(1.0)[0]
#? str()
func(1.0)[1]


#? float()
func(a=1.0)[0]
#? str()
func(a=1.0)[1]
#? int()
func(b=1.0)[0]
#? float()
func(b=1.0)[1]
#? list
func(a=list, b=set)[0]
#? set
func(a=list, b=set)[1]


def func_default(a, b=1):
    return a, b


def nested_default(**kwargs):
    return func_default(**kwargs)

#? float()
nested_default(a=1.0)[0]
#? int()
nested_default(a=1.0)[1]
#? str()
nested_default(a=1.0, b='')[1]

# Defaults should only work if they are defined before - not after.
def default_function(a=default):
    #?
    return a

#?
default_function()

default = int()

def default_function(a=default):
    #? int()
    return a

#? int()
default_function()

def default(a=default):
    #? int()
    a

# -----------------
# closures
# -----------------
def a():
    l = 3
    def func_b():
        l = ''
        #? str()
        l
    #? ['func_b']
    func_b
    #? int()
    l

# -----------------
# *args
# -----------------

def args_func(*args):
    #? tuple()
    return args

exe = args_func(1, "")
#? int()
exe[0]
#? str()
exe[1]

# illegal args (TypeError)
#?
args_func(*1)[0]
# iterator
#? int()
args_func(*iter([1]))[0]

# different types
e = args_func(*[1 if UNDEFINED else "", {}])
#? int() str()
e[0]
#? dict()
e[1]

_list = [1,""]
exe2 = args_func(_list)[0]

#? str()
exe2[1]

exe3 = args_func([1,""])[0]

#? str()
exe3[1]

def args_func(arg1, *args):
    return arg1, args

exe = args_func(1, "", list)
#? int()
exe[0]
#? tuple()
exe[1]
#? list
exe[1][1]


# In a dynamic search, both inputs should be given.
def simple(a):
    #? int() str()
    return a
def xargs(*args):
    return simple(*args)

xargs(1)
xargs('')


# *args without a self symbol
def memoize(func):
    def wrapper(*args, **kwargs):
        return func(*args, **kwargs)
    return wrapper


class Something():
    @memoize
    def x(self, a, b=1):
        return a

#? int()
Something().x(1)


# -----------------
# ** kwargs
# -----------------
def kwargs_func(**kwargs):
    #? ['keys']
    kwargs.keys
    #? dict()
    return kwargs

exe = kwargs_func(a=3,b=4.0)
#? dict()
exe
#? int()
exe['a']
#? float()
exe['b']
#? int() float()
exe['c']

a = 'a'
exe2 = kwargs_func(**{a:3,
                      'b':4.0})

#? int()
exe2['a']
#? float()
exe2['b']
#? int() float()
exe2['c']

exe3 = kwargs_func(**{k: v for k, v in [(a, 3), ('b', 4.0)]})

# Should resolve to the same as 2 but jedi is not smart enough yet
# Here to make sure it doesn't result in crash though
#? 
exe3['a']

#? 
exe3['b']

#? 
exe3['c']

# -----------------
# *args / ** kwargs
# -----------------

def func_without_call(*args, **kwargs):
    #? tuple()
    args
    #? dict()
    kwargs

def fu(a=1, b="", *args, **kwargs):
    return a, b, args, kwargs

exe = fu(list, 1, "", c=set, d="")

#? list
exe[0]
#? int()
exe[1]
#? tuple()
exe[2]
#? str()
exe[2][0]
#? dict()
exe[3]
#? set
exe[3]['c']


def kwargs_iteration(**kwargs):
    return kwargs

for x in kwargs_iteration(d=3):
    #? float()
    {'d': 1.0, 'c': '1'}[x]


# -----------------
# nested *args
# -----------------
def function_args(a, b, c):
    return b

def nested_args(*args):
    return function_args(*args)

def nested_args2(*args, **kwargs):
    return nested_args(*args)

#? int()
nested_args('', 1, 1.0, list)
#? []
nested_args('').

#? int()
nested_args2('', 1, 1.0)
#? []
nested_args2('').

# -----------------
# nested **kwargs
# -----------------
def nested_kw(**kwargs1):
    return function_args(**kwargs1)

def nested_kw2(**kwargs2):
    return nested_kw(**kwargs2)

# invalid command, doesn't need to return anything
#? 
nested_kw(b=1, c=1.0, list)
#? int()
nested_kw(b=1)
# invalid command, doesn't need to return anything
#?  
nested_kw(d=1.0, b=1, list)
#? int()
nested_kw(a=3.0, b=1)
#? int()
nested_kw(b=1, a=r"")
#? []
nested_kw(1, '').
#? []
nested_kw(a='').

#? int()
nested_kw2(b=1)
#? int()
nested_kw2(b=1, c=1.0)
#? int()
nested_kw2(c=1.0, b=1)
#? []
nested_kw2('').
#? []
nested_kw2(a='').
#? []
nested_kw2('', b=1).

# -----------------
# nested *args/**kwargs
# -----------------
def nested_both(*args, **kwargs):
    return function_args(*args, **kwargs)

def nested_both2(*args, **kwargs):
    return nested_both(*args, **kwargs)

# invalid commands, may return whatever.
#? list
nested_both('', b=1, c=1.0, list)
#? list
nested_both('', c=1.0, b=1, list)

#? []
nested_both('').

#? int()
nested_both2('', b=1, c=1.0)
#? int()
nested_both2('', c=1.0, b=1)
#? []
nested_both2('').

# -----------------
# nested *args/**kwargs with a default arg
# -----------------
def function_def(a, b, c):
    return a, b

def nested_def(a, *args, **kwargs):
    return function_def(a, *args, **kwargs)

def nested_def2(*args, **kwargs):
    return nested_def(*args, **kwargs)

#? str()
nested_def2('', 1, 1.0)[0]
#? str()
nested_def2('', b=1, c=1.0)[0]
#? str()
nested_def2('', c=1.0, b=1)[0]
#? int()
nested_def2('', 1, 1.0)[1]
#? int()
nested_def2('', b=1, c=1.0)[1]
#? int()
nested_def2('', c=1.0, b=1)[1]
#? []
nested_def2('')[1].

# -----------------
# magic methods
# -----------------
def a(): pass
#? ['__closure__']
a.__closure__
