# -----------------
# own structure
# -----------------

# do separate scopes
def scope_basic():
    from import_tree import mod1

    #? int()
    mod1.a

    #? []
    import_tree.a

    #? []
    import_tree.mod1

    import import_tree
    #? str()
    import_tree.a


def scope_pkg():
    import import_tree.mod1

    #? str()
    import_tree.a

    #? ['mod1']
    import_tree.mod1

    #? int()
    import_tree.mod1.a

def scope_nested():
    import import_tree.pkg.mod1

    #? str()
    import_tree.a

    #? list
    import_tree.pkg.a

    #? ['sqrt']
    import_tree.pkg.sqrt

    #? ['pkg']
    import_tree.p

    #? float()
    import_tree.pkg.mod1.a
    #? ['a', 'foobar', '__name__', '__package__', '__file__', '__doc__']
    a = import_tree.pkg.mod1.

    import import_tree.random
    #? set
    import_tree.random.a

def scope_nested2():
    """Multiple modules should be indexable, if imported"""
    import import_tree.mod1
    import import_tree.pkg
    #? ['mod1']
    import_tree.mod1
    #? ['pkg']
    import_tree.pkg

    # With the latest changes this completion also works, because submodules
    # are always included (some nested import structures lead to this,
    # typically).
    #? ['rename1']
    import_tree.rename1

def scope_from_import_variable():
    """
    All of them shouldn't work, because "fake" imports don't work in python
    without the use of ``sys.modules`` modifications (e.g. ``os.path`` see also
    github issue #213 for clarification.
    """
    a = 3
    #? 
    from import_tree.mod2.fake import a
    #? 
    from import_tree.mod2.fake import c

    #? 
    a
    #? 
    c

def scope_from_import_variable_with_parenthesis():
    from import_tree.mod2.fake import (
        a, foobarbaz
    )

    #? 
    a
    #? 
    foobarbaz
    # shouldn't complete, should still list the name though.
    #? ['foobarbaz']
    foobarbaz


def as_imports():
    from import_tree.mod1 import a as xyz
    #? int()
    xyz
    import not_existant, import_tree.mod1 as foo
    #? int()
    foo.a
    import import_tree.mod1 as bar
    #? int()
    bar.a


def broken_import():
    import import_tree.mod1
    #? import_tree.mod1
    from import_tree.mod1

    #? 25 import_tree.mod1
    import import_tree.mod1.
    #? 25 import_tree.mod1
    impo5t import_tree.mod1.foo
    #? 25 import_tree.mod1
    import import_tree.mod1.foo.
    #? 31 import_tree.mod1
    import json, import_tree.mod1.foo.

    # Cases with ;
    mod1 = 3
    #? 25 int()
    import import_tree; mod1.
    #? 38 import_tree.mod1
    import_tree; import import_tree.mod1.

    #! ['module json']
    from json


def test_import_priorities():
    """
    It's possible to overwrite import paths in an ``__init__.py`` file, by
    just assigining something there.

    See also #536.
    """
    from import_tree import the_pkg, invisible_pkg
    #? int()
    invisible_pkg
    # In real Python, this would be the module, but it's not, because Jedi
    # doesn't care about most stateful issues such as __dict__, which it would
    # need to, to do this in a correct way.
    #? int()
    the_pkg
    # Importing foo is still possible, even though inivisible_pkg got changed.
    #? float()
    from import_tree.invisible_pkg import foo


# -----------------
# std lib modules
# -----------------
import tokenize
#? ['tok_name']
tokenize.tok_name

from pyclbr import *

#? ['readmodule_ex']
readmodule_ex
import os

#? ['dirname']
os.path.dirname

from os.path import (
    expanduser
)

#? os.path.expanduser
expanduser

from itertools import (tee,
                       islice)
#? ['islice']
islice

from functools import (partial, wraps)
#? ['wraps']
wraps

from keyword import kwlist, \
                    iskeyword
#? ['kwlist']
kwlist

#? []
from keyword import not_existing1, not_existing2

from tokenize import io
tokenize.generate_tokens

import socket
#? 14 ['SocketIO']
socket.SocketIO

# -----------------
# builtins
# -----------------

import sys
#? ['prefix']
sys.prefix

#? ['append']
sys.path.append

from math import *
#? ['cos', 'cosh']
cos

def func_with_import():
    import time
    return time

#? ['sleep']
func_with_import().sleep

# -----------------
# relative imports
# -----------------

from .import_tree import mod1
#? int()
mod1.a

from ..import_tree import mod1
#? 
mod1.a

from .......import_tree import mod1
#? 
mod1.a

from .. import helpers
#? int()
helpers.sample_int

from ..helpers import sample_int as f
#? int()
f

from . import run
#? []
run.

from . import import_tree as imp_tree
#? str()
imp_tree.a

from . import datetime as mod1
#? []
mod1.

# self import
# this can cause recursions
from imports import *

# -----------------
# packages
# -----------------

from import_tree.mod1 import c
#? set
c

from import_tree import recurse_class1

#? ['a']
recurse_class1.C.a
# github #239 RecursionError
#? ['a']
recurse_class1.C().a

# -----------------
# Jedi debugging
# -----------------

# memoizing issues (check git history for the fix)
import not_existing_import

if not_existing_import:
    a = not_existing_import
else:
    a = not_existing_import
#? 
a

# -----------------
# module underscore descriptors
# -----------------

def underscore():
    import keyword
    #? ['__file__']
    keyword.__file__
    #? str()
    keyword.__file__

    # Does that also work for our own module?
    #? ['__file__']
    __file__


# -----------------
# complex relative imports #784
# -----------------
def relative():
    #? ['foobar']
    from import_tree.pkg.mod1 import foobar
    #? int()
    foobar
    return 1
