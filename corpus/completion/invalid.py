"""
This file is less about the results and much more about the fact, that no
exception should be thrown.

Basically this file could change depending on the current implementation. But
there should never be any errors.
"""

# wait until keywords are out of definitions (pydoc function).
#? 5 
's'()

#? []
str()).upper

# -----------------
# funcs
# -----------------
def asdf(a or b): # multiple param names
    return a

#? 
asdf(2)

asdf = ''

from a import (b
def blub():
    return 0
def wrong_indents():
    asdf = 3
     asdf
    asdf(
    # TODO this seems to be wrong now?
    #? int()
    asdf
def openbrace():
    asdf = 3
    asdf(
    #? int()
    asdf
    return 1

#? int()
openbrace()

blub([
#? int()
openbrace()

def indentfault():
    asd(
 indentback

#? []
indentfault().

def openbrace2():
    asd(
def normalfunc():
    return 1

#? int()
normalfunc()

# dots in param
def f(seq1...=None):
    return seq1
#?
f(1)

@
def test_empty_decorator():
    return 1

#? int()
test_empty_decorator()

def invalid_param(param=):
    #? 
    param
# -----------------
# flows
# -----------------

# first part not complete (raised errors)
if a
    a
else:
    #? ['AttributeError']
    AttributeError

try
#? ['AttributeError']
except AttributeError
    pass
finally:
    pass

#? ['isinstance']
if isi
try:
    except TypeError:
        #? str()
        str()

def break(): pass
# wrong ternary expression
a = ''
a = 1 if
#? str()
a

# No completions for for loops without the right syntax
for for_local in :
    for_local
#? []
for_local
#? 
for_local


# -----------------
# list comprehensions
# -----------------

a2 = [for a2 in [0]]
#? 
a2[0]

a3 = [for xyz in]
#? 
a3[0]

a3 = [a4 for in 'b']
#? 
a3[0]

a3 = [a4 for a in for x in y]
#? 
a3[0]

a = [for a in
def break(): pass

#? str()
a[0]

a = [a for a in [1,2]
def break(): pass
#? str()
a[0]

#? []
int()).real

# -----------------
# keywords
# -----------------

#! []
as

def empty_assert():
    x = 3
    assert
    #? int()
    x

import datetime as 


# -----------------
# statements
# -----------------

call = ''
invalid = .call
#? 
invalid

invalid = call?.call
#? str()
invalid

# comma
invalid = ,call
#? str()
invalid


# -----------------
# classes
# -----------------

class BrokenPartsOfClass():
    def foo(self):
        # This construct contains two places where Jedi with Python 3 can fail.
        # It should just ignore those constructs and still execute `bar`.
        pass
        if 2:
            try:
                pass
            except ValueError, e:
                raise TypeError, e
        else:
            pass

    def bar(self):
        self.x = 3
        return ''

#? str()
BrokenPartsOfClass().bar()
