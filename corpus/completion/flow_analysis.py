# -----------------
# First a few name resolution things
# -----------------

x = 3
if NOT_DEFINED:
    x = ''
#? 6 int()
elif x:
    pass
else:
    #? int()
    x

x = 1
try:
    x = ''
#? 8 int() str()
except x:
    #? 5 int() str()
    x
    x = 1.0
else:
    #? 5 int() str()
    x
    x = list
finally:
    #? 5 int() str() float() list
    x
    x = tuple

if False:
    with open("") as defined_in_false:
        #? ['flush']
        defined_in_false.flu

# -----------------
# Return checks
# -----------------

def foo(x):
    if 1.0:
        return 1
    else:
        return ''

#? int()
foo(1)


#  Exceptions are not analyzed. So check both if branches
def try_except(x):
    try:
        if 0:
            return 1
        else:
            return ''
    except AttributeError:
        return 1.0

#? float() str()
try_except(1)


#  Exceptions are not analyzed. So check both if branches
def try_except(x):
    try:
        if 0:
            return 1
        else:
            return ''
    except AttributeError:
        return 1.0

#? float() str()
try_except(1)

def test_function():
    a = int(input())
    if a % 2 == 0:
        return True
    return "False"

#? bool() str()
test_function()

# -----------------
# elif
# -----------------

def elif_flows1(x):
    if False:
        return 1
    elif True:
        return 1.0
    else:
        return ''

#? float()
elif_flows1(1)


def elif_flows2(x):
    try:
        if False:
            return 1
        elif 0:
            return 1.0
        else:
            return ''
    except ValueError:
        return set

#? str() set
elif_flows2(1)


def elif_flows3(x):
    try:
        if True:
            return 1
        elif 0:
            return 1.0
        else:
            return ''
    except ValueError:
        return set

#? int() set
elif_flows3(1)

# -----------------
# mid-difficulty if statements
# -----------------
def check(a):
    if a is None:
        return 1
    return ''
    return set

#? int()
check(None)
#? str()
check('asb')

a = list
if 2 == True:
    a = set
elif 1 == True:
    a = 0

#? int()
a
if check != 1:
    a = ''
#? int() str()
a
if check == check:
    a = list
#? list
a
if check != check:
    a = set
else:
    a = dict
#? dict
a
if not (check is not check):
    a = 1
#? int()
a


# -----------------
# name resolution
# -----------------

a = list
def elif_name(x):
    try:
        if True:
            a = 1
        elif 0:
            a = 1.0
        else:
            return ''
    except ValueError:
        a = x
    return a

#? int() set
elif_name(set)

if 0:
    a = ''
else:
    a = int

#? int
a

# -----------------
# isinstance
# -----------------

class A(): pass

def isinst(x):
    if isinstance(x, A):
        return dict
    elif isinstance(x, int) and x == 1 or x is True:
        return set
    elif isinstance(x, (float, reversed)):
        return list
    elif not isinstance(x, str):
        return tuple
    return 1

#? dict
isinst(A())
#? set
isinst(True)
#? set
isinst(1)
#? tuple
isinst(2)
#? list
isinst(1.0)
#? tuple
isinst(False)
#? int()
isinst('')

# -----------------
# flows that are not reachable should be able to access parent scopes.
# -----------------

foobar = ''

if 0:
    within_flow = 1.0
    #? float()
    within_flow
    #? str()
    foobar
    if 0:
        nested = 1
        #? int()
        nested
        #? float()
        within_flow
        #? str()
        foobar
    #?
    nested

if False:
    in_false = 1
    #? ['in_false']
    in_false

# -----------------
# True objects like modules
# -----------------

class X():
    pass
if X:
    a = 1
else:
    a = ''
#? int()
a


# -----------------
# Recursion issues
# -----------------

def possible_recursion_error(filename):
    if filename == 'a':
        return filename
    # It seems like without the brackets there wouldn't be a RecursionError.
    elif type(filename) == str:
        return filename


if NOT_DEFINED:
    s = str()
else:
    s = str()
#? str()
possible_recursion_error(s)


# -----------------
# In combination with imports
# -----------------

from import_tree import flow_import

if 1 == flow_import.env:
    a = 1
elif 2 == flow_import.env:
    a = ''
elif 3 == flow_import.env:
    a = 1.0

#? int() str()
a
