class Base():
    myfoobar = 3


class X(Base):
    def func(self, foo):
        pass


class Y(X):
    def actual_function(self):
        pass

    #? []
    def actual_function
    #? ['func']
    def f

    #? ['__doc__']
    __doc__
    #? []
    def __doc__

    #? []
    def __class__
    #? ['__class__']
    __class__


    #? ['__repr__']
    def __repr__

    #? []
    def mro

    #? ['myfoobar']
    myfoobar

#? []
myfoobar

# -----------------
# Inheritance
# -----------------

class Super():
    enabled = True
    if enabled:
        yo_dude = 4

class Sub(Super):
    #? ['yo_dude']
    yo_dud
