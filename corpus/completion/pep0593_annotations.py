from typing import Annotated

# This is just a dummy and very meaningless thing to use with to the Annotated
# type hint
class Foo:
    pass

class A:
    pass


def annotated_function_params(
    basic: Annotated[str, Foo()],
    obj: A,
    annotated_obj: Annotated[A, Foo()],
):
    #? str()
    basic

    #? A()
    obj

    #? A()
    annotated_obj
