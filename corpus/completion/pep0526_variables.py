"""
PEP 526 introduced a way of using type annotations on variables.
"""
import typing

asdf = ''
asdf: int
# This is not necessarily correct, but for now this is ok (at least no error).
#? int()
asdf


direct: int = NOT_DEFINED
#? int()
direct

with_typing_module: typing.List[float] = NOT_DEFINED
#? float()
with_typing_module[0]

somelist = [1, 2, 3, "A", "A"]
element : int
for element in somelist:
    #? int()
    element

test_string: str = NOT_DEFINED
#? str()
test_string


char: str
for char in NOT_DEFINED:
    #? str()
    char


# -------------------------
# instance/class vars
# -------------------------

class Foo():
    bar: int
    baz: typing.ClassVar[str]


#? int()
Foo.bar
#? int()
Foo().bar
#? str()
Foo.baz
#? str()
Foo().baz

class VarClass:
    var_instance1: int = ''
    var_instance2: float
    var_class1: typing.ClassVar[str] = 1
    var_class2: typing.ClassVar[bytes]
    var_class3 = None
    var_class4: typing.ClassVar = ""

    def __init__(self):
        #? int()
        d.var_instance1
        #? float()
        d.var_instance2
        #? str()
        d.var_class1
        #? bytes()
        d.var_class2
        #? []
        d.int
        #? ['var_class1', 'var_class2', 'var_instance1', 'var_instance2', 'var_class3', 'var_class4']
        self.var_

class VarClass2(VarClass):
    var_class3: typing.ClassVar[int]

    def __init__(self):
        #? int()
        self.var_class3

#? ['var_class1', 'var_class2', 'var_class4', 'var_instance1', 'var_class3', 'var_instance2']
VarClass.var_
#? int()
VarClass.var_instance1
#? float()
VarClass.var_instance2
#? str()
VarClass.var_class1
#? bytes()
VarClass.var_class2
#? str()
VarClass.var_class4
#? []
VarClass.int

d = VarClass()
#? ['var_class1', 'var_class2', 'var_class3', 'var_class4', 'var_instance1', 'var_instance2']
d.var_
#? int()
d.var_instance1
#? float()
d.var_instance2
#? str()
d.var_class1
#? bytes()
d.var_class2
#? str()
d.var_class4
#? []
d.int



import dataclasses
@dataclasses.dataclass
class DC:
    name: int = 1

#? int()
DC().name

# -------------------------
# Final
# -------------------------

# TODO this is wrong, but shouldn't matter that much
#? 0 int()
x: typing.Final[str] = 1
#? 0 int()
y: typing.Final = 1
#? str()
x
#? int()
y

def f(x: typing.Final[str]):
    #? str()
    x

class C:
    x: typing.Final[bytes] = 1
    #? 4 str()
    y: typing.Final = ""
    #? bytes()
    x
    #? str()
    y

#? bytes()
C.x
#? str()
C.y
#? bytes()
C().x
#? str()
C().y
