# Exists only for completion/pytest.py
import pytest

@pytest.fixture
def my_module_fixture():
    return 1.0
