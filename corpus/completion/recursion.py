"""
Code that might cause recursion issues (or has caused in the past).
"""

def Recursion():
    def recurse(self):
        self.a = self.a
        self.b = self.b.recurse()

#?
Recursion().a

#?
Recursion().b


class X():
    def __init__(self):
        self.recursive = [1, 3]

    def annoying(self):
        self.recursive = [self.recursive[0]]

    def recurse(self):
        self.recursive = [self.recursive[1]]

#? int()
X().recursive[0]


def to_list(iterable):
    return list(set(iterable))


def recursion1(foo):
    return to_list(to_list(foo)) + recursion1(foo)

#? int()
recursion1([1,2])[0]


class FooListComp():
    def __init__(self):
        self.recursive = [1]

    def annoying(self):
        self.recursive = [x for x in self.recursive]


#? int()
FooListComp().recursive[0]


class InstanceAttributeIfs:
    def b(self):
        self.a1 = 1
        self.a2 = 1

    def c(self):
        self.a2 = ''

    def x(self):
        self.b()

        if self.a1 == 1:
            self.a1 = self.a1 + 1
        if self.a2 == UNDEFINED:
            self.a2 = self.a2 + 1

        #? int()
        self.a1
        #? int() str()
        self.a2

#? int()
InstanceAttributeIfs().a1
#? int() str()
InstanceAttributeIfs().a2



class A:
    def a(self, b):
        for x in [self.a(i) for i in b]:
            #?
            x

class B:
    def a(self, b):
        for i in b:
            for i in self.a(i):
                #?
                yield i


foo = int
foo = foo  # type: foo
#? int
foo

while True:
    bar = int
    bar = bar  # type: bar
    #? int()
    bar


class Comprehension:
    def __init__(self, foo):
        self.foo = foo

    def update(self):
        self.foo = (self.foo,)


#? int() tuple()
Comprehension(1).foo[0]
