
class Super(object):
    attribute = 3

    def func(self):
        return 1

    class Inner():
        pass


class Sub(Super):
    #? 13 Sub.attribute
    def attribute(self):
        pass

    #! 8 ['attribute = 3']
    def attribute(self):
        pass

    #! 4 ['def func']
    func = 3
    #! 12 ['def func']
    class func(): pass

    #! 8 ['class Inner']
    def Inner(self): pass

# -----------------
# Finding self
# -----------------

class Test1:
    class Test2:
        def __init__(self):
            self.foo_nested = 0
            #? ['foo_nested']
            self.foo_
            #?
            self.foo_here

    def __init__(self, self2):
        self.foo_here = 3
        #? ['foo_here', 'foo_in_func']
        self.foo_
        #? int()
        self.foo_here
        #?
        self.foo_nested
        #?
        self.foo_not_on_self
        #? float()
        self.foo_in_func
        self2.foo_on_second = ''

        def closure():
            self.foo_in_func = 4.

    def bar(self):
        self = 3
        self.foo_not_on_self = 3


class SubTest(Test1):
    def __init__(self):
        self.foo_sub_class = list

    def bar(self):
        #? ['foo_here', 'foo_in_func', 'foo_sub_class']
        self.foo_
        #? int()
        self.foo_here
        #?
        self.foo_nested
        #?
        self.foo_not_on_self
