import sys
import os
from os.path import dirname

sys.path.insert(0, os.path.join(dirname(__file__), 'namespace2'))
sys.path.insert(0, os.path.join(dirname(__file__), 'namespace1'))

#? ['mod1']
import pkg1.pkg2.mod1

#? ['mod2']
import pkg1.pkg2.mod2

#? ['mod1_name']
pkg1.pkg2.mod1.mod1_name

#? ['mod2_name']
pkg1.pkg2.mod2.mod2_name
