# -----------------
# non array
# -----------------

# python >= 3.12
#? ['imag']
int.imag

#? ['is_integer']
int.is_integer

#? ['is_integer']
float.is_int

#? ['is_integer']
1.0.is_integer

#? ['upper']
"".upper

#? ['upper']
r"".upper

# strangely this didn't work, because the = is used for assignments
#? ['upper']
"=".upper
a = "="
#? ['upper']
a.upper


# -----------------
# lists
# -----------------
arr = []
#? ['append']
arr.app

#? ['append']
list().app
#? ['append']
[].append

arr2 = [1,2,3]
#? ['append']
arr2.app

#? int()
arr.count(1)

x = []
#?
x.pop()
x = [3]
#? int()
x.pop()
x = []
x.append(1.0)
#? float()
x.pop()

# -----------------
# dicts
# -----------------
dic = {}

#? ['copy', 'clear']
dic.c

dic2 = dict(a=1, b=2)
#? ['pop', 'popitem']
dic2.p
#? ['popitem']
{}.popitem

dic2 = {'asdf': 3}
#? ['popitem']
dic2.popitem

#? int()
dic2['asdf']

d = {'a': 3, 1.0: list}

#? int() list
d.values()[0]
##? int() list
dict(d).values()[0]

#? str()
d.items()[0][0]
#? int()
d.items()[0][1]

(a, b), = {a:1 for a in [1.0]}.items()
#? float()
a
#? int()
b

# -----------------
# tuples
# -----------------
tup = ('',2)

#? ['count']
tup.c

tup2 = tuple()
#? ['index']
tup2.i
#? ['index']
().i

tup3 = 1,""
#? ['index']
tup3.index

tup4 = 1,""
#? ['index']
tup4.index

# -----------------
# set
# -----------------
set_t = {1,2}

#? ['clear', 'copy']
set_t.c

set_t2 = set()

#? ['clear', 'copy']
set_t2.c

# -----------------
# pep 448 unpacking generalizations
# -----------------

d = {'a': 3}
dc = {v: 3 for v in ['a']}

#? dict()
{**d}

#? dict()
{**dc}

#? str()
{**d, "b": "b"}["b"]

#? str()
{**dc, "b": "b"}["b"]

# Should resolve to int() but jedi is not smart enough yet
# Here to make sure it doesn't result in crash though
#? 
{**d}["a"]

# Should resolve to int() but jedi is not smart enough yet
# Here to make sure it doesn't result in crash though
#? 
{**dc}["a"]

s = {1, 2, 3}

#? set()
{*s}

#? set()
{*s, 4, *s}

s = {1, 2, 3}
# Should resolve to int() but jedi is not smart enough yet
# Here to make sure it doesn't result in crash though
#? 
{*s}.pop()

#? int()
{*s, 4}.pop()

# Should resolve to int() but jedi is not smart enough yet
# Here to make sure it doesn't result in crash though
#? 
[*s][0]

#? int()
[*s, 4][0]
