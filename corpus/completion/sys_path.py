
import sys
import os
from os.path import dirname

sys.path.insert(0, '../../jedi')
sys.path.append(os.path.join(dirname(__file__), 'thirdparty'))

# modifications, that should fail:
# syntax err
sys.path.append('a' +* '/thirdparty')

#? ['inference']
import inference

#? ['inference_state_function_cache']
inference.inference_state_fu

# Those don't work because dirname and abspath are not properly understood.
#? ['jedi_']
import jedi_

#? ['el']
jedi_.el
