""" Test docstrings in functions and classes, which are used to infer types """

# -----------------
# sphinx style
# -----------------
def sphinxy(a, b, c, d, x):
    """ asdfasdf
    :param a: blablabla
    :type a: str
    :type b: (str, int)
    :type c: random.Random
    :type d: :class:`random.Random`
    :param str x: blablabla
    :rtype: dict
    """
    #? str()
    a
    #? str()
    b[0]
    #? int()
    b[1]
    #? ['seed']
    c.seed
    #? ['seed']
    d.seed
    #? ['lower']
    x.lower

#? dict()
sphinxy()

# wrong declarations
def sphinxy2(a, b, x, y, z):
    """
    :param a: Forgot type declaration
    :type a:
    :param b: Just something
    :type b: ``
    :param x: Just something without type
    :param y: A function
    :type y: def l(): pass
    :param z: A keyword
    :type z: return
    :rtype:
    """
    #? 
    a
    #? 
    b
    #?
    x
    #?
    y
    #?
    z

#? 
sphinxy2()


def sphinxy_param_type_wrapped(a):
    """
    :param str a:
        Some description wrapped onto the next line with no space after the
        colon.
    """
    #? str()
    a


# local classes -> github #370
class ProgramNode():
    pass

def local_classes(node, node2):
    """
    :type node: ProgramNode
    ... and the class definition after this func definition:
    :type node2: ProgramNode2
    """
    #? ProgramNode()
    node
    #? ProgramNode2()
    node2

class ProgramNode2():
    pass


def list_with_non_imports(lst):
    """
    Should be able to work with tuples and lists and still import stuff.

    :type lst: (random.Random, [collections.defaultdict, ...])
    """
    #? ['seed']
    lst[0].seed

    import collections as col
    # use some weird index
    #? col.defaultdict()
    lst[1][10]


def two_dots(a):
    """
    :type a: json.decoder.JSONDecoder
    """
    #? ['raw_decode']
    a.raw_decode


# sphinx returns
def return_module_object():
    """
    :rtype: :class:`random.Random`
    """

#? ['seed']
return_module_object().seed


# -----------------
# epydoc style
# -----------------
def epydoc(a, b):
    """ asdfasdf
    @type a: str
    @param a: blablabla
    @type b: (str, int)
    @param b: blablah
    @rtype: list
    """
    #? str()
    a
    #? str()
    b[0]

    #? int()
    b[1]

#? list()
epydoc()


# Returns with param type only
def rparam(a,b):
    """
    @type a: str
    """
    return a

#? str()
rparam()


# Composite types
def composite():
    """
    @rtype: (str, int, dict)
    """

x, y, z = composite()
#? str()
x
#? int()
y
#? dict()
z


# Both docstring and calculated return type
def both():
    """
    @rtype: str
    """
    return 23

#? str() int()
both()

class Test(object):
    def __init__(self):
        self.teststr = ""
    """
    # jedi issue #210
    """
    def test(self):
        #? ['teststr']
        self.teststr

# -----------------
# statement docstrings
# -----------------
d = ''
""" bsdf """
#? str()
d.upper()

# -----------------
# class docstrings
# -----------------

class InInit():
    def __init__(self, foo):
        """
        :type foo: str
        """
        #? str()
        foo


class InClass():
    """
    :type foo: str
    """
    def __init__(self, foo):
        #? str()
        foo


class InBoth():
    """
    :type foo: str
    """
    def __init__(self, foo):
        """
        :type foo: int
        """
        #? str() int()
        foo


def __init__(foo):
    """
    :type foo: str
    """
    #? str()
    foo


# -----------------
# Renamed imports (#507)
# -----------------

import datetime
from datetime import datetime as datetime_imported

def import_issues(foo):
    """
    @type foo: datetime_imported
    """
    #? datetime.datetime()
    foo


# -----------------
# Doctest completions
# -----------------

def doctest_with_gt():
    """
    x

    >>> somewhere_in_docstring = 3
    #? ['import_issues']
    >>> import_issu
    #? ['somewhere_in_docstring']
    >>> somewhere_

    blabla

        >>> haha = 3
        #? ['haha']
        >>> hah
        #? ['doctest_with_space']
        >>> doctest_with_sp
    """

def doctest_with_space():
    """
    x
        #? ['import_issues']
        import_issu
    """

def doctest_issue_github_1748():
    """From GitHub #1748
    #? 10 []
    This. Al
    """
    pass


def docstring_rst_identifiers():
    """
    #? 30 ['import_issues']
    hello I'm here `import_iss` blabla

    #? ['import_issues']
    hello I'm here `import_iss

    #? []
    hello I'm here import_iss
    #? []
    hello I'm here ` import_iss

    #? ['upper']
    hello I'm here `str.upp
    """


def doctest_without_ending():
    """
    #? []
    import_issu
    ha

        no_ending = False
        #? ['import_issues']
        import_issu
        #? ['no_ending']
        no_endin
