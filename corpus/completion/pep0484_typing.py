"""
Test the typing library, with docstrings and annotations
"""
import typing
from typing import Sequence, MutableSequence, List, Iterable, Iterator, \
    AbstractSet, Tuple, Mapping, Dict, Union, Optional, Final, Self

class B:
    pass

def we_can_has_sequence(p: Sequence[int], q: Sequence[B], r: Sequence[int],
                        s: Sequence["int"], t: MutableSequence[dict], u: List[float]):
    #? ["count"]
    p.c
    #? int()
    p[1]
    #? ["count"]
    q.c
    #? B()
    q[1]
    #? ["count"]
    r.c
    #? int()
    r[1]
    #? ["count"]
    s.c
    #? int()
    s[1]
    #? []
    s.a
    #? ["append"]
    t.a
    #? dict()
    t[1]
    #? ["append"]
    u.a
    #? float() list()
    u[1.0]
    #? float()
    u[1]

def iterators(ps: Iterable[int], qs: Iterator[str], rs:
              Sequence["ForwardReference"], ts: AbstractSet["float"]):
    for p in ps:
        #? int()
        p
    #?
    next(ps)
    a, b = ps
    #? int()
    a
    #? int()
    b

    for q in qs:
        #? str()
        q
    #? str()
    next(qs)
    for r in rs:
        #? ForwardReference()
        r
    #?
    next(rs)
    for t in ts:
        #? float()
        t

def sets(p: AbstractSet[int], q: typing.MutableSet[float]):
    #? []
    p.a
    #? ["add"]
    q.a

def tupletest(p: Tuple[int], q: Tuple[int, str, float], r: Tuple[B, ...]):
    #? int()
    p[0]
    #? ['index']
    p.index
    #? int()
    q[0]
    #? str()
    q[1]
    #? float()
    q[2]
    #? B()
    r[0]
    #? B()
    r[1]
    #? B()
    r[2]
    #? B()
    r[10000]
    i, s, f = q
    #? int()
    i
    #? str()
    s
    #? float()
    f

class Key:
    pass

class Value:
    pass

def mapping(
        p: Mapping[Key, Value],
        q: typing.MutableMapping[Key, Value],
        d: Dict[Key, Value],
        dd: typing.DefaultDict[Key, Value],
        r: typing.KeysView[Key],
        s: typing.ValuesView[Value],
        t: typing.ItemsView[Key, Value]):
    #? []
    p.setd
    #? ["setdefault"]
    q.setd
    #? ["setdefault"]
    d.setd
    #? ["setdefault"]
    dd.setd
    #? Value()
    p[1]
    for key in p:
        #? Key()
        key
    for key in p.keys():
        #? Key()
        key
    for value in p.values():
        #? Value()
        value
    for item in p.items():
        #? Key()
        item[0]
        #? Value()
        item[1]
        (key, value) = item
        #? Key()
        key
        #? Value()
        value
    for key, value in p.items():
        #? Key()
        key
        #? Value()
        value
    for key, value in q.items():
        #? Key()
        key
        #? Value()
        value
    for key, value in d.items():
        #? Key()
        key
        #? Value()
        value
    for key, value in dd.items():
        #? Key()
        key
        #? Value()
        value
    for key in r:
        #? Key()
        key
    for value in s:
        #? Value()
        value
    for key, value in t:
        #? Key()
        key
        #? Value()
        value

def union(
    p: Union[int],
    q: Union[int, int],
    r: Union[int, str, "int"],
    s: Union[int, typing.Union[str, "typing.Union['float', 'dict']"]],
    t: Union[int, None]):
    #? int()
    p
    #? int()
    q
    #? int() str()
    r
    #? int() str() float() dict()
    s
    #? int() None
    t

def optional(p: Optional[int]):
    """
    Optional does not do anything special. However it should be recognised
    as being of that type. Jedi doesn't do anything with the extra into that
    it can be None as well
    """
    #? int() None
    p

class ForwardReference:
    pass

class TestDict(typing.Dict[str, int]):
    def setdud(self):
        pass

def testdict(x: TestDict):
    #? ["setdud", "setdefault"]
    x.setd
    for key in x.keys():
        #? str()
        key
    for value in x.values():
        #? int()
        value

x = TestDict()
#? ["setdud", "setdefault"]
x.setd
for key in x.keys():
    #? str()
    key
for value in x.values():
    #? int()
    value

WrappingType = typing.NewType('WrappingType', str) # Chosen arbitrarily
y = WrappingType(0) # Per https://github.com/davidhalter/jedi/issues/1015#issuecomment-355795929
#? str()
y

def testnewtype(y: WrappingType):
    #? str()
    y
    #? ["upper"]
    y.u

WrappingType2 = typing.NewType()

def testnewtype2(y: WrappingType2):
    #?
    y
    #? []
    y.

# The type of a NewType is equivalent to the type of its underlying type.
MyInt = typing.NewType('MyInt', int)
x = type(MyInt)
#? type.mro
x.mro

PlainInt = int
y = type(PlainInt)
#? type.mro
y.mro

class TestDefaultDict(typing.DefaultDict[str, int]):
    def setdud(self):
        pass

def testdict(x: TestDefaultDict):
    #? ["setdud", "setdefault"]
    x.setd
    for key in x.keys():
        #? str()
        key
    for value in x.values():
        #? int()
        value

x = TestDefaultDict()
#? ["setdud", "setdefault"]
x.setd
for key in x.keys():
    #? str()
    key
for value in x.values():
    #? int()
    value


"""
docstrings have some auto-import, annotations can use all of Python's
import logic
"""
import typing as t
def union2(x: t.Union[int, str]):
    #? int() str()
    x
from typing import Union
def union3(x: Union[int, str]):
    #? int() str()
    x

from typing import Union as U
def union4(x: U[int, str]):
    #? int() str()
    x

#? typing.Optional
typing.Optional[0]

# -------------------------
# Type Vars
# -------------------------

TYPE_VARX = typing.TypeVar('TYPE_VARX')
TYPE_VAR_CONSTRAINTSX = typing.TypeVar('TYPE_VAR_CONSTRAINTSX', str, int)
#? ['__class__']
TYPE_VARX.__clas
#! ["TYPE_VARX = typing.TypeVar('TYPE_VARX')"]
TYPE_VARX


class WithTypeVar(typing.Generic[TYPE_VARX]):
    def lala(self) -> TYPE_VARX:
        ...


def maaan(p: WithTypeVar[int]):
    #? int()
    p.lala()

def in_out1(x: TYPE_VARX) -> TYPE_VARX: ...

#? int()
in_out1(1)
#? str()
in_out1("")
#? str()
in_out1(str())
#?
in_out1()

def type_in_out1(x: typing.Type[TYPE_VARX]) -> TYPE_VARX: ...

#? int()
type_in_out1(int)
#? str()
type_in_out1(str)
#? float()
type_in_out1(float)
#?
type_in_out1()

def in_out2(x: TYPE_VAR_CONSTRAINTSX) -> TYPE_VAR_CONSTRAINTSX: ...

#? int()
in_out2(1)
#? str()
in_out2("")
#? str()
in_out2(str())
#? str() int()
in_out2()
# TODO this should actually be str() int(), because of the constraints.
#? float()
in_out2(1.0)

def type_in_out2(x: typing.Type[TYPE_VAR_CONSTRAINTSX]) -> TYPE_VAR_CONSTRAINTSX: ...

#? int()
type_in_out2(int)
#? str()
type_in_out2(str)
#? str() int()
type_in_out2()
# TODO this should actually be str() int(), because of the constraints.
#? float()
type_in_out2(float)

def ma(a: typing.Callable[[str], TYPE_VARX]) -> typing.Callable[[str], TYPE_VARX]:
    #? typing.Callable()
    return a

def mf(s: str) -> int:
    return int(s)

#? int()
ma(mf)('2')

def xxx(x: typing.Iterable[TYPE_VARX]) -> typing.Tuple[str, TYPE_VARX]: ...

#? str()
xxx([0])[0]
#? int()
xxx([0])[1]
#?
xxx([0])[2]

def call_pls() -> typing.Callable[[TYPE_VARX], TYPE_VARX]: ...
#? int()
call_pls()(1)

def call2_pls() -> typing.Callable[[str, typing.Callable[[int], TYPE_VARX]], TYPE_VARX]: ...
#? float()
call2_pls('')(1, lambda x: 3.0)

def call3_pls() -> typing.Callable[[typing.Callable[[int], TYPE_VARX]], typing.List[TYPE_VARX]]: ...
def the_callable() -> float: ...
#? float()
call3_pls()(the_callable)[0]

def call4_pls(fn: typing.Callable[..., TYPE_VARX]) -> typing.Callable[..., TYPE_VARX]:
    return ""

#? int()
call4_pls(lambda x: 1)()

# -------------------------
# TYPE_CHECKING
# -------------------------

if typing.TYPE_CHECKING:
    with_type_checking = 1
else:
    without_type_checking = 1.0
#? int()
with_type_checking
#?
without_type_checking

def foo(a: typing.List, b: typing.Dict, c: typing.MutableMapping) -> typing.Type[int]:
    #? ['append']
    a.appen
    #? list()
    a
    #?
    a[0]
    #? ['setdefault']
    b.setd
    #? ['setdefault']
    c.setd
    #? typing.MutableMapping()
    c
    #?
    c['asdf']
#? int
foo()

# -------------------------
# cast
# -------------------------

def cast_tests():
    x = 3.0
    y = typing.cast(int, x)
    #? int()
    y
    return typing.cast(str, x)


#? str()
cast_tests()


# -------------------------
# dynamic
# -------------------------

def dynamic_annotation(x: int):
    #? int()
    return x

#? int()
dynamic_annotation('')

# -------------------------
# TypeDict
# -------------------------

class Foo(typing.TypedDict):
    foo: str
    bar: typing.List[float]
    an_int: int
    #! ['foo: str']
    foo
    #? str()
    foo
    #? int()
    an_int

def typed_dict_test_foo(arg: Foo):
    a_string = arg['foo']
    a_list_of_floats = arg['bar']
    an_int = arg['an_int']

    #? str()
    a_string
    #? list()
    a_list_of_floats
    #? float()
    a_list_of_floats[0]
    #? int()
    an_int

    #? ['isupper']
    a_string.isuppe
    #? ['pop']
    a_list_of_floats.po
    #? ['as_integer_ratio']
    an_int.as_integer_rati

#! ['class Foo']
d: Foo
#? str()
d['foo']
#? float()
d['bar'][0]
#?
d['baz']

#?
d.foo
#?
d.bar
#! []
d.foo

#? []
Foo.set
#? ['setdefault']
d.setdefaul
#? []
Foo.setdefaul

#? 5 ["'foo"]
d['fo']
#? 5 ['"bar"']
d["bar"]

class Bar(Foo):
    another_variable: int

    #? int()
    another_variable
    #?
    an_int

def typed_dict_test_foo(arg: Bar):
    #? str()
    arg['foo']
    #? list()
    arg['bar']
    #? float()
    arg['bar'][0]
    #? int()
    arg['an_int']
    #? int()
    arg['another_variable']

# -----------------
# Self
# -----------------

import typing_extensions

# From #2023, #2068
class Builder:
    def __init__(self):
        self.x = 0
        self.y = 0

    def add_x(self: Self, x: int) -> Self:
        self.x = x
        return self

    def add_y(self: Self, y: int) -> Self:
        self.y = y
        return self

    def add_not_implemented(self: Self, y: int) -> Self:
        raise NotImplementedError

    def add_not_implemented_typing_extensions(self: Self, y: int) -> typing_extensions.Self:
        raise NotImplementedError

b = Builder()
#? Builder()
b.add_x(2)
#? Builder()
b.add_x(2).add_y(5)
# python >= 3.11
#? Builder()
b.add_x(2).add_not_implemented(5)
#? Builder()
b.add_x(2).add_not_implemented_typing_extensions(5)

# -----------------
# TypeAlias (see also #1969)
# -----------------

from typing import TypeAlias

IntX: typing.TypeAlias = int
IntY: TypeAlias = int

#? int
IntX
def f(x: IntX, y: IntY):
    #? int()
    x
    #? int()
    y
