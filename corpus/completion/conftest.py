# Exists only for completion/pytest.py

import pytest


@pytest.fixture()
def my_other_conftest_fixture():
    return 1.0


@pytest.fixture()
def my_conftest_fixture(my_other_conftest_fixture):
    return my_other_conftest_fixture


def my_not_existing_fixture():
    return 3  # Just a normal function


@pytest.fixture()
def inheritance_fixture():
    return ''


@pytest.fixture
def capsysbinary(capsysbinary):
    #? ['close']
    capsysbinary.clos
    return capsysbinary


# used when fixtures are defined in multiple files
pytest_plugins = [
    "completion.fixture_module",
]
