# -----------------
# normal decorators
# -----------------

def decorator(func):
    def wrapper(*args):
        return func(1, *args)
    return wrapper

@decorator
def decorated(a,b):
    return a,b

exe = decorated(set, '')

#? set
exe[1]

#? int()
exe[0]

# more complicated with args/kwargs
def dec(func):
    def wrapper(*args, **kwargs):
        return func(*args, **kwargs)
    return wrapper

@dec
def fu(a, b, c, *args, **kwargs):
    return a, b, c, args, kwargs

exe = fu(list, c=set, b=3, d='')

#? list
exe[0]
#? int()
exe[1]
#? set
exe[2]
#? []
exe[3][0].
#? str()
exe[4]['d']


exe = fu(list, set, 3, '', d='')

#? str()
exe[3][0]

# -----------------
# multiple decorators
# -----------------
def dec2(func2):
    def wrapper2(first_arg, *args2, **kwargs2):
        return func2(first_arg, *args2, **kwargs2)
    return wrapper2

@dec2
@dec
def fu2(a, b, c, *args, **kwargs):
    return a, b, c, args, kwargs

exe = fu2(list, c=set, b=3, d='str')

#? list
exe[0]
#? int()
exe[1]
#? set
exe[2]
#? []
exe[3][0].
#? str()
exe[4]['d']


# -----------------
# Decorator is a class
# -----------------
def same_func(func):
    return func

class Decorator(object):
    def __init__(self, func):
        self.func = func

    def __call__(self, *args, **kwargs):
        return self.func(1, *args, **kwargs)

@Decorator
def nothing(a,b,c):
    return a,b,c

#? int()
nothing("")[0]
#? str()
nothing("")[1]


@same_func
@Decorator
def nothing(a,b,c):
    return a,b,c

#? int()
nothing("")[0]

class MethodDecoratorAsClass():
    class_var = 3
    @Decorator
    def func_without_self(arg, arg2):
        return arg, arg2

    @Decorator
    def func_with_self(self, arg):
        return self.class_var

#? int()
MethodDecoratorAsClass().func_without_self('')[0]
#? str()
MethodDecoratorAsClass().func_without_self('')[1]
#? 
MethodDecoratorAsClass().func_with_self(1)


class SelfVars():
    """Init decorator problem as an instance, #247"""
    @Decorator
    def __init__(self):
        """
        __init__ decorators should be ignored when looking up variables in the
        class.
        """
        self.c = list

    @Decorator
    def shouldnt_expose_var(not_self):
        """
        Even though in real Python this shouldn't expose the variable, in this
        case Jedi exposes the variable, because these kind of decorators are
        normally descriptors, which SHOULD be exposed (at least 90%).
        """
        not_self.b = 1.0

    def other_method(self):
        #? float()
        self.b
        #? list
        self.c

# -----------------
# not found decorators (are just ignored)
# -----------------
@not_found_decorator
def just_a_func():
    return 1

#? int()
just_a_func()

#? ['__closure__']
just_a_func.__closure__


class JustAClass:
    @not_found_decorator2
    def a(self):
        return 1

#? ['__call__']
JustAClass().a.__call__
#? int()
JustAClass().a()
#? ['__call__']
JustAClass.a.__call__
#? int()
JustAClass.a()

# -----------------
# illegal decorators
# -----------------

class DecoratorWithoutCall():
    def __init__(self, func):
        self.func = func

@DecoratorWithoutCall
def f():
    return 1

# cannot be resolved - should be ignored
@DecoratorWithoutCall(None)
def g():
    return 1

#? 
f()
#? int()
g()


class X():
    @str
    def x(self):
        pass

    def y(self):
        #? str()
        self.x
        #?
        self.x()


def decorator_var_args(function, *args):
    return function(*args)

@decorator_var_args
def function_var_args(param):
    return param

#? int()
function_var_args(1)

# -----------------
# method decorators
# -----------------

def dec(f):
    def wrapper(s):
        return f(s)
    return wrapper

class MethodDecorators():
    _class_var = 1
    def __init__(self):
        self._method_var = ''

    @dec
    def constant(self):
        return 1.0

    @dec
    def class_var(self):
        return self._class_var

    @dec
    def method_var(self):
        return self._method_var

#? float()
MethodDecorators().constant()
#? int()
MethodDecorators().class_var()
#? str()
MethodDecorators().method_var()


class Base():
    @not_existing
    def __init__(self):
        pass
    @not_existing
    def b(self):
        return ''
    @dec
    def c(self):
        return 1

class MethodDecoratorDoesntExist(Base):
    """#272 github: combination of method decorators and super()"""
    def a(self):
        #? 
        super().__init__()
        #? str()
        super().b()
        #? int()
        super().c()
        #? float()
        self.d()

    @doesnt_exist
    def d(self):
        return 1.0

# -----------------
# others
# -----------------
def memoize(function):
        def wrapper(*args):
            if random.choice([0, 1]):
                pass
            else:
                rv = function(*args)
                return rv
        return wrapper

@memoize
def follow_statement(stmt):
    return stmt

# here we had problems with the else clause, because the parent was not right.
#? int()
follow_statement(1)

# -----------------
# class decorators
# -----------------

# class decorators should just be ignored
@should_ignore
class A():
    x = 3
    def ret(self):
        return 1

#? int()
A().ret()
#? int()
A().x


# -----------------
# On decorator completions
# -----------------

import abc
#? ['abc']
@abc

#? ['abstractmethod']
@abc.abstractmethod

# -----------------
# Goto
# -----------------
x = 1

#! 5 []
@x.foo()
def f(): pass

#! 1 ['x = 1']
@x.foo()
def f(): pass
