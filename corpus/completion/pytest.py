from typing import Generator

import pytest
from pytest import fixture


@pytest.fixture(scope='module')
def my_fixture() -> str:
    pass


@fixture
def my_simple_fixture():
    return 1


@fixture
def my_yield_fixture():
    yield 1


@fixture
class MyClassFixture():
    pass

# -----------------
# goto/infer
# -----------------

#! 18 ['def my_conftest_fixture']
def test_x(my_conftest_fixture, my_fixture, my_not_existing_fixture, my_yield_fixture):
    #? str()
    my_fixture
    #? int()
    my_yield_fixture
    #?
    my_not_existing_fixture
    #? float()
    return my_conftest_fixture

#? 18 float()
def test_x(my_conftest_fixture, my_fixture):
    pass


#! 18 ['param MyClassFixture']
def test_x(MyClassFixture):
    #?
    MyClassFixture

#? 15
def lala(my_fixture):
    pass

@pytest.fixture
#? 15 str()
def lala(my_fixture):
    pass

#! 15 ['param my_fixture']
def lala(my_fixture):
    pass

@pytest.fixture
#! 15 ['def my_fixture']
def lala(my_fixture):
    pass

# overriding types of a fixture should be possible
def test_x(my_yield_fixture: str):
    #? str()
    my_yield_fixture

# -----------------
# completion
# -----------------

#? 34 ['my_fixture']
def test_x(my_simple_fixture, my_fixture):
    return
#? 34 ['my_fixture']
def test_x(my_simple_fixture, my_fixture):
    return
#? ['my_fixture']
def test_x(my_simple_fixture, my_f
    return
#? 18 ['my_simple_fixture']
def test_x(my_simple_fixture):
    return
#? ['my_simple_fixture']
def test_x(my_simp
    return
#? ['my_conftest_fixture']
def test_x(my_con
    return
#? 18 ['my_conftest_fixture']
def test_x(my_conftest_fixture):
    return
#? ['my_module_fixture']
def test_x(my_modu
    return

#? []
def lala(my_con
    return

@pytest.fixture
#? ['my_conftest_fixture']
def lala(my_con
    return

@pytest.fixture
#? 15 ['my_conftest_fixture']
def lala(my_con):
    return

@pytest.fixture
@some_decorator
#? ['my_conftest_fixture']
def lala(my_con
    return

@pytest.fixture
@some_decorator
#? 15 ['my_conftest_fixture']
def lala(my_con):
    return

# -----------------
# pytest owned fixtures
# -----------------

#? ['monkeypatch']
def test_p(monkeyp


#! 15 ['def monkeypatch']
def test_p(monkeypatch):
    #? ['setattr']
    monkeypatch.setatt

#? ['capsysbinary']
def test_p(capsysbin


def close_parens():
    pass
# -----------------
# inheritance
# -----------------

@fixture
#? 40 ['inheritance_fixture']
def inheritance_fixture(inheritance_fixture):
    #? str()
    inheritance_fixture
    #? ['upper']
    inheritance_fixture.upper
    return 1


#! 48 ['def inheritance_fixture']
def test_inheritance_fixture(inheritance_fixture, caplog):
    #? int()
    inheritance_fixture

    #? ['set_level']
    caplog.set_le


@pytest.fixture
def caplog(caplog):
    yield caplog

# -----------------
# Generator with annotation
# -----------------

@pytest.fixture
def with_annot() -> Generator[float, None, None]:
    pass

def test_with_annot(inheritance_fixture, with_annot):
    #? float()
    with_annot

# -----------------
# pytest external plugins
# -----------------

#? ['admin_user', 'admin_client']
def test_z(admin

#! 15 ['def admin_client']
def test_p(admin_client):
    #? ['login', 'logout']
    admin_client.log

@pytest.fixture
@some_decorator
#? ['admin_user']
def bla(admin_u
    return

@pytest.fixture
@some_decorator
#! 12 ['def admin_user']
def bla(admin_user):
    pass

