a = 3  # type: str
#? str()
a

b = 3  # type: str but I write more
#? int()
b

c = 3  # type: str # I comment more
#? str()
c

d = "It should not read comments from the next line"
# type: int
#? str()
d

# type: int
e = "It should not read comments from the previous line"
#? str()
e

class BB: pass

def test(a, b):
    a = a  # type: BB
    c = a  # type: str
    d = a
    # type: str
    e = a                 # type: str           # Should ignore long whitespace

    #? BB()
    a
    #? str()
    c
    #? BB()
    d
    #? str()
    e

class AA:
    class BB:
        pass

def test(a):
    # type: (AA.BB) -> None
    #? AA.BB()
    a

def test(a):
    # type: (AA.BB,) -> None
    #? AA.BB()
    a

a,b = 1, 2 # type: str, float
#? str()
a
#? float()
b

class Employee:
    pass

from typing import List, Tuple
x = []   # type: List[Employee]
#? Employee()
x[1]
x, y, z = [], [], []  # type: List[int], List[int], List[str]
#? int()
y[2]
x, y, z = [], [], []  # type: (List[float], List[float], List[BB])
for zi in z:
    #? BB()
    zi

x = [
   1,
   2,
]  # type: List[str]

#? str()
x[1]


for bar in foo():  # type: str
    #? str()
    bar

for bar, baz in foo():  # type: int, float
    #? int()
    bar
    #? float()
    baz

for bar, baz in foo():
    # type: str, str
    """ type hinting on next line should not work """
    #?
    bar
    #?
    baz

with foo():  # type: int
    ...

with foo() as f:  # type: str
    #? str()
    f

with foo() as f:
    # type: str
    """ type hinting on next line should not work """
    #?
    f

aaa = some_extremely_long_function_name_that_doesnt_leave_room_for_hints() \
    # type: float # We should be able to put hints on the next line with a \
#? float()
aaa

# Test instance methods
class Dog:
    def __init__(self, age, friends, name):
        # type: (int, List[Tuple[str, Dog]], str) -> None
        #? int()
        self.age = age
        self.friends = friends

        #? Dog()
        friends[0][1]

        #? str()
        self.name = name

    def friend_for_name(self, name):
        # type: (str) -> Dog
        for (friend_name, friend) in self.friends:
            if friend_name == name:
                return friend
        raise ValueError()

    def bark(self):
        pass

buddy = Dog(UNKNOWN_NAME1, UNKNOWN_NAME2, UNKNOWN_NAME3)
friend = buddy.friend_for_name('buster')
# type of friend is determined by function return type
#! 9 ['def bark']
friend.bark()

friend = buddy.friends[0][1]
# type of friend is determined by function parameter type
#! 9 ['def bark']
friend.bark()

# type is determined by function parameter type following nested generics
#? str()
friend.name

# Mypy comment describing function return type.
def annot():
    # type: () -> str
    pass

#? str()
annot()

# Mypy variable type annotation.
x = UNKNOWN_NAME2  # type: str

#? str()
x

class Cat(object):
    def __init__(self, age, friends, name):
        # type: (int, List[Dog], str) -> None
        self.age = age
        self.friends = friends
        self.name = name

cat = Cat(UNKNOWN_NAME4, UNKNOWN_NAME5, UNKNOWN_NAME6)
#? str()
cat.name


# Check potential errors
def x(a, b):
    # type: ([) -> a
    #?
    a
def x(a, b):
    # type: (1) -> a
    #?
    a
def x(a, b, c):
    # type: (str) -> a
    #?
    b
    #?
    c
