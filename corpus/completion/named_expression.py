# For assignment expressions / named expressions / walrus operators / whatever
# they are called.

b = (a:=1, a)

#? int()
b[0]
#?
b[1]

# Should not fail
b = ('':=1,)

#? int()
b[0]

def test_assignments():
    match = ''
    #? str()
    match
    #? 8 int()
    if match := 1:
        #? int()
        match
    #? int()
    match

def test_assignments2():
    class Foo:
        match = ''
    #? str()
    Foo.match
    #? 13 int()
    if Foo.match := 1:
        #? str()
        Foo.match
    #? str()
    Foo.match

    #?
    y
    #? 16 str()
    if y := Foo.match:
        #? str()
        y
    #? str()
    y

    #? 8 str()
    if z := Foo.match:
        pass
