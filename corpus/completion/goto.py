# goto command tests are different in syntax

definition = 3
#! 0 ['a = definition']
a = definition

#! []
b
#! ['a = definition']
a

b = a
c = b
#! ['c = b']
c

cd = 1
#! 1 ['cd = c']
cd = c
#! 0 ['cd = e']
cd = e

#! ['module math']
import math
#! ['module math']
math

#! ['module math']
b = math
#! ['b = math']
b

#! 18 ['foo = 10']
foo = 10;print(foo)

# -----------------
# classes
# -----------------
class C(object):
    x = 3
    def b(self):
        #! ['b = math']
        b
        #! ['def b']
        self.b
        #! 14 ['def b']
        self.b()
        #! 14 ['def b']
        self.b.
        #! 11 ['param self']
        self.b
        #! ['x = 3']
        self.x
        #! 14 ['x = 3']
        self.x.
        return 1

    #! ['def b']
    b

#! ['b = math']
b

#! ['def b']
C.b
#! ['def b']
C().b
#! 0 ['class C']
C().b
#! 0 ['class C']
C().b

D = C
#! ['def b']
D.b
#! ['def b']
D().b

#! 0 ['D = C']
D().b
#! 0 ['D = C']
D().b

def c():
    return ''

#! ['def c']
c
#! 0 ['def c']
c()


class ClassVar():
    x = 3

#! ['x = 3']
ClassVar.x
#! ['x = 3']
ClassVar().x

# before assignments
#! 10 ['x = 3']
ClassVar.x = ''
#! 12 ['x = 3']
ClassVar().x = ''

# Recurring use of the same var name, github #315
def f(t=None):
    #! 9 ['param t=None']
    t = t or 1


class X():
    pass

#! 3 []
X(foo=x)


# Multiple inheritance
class Foo:
    def foo(self):
        print("foo")
class Bar:
    def bar(self):
        print("bar")
class Baz(Foo, Bar):
    def baz(self):
        #! ['def foo']
        super().foo
        #! ['def bar']
        super().bar
        #! ['instance Foo']
        super()

# -----------------
# imports
# -----------------

#! ['module import_tree']
import import_tree
#! ["a = ''"]
import_tree.a

#! ['module mod1']
import import_tree.mod1
#! ['module mod1']
from import_tree.mod1
#! ['a = 1']
import_tree.mod1.a

#! ['module pkg']
import import_tree.pkg
#! ['a = list']
import_tree.pkg.a

#! ['module mod1']
import import_tree.pkg.mod1
#! ['a = 1.0']
import_tree.pkg.mod1.a
#! ["a = ''"]
import_tree.a

#! ['module mod1']
from import_tree.pkg import mod1
#! ['a = 1.0']
mod1.a

#! ['module mod1']
from import_tree import mod1
#! ['a = 1']
mod1.a

#! ['a = 1.0']
from import_tree.pkg.mod1 import a

#! ['module os']
from .imports import os

#! ['some_variable = 1']
from . import some_variable

# -----------------
# anonymous classes
# -----------------
def func():
    class A():
        def b(self):
            return 1
    return A()

#! 8 ['def b']
func().b()

# -----------------
# on itself
# -----------------

#! 7 ['class ClassDef']
class ClassDef():
    """ abc """
    pass

# -----------------
# params
# -----------------

param = ClassDef
#! 8 ['param param']
def ab1(param): pass
#! 9 ['param param']
def ab2(param): pass
#! 11 ['param = ClassDef']
def ab3(a=param): pass

ab1(ClassDef);ab2(ClassDef);ab3(ClassDef)

# -----------------
# for loops
# -----------------

for i in range(1):
    #! ['for i in range(1): i']
    i

for key, value in [(1,2)]:
    #! ['for key, value in [(1,2)]: key']
    key

#! 4 ['for y in [1]: y']
for y in [1]:
    #! ['for y in [1]: y']
    y

# -----------------
# decorator
# -----------------
def dec(dec_param=3):
    pass

#! 8 ['param dec_param=3']
@dec(dec_param=5)
def y():
    pass

class ClassDec():
    def class_func(func):
        return func

#! 14 ['def class_func']
@ClassDec.class_func
def x():
    pass

#! 2 ['class ClassDec']
@ClassDec.class_func
def z():
    pass
