from typing import List, Dict, overload, Tuple, TypeVar

lst: list
list_alias: List
list_str: List[str]
list_int: List[int]

# -------------------------
# With base classes
# -------------------------

@overload
def overload_f2(value: List) -> str: ...
@overload
def overload_f2(value: Dict) -> int: ...

#? str()
overload_f2([''])
#? int()
overload_f2({1.0: 1.0})
#? str()
overload_f2(lst)
#? str()
overload_f2(list_alias)
#? str()
overload_f2(list_str)


@overload
def overload_f3(value: list) -> str: ...
@overload
def overload_f3(value: dict) -> float: ...

#? str()
overload_f3([''])
#? float()
overload_f3({1.0: 1.0})
#? str()
overload_f3(lst)
#? str()
overload_f3(list_alias)
#? str()
overload_f3(list_str)

# -------------------------
# Generics Matching
# -------------------------

@overload
def overload_f1(value: List[str]) -> str: ...


@overload
def overload_f1(value: Dict[str, str]) -> Dict[str, str]: ...

def overload_f1():
    pass

#? str()
overload_f1([''])
#? str() dict()
overload_f1(1)
#? dict()
overload_f1({'': ''})

#? str() dict()
overload_f1(lst)
#? str() dict()
overload_f1(list_alias)
#? str()
overload_f1(list_str)
#? str() dict()
overload_f1(list_int)

# -------------------------
# Broken Matching
# -------------------------
T = TypeVar('T')

@overload
def broken_f1(value: 1) -> str: ...

@overload
def broken_f1(value: Tuple[T]) -> Tuple[T]: ...

tup: Tuple[float]
#? float()
broken_f1(broken_f1(tup))[0]
