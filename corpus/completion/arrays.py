# -----------------
# basic array lookups
# -----------------


#? int()
[1,""][0]
#? str()
[1,""][1]
#? int() str()
[1,""][2]
#? int() str()
[1,""][20]
#? int() str()
[1,""][str(hello)]

a = list()
#? list()
[a][0]

#? list()
[[a,a,a]][2][100]

c = [[a,""]]
#? str()
c[0][1]

b = [6,7]

#? int()
b[8-7]
# Something unreasonable:
#? int()
b['']

# -----------------
# Slices
# -----------------
#? list()
b[8:]

#? list()
b[int():]

#? list()
b[:]
#? int()
b[:, :-1]

#? 3
b[:]

#? int()
b[:, 1]
#? int()
b[:1, 1]
#? int()
b[1:1, 1]
#? int()
b[1:1:, ...]
#? int()
b[1:1:5, ...]

class _StrangeSlice():
    def __getitem__(self, sliced):
        return sliced

# Should not result in an error, just because the slice itself is returned.
#? slice()
_StrangeSlice()[1:2]

for x in b[:]:
    #? int()
    x

for x in b[:, :-1]:
    #?
    x

class Foo:
    def __getitem__(self, item):
        return item

#?
Foo()[:, :-1][0]

# -----------------
# iterable multiplication
# -----------------
a = ['']*2
#? list()
a

# -----------------
# tuple assignments
# -----------------
a1, b1 = (1, "")
#? int()
a1
#? str()
b1

(a2, b2) = (1, "")
#? int()
a2
#? str()
b2

# list assignment
[list1, list2] = (1, "")
#? int()
list1
#? str()
list2

[list3, list4] = [1, ""]
#? int()
list3
#? str()
list4

# -----------------
# subtuple assignment
# -----------------
(a3, (b3, c3)) = (1, ("", list))
#? list
c3

a4, (b4, c4) = (1, ("", list))
#? list
c4
#? int()
a4
#? str()
b4


# -----------------
# multiple assignments
# -----------------
a = b = 1
#? int()
a
#? int()
b

(a, b) = (c, (e, f)) = ('2', (3, 4))
#? str()
a
#? tuple()
b
#? str()
c
#? int()
e
#? int()
f


# -----------------
# unnessecary braces
# -----------------
a = (1)
#? int()
a
#? int()
(1)
#? int()
((1))
#? int()
((1)+1)

u, v = 1, ""
#? int()
u

((u1, v1)) = 1, ""
#? int()
u1
#? int()
(u1)

(a), b = 1, ''
#? int()
a

def a(): return ''
#? str()
(a)()
#? str()
(a)().title()
#? int()
(tuple).index()
#? int()
(tuple)().index()

class C():
    def __init__(self):
        self.a = (str()).upper()

#? str()
C().a

# -----------------
# imbalanced sides
# -----------------
(f, g) = (1,)
#? int()
f
#? int()
g

(f, g, h) = (1,'')
#? int()
f
#? str()
g
#? str()
h

(f1, g1) = 1
#? []
f1.
#? []
g1.

(f, g) = (1,'',1.0)
#? int()
f
#? str()
g

# -----------------
# setitem
# -----------------

class F:
    setitem_x = [1,2]
    setitem_x[0] = 3

#? ['setitem_x']
F().setitem_x
#? list()
F().setitem_x


# -----------------
# dicts
# -----------------
dic2 = {'asdf': 3, 'b': 'str'}
#? int()
dic2['asdf']
#? None int() str()
dic2.get('asdf')

# string literal
#? int()
dic2[r'asdf']
#? int()
dic2[r'asdf']
#? int()
dic2[r'as' 'd' u'f']
#? int() str()
dic2['just_something']

# unpacking
a, b = dic2
#? str()
a
a, b = {1: 'x', 2.0: 1j}
#? int() float()
a
#? int() float()
b


def f():
    """ github #83 """
    r = {}
    r['status'] = (200, 'ok')
    return r

#? dict()
f()

# completion within dicts
#? 9 ['str']
{str: str}

# iteration problem (detected with sith)
d = dict({'a':''})
def y(a):
    return a
#?
y(**d)

#? str()
d['a']

# problem with more complicated casts
dic = {str(key): ''}
#? str()
dic['']


for x in {1: 3.0, '': 1j}:
    #? int() str()
    x

#? ['__iter__']
dict().values().__iter__

d = dict(a=3, b='')
x, y, z = d.values()
#? int() str()
x
#? int() str()
y
#? int() str()
z
#? int()
d['a']
#? int() str() None
d.get('a')

some_dct = dict({'a': 1, 'b': ''}, a=1.0)
#? float()
some_dct['a']
#? str()
some_dct['b']
#? int() float() str()
some_dct['c']

class Foo:
    pass

objects = {object(): 1, Foo: '', Foo(): 3.0}
#? int() float() str()
objects[Foo]
#? int() float() str()
objects[Foo()]
#? int() float() str()
objects['']

# -----------------
# with variable as index
# -----------------
a = (1, "")
index = 1
#? str()
a[index]

# these should just ouput the whole array
index = int
#? int() str()
a[index]
index = int()
#? int() str()
a[index]

# dicts
index = 'asdf'

dic2 = {'asdf': 3, 'b': 'str'}
#? int()
dic2[index]

# -----------------
# __getitem__
# -----------------

class GetItem():
    def __getitem__(self, index):
        return 1.0

#? float()
GetItem()[0]

class GetItem():
    def __init__(self, el):
        self.el = el

    def __getitem__(self, index):
        return self.el

#? str()
GetItem("")[1]

class GetItemWithList():
    def __getitem__(self, index):
        return [1, 1.0, 's'][index]

#? float()
GetItemWithList()[1]

for i in 0, 2:
    #? int() str()
    GetItemWithList()[i]


# With super
class SuperYeah(list):
    def __getitem__(self, index):
        return super()[index]

#?
SuperYeah([1])[0]
#?
SuperYeah()[0]

# -----------------
# conversions
# -----------------

a = [1, ""]
#? int() str()
list(a)[1]

#? int() str()
list(a)[0]
#?
set(a)[0]

#? int() str()
list(set(a))[1]
#? int() str()
next(iter(set(a)))
#? int() str()
list(list(set(a)))[1]

# does not yet work, because the recursion catching is not good enough (catches # to much)
#? int() str()
list(set(list(set(a))))[1]
#? int() str()
list(set(set(a)))[1]

# frozenset
#? int() str()
list(frozenset(a))[1]
#? int() str()
list(set(frozenset(a)))[1]

# iter
#? int() str()
list(iter(a))[1]
#? int() str()
list(iter(list(set(a))))[1]

# tuple
#? int() str()
tuple(a)[1]
#? int() str()
tuple(list(set(a)))[1]

#? int()
tuple((1,))[0]

# implementation detail for lists, should not be visible
#? []
list().__iterable

# With a list comprehension.
for i in set(a for a in [1]):
    #? int()
    i


# -----------------
# Merged Arrays
# -----------------

for x in [1] + ['']:
    #? int() str()
    x

# -----------------
# Potential Recursion Issues
# -----------------
class X():
    def y(self):
        self.a = [1]

    def x(self):
        self.a = list(self.a)
        #? int()
        self.a[0]

# -----------------
# For loops with attribute assignment.
# -----------------
def test_func():
    x = 'asdf'
    for x.something in [6,7,8]:
        pass
    #? str()
    x

    for x.something, b in [[6, 6.0]]:
        pass
    #? str()
    x


#? int()
tuple({1})[0]

# -----------------
# PEP 3132 Extended Iterable Unpacking (star unpacking)
# -----------------

a, *b, c = [1, 'b', list, dict]
#? int()
a
#?
b
#? list
c

# Not valid syntax
a, *b, *c = [1, 'd', list]
#? int()
a
#?
b
#?
c

lc = [x for a, *x in [(1, '', 1.0)]]

#?
lc[0][0]
#?
lc[0][1]


xy = (1,)
x, y = *xy, None

# whatever it is should not crash
#?
x
