def find_class():
    """ This scope is special, because its in front of TestClass """
    #? ['ret']
    TestClass.ret
    if 1:
        #? ['ret']
        TestClass.ret

class FindClass():
    #? []
    TestClass.ret
    if a:
        #? []
        TestClass.ret

    def find_class(self):
        #? ['ret']
        TestClass.ret
        if 1:
            #? ['ret']
            TestClass.ret

#? []
FindClass().find_class.self
#? []
FindClass().find_class.self.find_class

# set variables, which should not be included, because they don't belong to the
# class
second = 1
second = ""
class TestClass(object):
    var_class = TestClass(1)
    self.pseudo_var = 3

    def __init__(self2, first_param, second_param, third=1.0):
        self2.var_inst = first_param
        self2.second = second_param
        self2.first = first_param
        self2.first.var_on_argument = 5
        a = 3

    def var_func(self):
        return 1

    def get_first(self):
        # traversal
        self.second_new = self.second
        return self.var_inst

    def values(self):
        self.var_local = 3
        #? ['var_class', 'var_func', 'var_inst', 'var_local']
        self.var_
        #?
        var_local

    def ret(self, a1):
        # should not know any class functions!
        #? []
        values
        #?
        values
        #? ['return']
        ret
        return a1

# should not work
#? []
var_local
#? []
var_inst
#? []
var_func

# instance
inst = TestClass(1)

#? ['var_class', 'var_func', 'var_inst', 'var_local']
inst.var

#? ['var_class', 'var_func']
TestClass.var

#? int()
inst.var_local
#? []
TestClass.var_local.
#?
TestClass.pseudo_var
#?
TestClass().pseudo_var

#? int()
TestClass().ret(1)
# Should not return int(), because we want the type before `.ret(1)`.
#? 11 TestClass()
TestClass().ret(1)
#? int()
inst.ret(1)

myclass = TestClass(1, '', 3.0)
#? int()
myclass.get_first()
#? []
myclass.get_first.real

# too many params
#? int()
TestClass(1,1,1).var_inst

# too few params
#? int()
TestClass(1).first
#? []
TestClass(1).second.

# complicated variable settings in class
#? str()
myclass.second
#? str()
myclass.second_new

# multiple classes / ordering
ints = TestClass(1, 1.0)
strs = TestClass("", '')
#? float()
ints.second
#? str()
strs.second

#? ['var_class']
TestClass.var_class.var_class.var_class.var_class

# operations (+, *, etc) shouldn't be InstanceElements - #246
class A():
    def __init__(self):
        self.addition = 1 + 2
#? int()
A().addition

# should also work before `=`
#? 8 int()
A().addition = None
#? 8 int()
A(1).addition = None
#? 1 A
A(1).addition = None
a = A()
#? 8 int()
a.addition = None


# -----------------
# inheritance
# -----------------

class Base(object):
    def method_base(self):
        return 1

class SuperClass(Base):
    class_super = 3
    def __init__(self):
        self.var_super = ''
    def method_super(self):
        self.var2_super = list

class Mixin(SuperClass):
    def method_mixin(self):
        return int

#? 20 SuperClass
class SubClass(SuperClass):
    class_sub = 3
    def __init__(self):
        self.var_sub = ''
    def method_sub(self):
        self.var_sub = list
        return tuple

instance = SubClass()

#? ['method_base', 'method_sub', 'method_super']
instance.method_
#? ['var2_super', 'var_sub', 'var_super']
instance.var
#? ['class_sub', 'class_super']
instance.class_

#? ['method_base', 'method_sub', 'method_super']
SubClass.method_
#? []
SubClass.var
#? ['class_sub', 'class_super']
SubClass.class_

# -----------------
# inheritance of builtins
# -----------------

class Base(str):
    pass

#? ['upper']
Base.upper
#? ['upper']
Base().upper

# -----------------
# dynamic inheritance
# -----------------

class Angry(object):
    def shout(self):
        return 'THIS IS MALARKEY!'

def classgetter():
    return Angry

class Dude(classgetter()):
    def react(self):
        #? ['shout']
        self.s

# -----------------
# multiple inheritance # 1071
# -----------------

class FactorMixin(object):
    FACTOR_1 = 0.1

class Calc(object):
    def sum(self, a, b):
        self.xxx = 3
        return a + b

class BetterCalc(Calc, FactorMixin):
    def multiply_factor(self, a):
        return a * self.FACTOR_1

calc = BetterCalc()
#? ['sum']
calc.sum
#? ['multiply_factor']
calc.multip
#? ['FACTOR_1']
calc.FACTOR_1
#? ['xxx']
calc.xxx

# -----------------
# __call__
# -----------------

class CallClass():
    def __call__(self):
        return 1

#? int()
CallClass()()

# -----------------
# variable assignments
# -----------------

class V:
    def __init__(self, a):
        self.a = a

    def ret(self):
        return self.a

    d = b
    b = ret
    if 1:
        c = b

#? int()
V(1).b()
#? int()
V(1).c()
#?
V(1).d()
# Only keywords should be possible to complete.
#? ['is', 'in', 'not', 'and', 'or', 'if']
V(1).d() 


# -----------------
# ordering
# -----------------
class A():
    def b(self):
        #? int()
        a_func()
        #? str()
        self.a_func()
        return a_func()

    def a_func(self):
        return ""

def a_func():
    return 1

#? int()
A().b()
#? str()
A().a_func()

# -----------------
# nested classes
# -----------------
class A():
    class B():
        pass
    def b(self):
        return 1.0

#? float()
A().b()

class A():
    def b(self):
        class B():
            def b(self):
                return []
        return B().b()

#? list()
A().b()

# -----------------
# ducktyping
# -----------------

def meth(self):
    return self.a, self.b

class WithoutMethod():
    a = 1
    def __init__(self):
        self.b = 1.0
    def blub(self):
        return self.b
    m = meth

class B():
    b = ''

a = WithoutMethod().m()
#? int()
a[0]
#? float()
a[1]

#? float()
WithoutMethod.blub(WithoutMethod())
#? str()
WithoutMethod.blub(B())

# -----------------
# __getattr__ / getattr() / __getattribute__
# -----------------

#? str().upper
getattr(str(), 'upper')
#? str.upper
getattr(str, 'upper')

# some strange getattr calls
#?
getattr(str, 1)
#?
getattr()
#?
getattr(str)
#?
getattr(getattr, 1)
#?
getattr(str, [])


class Base():
    def ret(self, b):
        return b

class Wrapper():
    def __init__(self, obj):
        self.obj = obj

    def __getattr__(self, name):
        return getattr(self.obj, name)

class Wrapper2():
    def __getattribute__(self, name):
        return getattr(Base(), name)

#? int()
Wrapper(Base()).ret(3)
#? ['ret']
Wrapper(Base()).ret
#? int()
Wrapper(Wrapper(Base())).ret(3)
#? ['ret']
Wrapper(Wrapper(Base())).ret

#? int()
Wrapper2(Base()).ret(3)

class GetattrArray():
    def __getattr__(self, name):
        return [1]

#? int()
GetattrArray().something[0]
#? []
GetattrArray().something

class WeirdGetattr:
    class __getattr__():
        pass

#? []
WeirdGetattr().something


# -----------------
# private vars
# -----------------
class PrivateVar():
    def __init__(self):
        self.__var = 1
        #? int()
        self.__var
        #? ['__var']
        self.__var

    def __private_func(self):
        return 1

    #? int()
    __private_func()

    def wrap_private(self):
        return self.__private_func()
#? []
PrivateVar().__var
#?
PrivateVar().__var
#? []
PrivateVar().__private_func
#? []
PrivateVar.__private_func
#? int()
PrivateVar().wrap_private()


class PrivateSub(PrivateVar):
    def test(self):
        #? []
        self.__var

    def wrap_private(self):
        #? []
        self.__var

#? []
PrivateSub().__var

# -----------------
# super
# -----------------
class Super(object):
    a = 3
    def return_sup(self):
        return 1
SuperCopy = Super

class TestSuper(Super):
    #?
    super()
    def test(self):
        #? SuperCopy()
        super()
        #? ['a']
        super().a
        if 1:
            #? SuperCopy()
            super()
        def a():
            #?
            super()

    def return_sup(self):
        #? int()
        return super().return_sup()

#? int()
TestSuper().return_sup()


Super = 3

class Foo():
    def foo(self):
        return 1
# Somehow overwriting the same name caused problems (#1044)
class Foo(Foo):
    def foo(self):
        #? int()
        super().foo()

# -----------------
# if flow at class level
# -----------------
class TestX(object):
    def normal_method(self):
        return 1

    if True:
        def conditional_method(self):
            var = self.normal_method()
            #? int()
            var
            return 2

    def other_method(self):
        var = self.conditional_method()
        #? int()
        var

# -----------------
# mro method
# -----------------

class A(object):
    a = 3

#? ['mro']
A.mro
#? []
A().mro


# -----------------
# mro resolution
# -----------------

class B(A()):
    b = 3

#?
B.a
#?
B().a
#? int()
B.b
#? int()
B().b


# -----------------
# With import
# -----------------

from import_tree.classes import Config2, BaseClass

class Config(BaseClass):
    """#884"""

#? Config2()
Config.mode

#? int()
Config.mode2


# -----------------
# Nested class/def/class
# -----------------
class Foo(object):
    a = 3
    def create_class(self):
        class X():
            a = self.a
            self.b = 3.0
        return X

#? int()
Foo().create_class().a
#? float()
Foo().b

class Foo(object):
    def comprehension_definition(self):
        return [1 for self.b in [1]]

#? int()
Foo().b

# -----------------
# default arguments
# -----------------

default = ''
class DefaultArg():
    default = 3
    def x(self, arg=default):
        #? str()
        default
        return arg
    def y(self):
        return default

#? int()
DefaultArg().x()
#? str()
DefaultArg().y()
#? int()
DefaultArg.x()
#? str()
DefaultArg.y()


# -----------------
# Error Recovery
# -----------------

from import_tree.pkg.base import MyBase

class C1(MyBase):
    def f3(self):
        #! 13 ['def f1']
        self.f1() . # hey'''
        #? 13 MyBase.f1
        self.f1() . # hey'''

# -----------------
# With a very weird __init__
# -----------------

class WithWeirdInit:
    class __init__:
        def __init__(self, a):
            self.a = a

    def y(self):
        return self.a


#?
WithWeirdInit(1).y()
