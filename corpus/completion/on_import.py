def from_names():
    #? ['mod1', 'base']
    from import_tree.pkg.
    #? ['path']
    from os.

def from_names_goto():
    from import_tree import pkg
    #? pkg
    from import_tree.pkg

def builtin_test():
    #? ['math']
    import math
    #? ['mmap']
    import mmap

# -----------------
# completions within imports
# -----------------

#? ['sqlite3']
import sqlite3

# classes is a local module that has an __init__.py and can therefore not be
# found.
#? []
import classes

#? ['timedelta']
from datetime import timedel
#? 21 []
from datetime.timedel import timedel

# should not be possible, because names can only be looked up 1 level deep.
#? []
from datetime.timedelta import resolution
#? []
from datetime.timedelta import 

#? ['Cursor']
from sqlite3 import Cursor

#? ['some_variable']
from . import some_variable
#? ['arrays']
from . import arrays
#? []
from . import import_tree as ren
#? []
import json as 

import os
#? os.path.join
from os.path import join

# -----------------
# special positions -> edge cases
# -----------------
import datetime

#? 6 datetime
from datetime.time import time

#? []
import datetime.
#? []
import datetime.date

#? 21 ['import']
from import_tree.pkg import pkg
#? 49 ['a', 'foobar', '__name__', '__doc__', '__file__', '__package__']
from import_tree.pkg.mod1 import not_existant,    # whitespace before
#? ['a', 'foobar', '__name__', '__doc__', '__file__', '__package__']
from import_tree.pkg.mod1 import not_existant, 
#? 22 ['mod1', 'base']
from import_tree.pkg. import mod1
#? 17 ['mod1', 'mod2', 'random', 'pkg', 'references', 'rename1', 'rename2', 'classes', 'globals', 'recurse_class1', 'recurse_class2', 'invisible_pkg', 'flow_import']
from import_tree. import new_pkg

#? 18 ['pkg']
from import_tree.p import pkg

#? 17 ['import_tree']
from .import_tree import 
#? 10 ['run']
from ..run import 
#? ['run']
from ..run
#? 10 ['run']
from ..run.
#? []
from ..run.

#? ['run']
from .. import run

#? []
from not_a_module import 


#137
import json
#? 23 json.dump
from json import load, dump
#? 17 json.load
from json import load, dump
# without the from clause:
import json, datetime
#? 7 json
import json, datetime
#? 13 datetime
import json, datetime

