import typing
from typing import (
    Callable,
    Dict,
    Generic,
    List,
    Sequence,
    Tuple,
    Type,
    TypeVar,
)

T = TypeVar('T')


def foo(x: T) -> T:
    return x


class CustomGeneric(Generic[T]):
    def __init__(self, val: T) -> None:
        self.val = val


class PlainClass(object):
    pass


tpl = ("1", 2)
tpl_typed: Tuple[str, int] = ("2", 3)

collection = {"a": 1}
collection_typed: Dict[str, int] = {"a": 1}

list_of_ints: List[int] = [42]
list_of_funcs: List[Callable[[T], T]] = [foo]

custom_generic = CustomGeneric(123.45)

plain_instance = PlainClass()


# Test that simple parameters are handled
def list_t_to_list_t(the_list: List[T]) -> List[T]:
    return the_list

x0 = list_t_to_list_t("abc")[0]
#?
x0

x1 = list_t_to_list_t(foo)[0]
#?
x1

x1 = list_t_to_list_t(typing)[0]
#?
x1

x2 = list_t_to_list_t(tpl)[0]
#?
x2

x3 = list_t_to_list_t(tpl_typed)[0]
#?
x3

x4 = list_t_to_list_t(collection)[0]
#?
x4

x5 = list_t_to_list_t(collection_typed)[0]
#?
x5

x6 = list_t_to_list_t(custom_generic)[0]
#?
x6

x7 = list_t_to_list_t(plain_instance)[0]
#?
x7

for a in list_t_to_list_t(12):
    #?
    a


# Test that simple parameters are handled
def list_type_t_to_list_t(the_list: List[Type[T]]) -> List[T]:
    return [x() for x in the_list]

x0 = list_type_t_to_list_t("abc")[0]
#?
x0

x1 = list_type_t_to_list_t(foo)[0]
#?
x1

x2 = list_type_t_to_list_t(tpl)[0]
#?
x2

x3 = list_type_t_to_list_t(tpl_typed)[0]
#?
x3

x4 = list_type_t_to_list_t(collection)[0]
#?
x4

x5 = list_type_t_to_list_t(collection_typed)[0]
#?
x5

x6 = list_type_t_to_list_t(custom_generic)[0]
#?
x6

x7 = list_type_t_to_list_t(plain_instance)[0]
#?
x7

for a in list_type_t_to_list_t(12):
    #?
    a


x0 = list_type_t_to_list_t(["abc"])[0]
#?
x0

x1 = list_type_t_to_list_t([foo])[0]
#?
x1

x2 = list_type_t_to_list_t([tpl])[0]
#?
x2

x3 = list_type_t_to_list_t([tpl_typed])[0]
#?
x3

x4 = list_type_t_to_list_t([collection])[0]
#?
x4

x5 = list_type_t_to_list_t([collection_typed])[0]
#?
x5

x6 = list_type_t_to_list_t([custom_generic])[0]
#?
x6

x7 = list_type_t_to_list_t([plain_instance])[0]
#?
x7

for a in list_type_t_to_list_t([12]):
    #?
    a


def list_func_t_to_list_t(the_list: List[Callable[[T], T]]) -> List[T]:
    # Not actually a viable signature, but should be enough to test our handling
    # of the generic parameters.
    pass


x0 = list_func_t_to_list_t("abc")[0]
#?
x0

x1 = list_func_t_to_list_t(foo)[0]
#?
x1

x2 = list_func_t_to_list_t(tpl)[0]
#?
x2

x3 = list_func_t_to_list_t(tpl_typed)[0]
#?
x3

x4 = list_func_t_to_list_t(collection)[0]
#?
x4

x5 = list_func_t_to_list_t(collection_typed)[0]
#?
x5

x6 = list_func_t_to_list_t(custom_generic)[0]
#?
x6

x7 = list_func_t_to_list_t(plain_instance)[0]
#?
x7

for a in list_func_t_to_list_t(12):
    #?
    a


x0 = list_func_t_to_list_t(["abc"])[0]
#?
x0

x2 = list_func_t_to_list_t([tpl])[0]
#?
x2

x3 = list_func_t_to_list_t([tpl_typed])[0]
#?
x3

x4 = list_func_t_to_list_t([collection])[0]
#?
x4

x5 = list_func_t_to_list_t([collection_typed])[0]
#?
x5

x6 = list_func_t_to_list_t([custom_generic])[0]
#?
x6

x7 = list_func_t_to_list_t([plain_instance])[0]
#?
x7

for a in list_func_t_to_list_t([12]):
    #?
    a


def tuple_t(tuple_in: Tuple[T]]) -> Sequence[T]:
    return tuple_in


x0 = list_t_to_list_t("abc")[0]
#?
x0

x1 = list_t_to_list_t(foo)[0]
#?
x1

x2 = list_t_to_list_t(tpl)[0]
#?
x2

x3 = list_t_to_list_t(tpl_typed)[0]
#?
x3

x4 = list_t_to_list_t(collection)[0]
#?
x4

x5 = list_t_to_list_t(collection_typed)[0]
#?
x5

x6 = list_t_to_list_t(custom_generic)[0]
#?
x6

x7 = list_t_to_list_t(plain_instance)[0]
#?
x7

for a in list_t_to_list_t(12):
    #?
    a


def tuple_t_elipsis(tuple_in: Tuple[T, ...]]) -> Sequence[T]:
    return tuple_in


x0 = list_t_to_list_t("abc")[0]
#?
x0

x1 = list_t_to_list_t(foo)[0]
#?
x1

x2 = list_t_to_list_t(tpl)[0]
#?
x2

x3 = list_t_to_list_t(tpl_typed)[0]
#?
x3

x4 = list_t_to_list_t(collection)[0]
#?
x4

x5 = list_t_to_list_t(collection_typed)[0]
#?
x5

x6 = list_t_to_list_t(custom_generic)[0]
#?
x6

x7 = list_t_to_list_t(plain_instance)[0]
#?
x7

for a in list_t_to_list_t(12):
    #?
    a


def list_tuple_t_to_tuple_list_t(the_list: List[Tuple[T]]) -> Tuple[List[T], ...]:
    return tuple(list(x) for x in the_list)


for b in list_tuple_t_to_tuple_list_t(list_of_ints):
    #?
    b[0]


def list_tuple_t_elipsis_to_tuple_list_t(the_list: List[Tuple[T, ...]]) -> Tuple[List[T], ...]:
    return tuple(list(x) for x in the_list)


for b in list_tuple_t_to_tuple_list_t(list_of_ints):
    #?
    b[0]
