from pep0484_generic_parameters import list_t_to_list_t

list_of_ints_and_strs: list[int | str]

# Test that unions are handled
x2 = list_t_to_list_t(list_of_ints_and_strs)[0]
#? int() str()
x2

for z in list_t_to_list_t(list_of_ints_and_strs):
    #? int() str()
    z


from pep0484_generic_passthroughs import (
    typed_variadic_tuple_generic_passthrough,
)

variadic_tuple_str_int: tuple[int | str, ...]

for m in typed_variadic_tuple_generic_passthrough(variadic_tuple_str_int):
    #? str() int()
    m


def func_returns_byteslike() -> bytes | bytearray:
    pass

#? bytes() bytearray()
func_returns_byteslike()


pep604_optional_1: int | str | None
pep604_optional_2: None | bytes

#? int() str() None
pep604_optional_1

#? None bytes()
pep604_optional_2


pep604_in_str: "int | bytes"

#? int() bytes()
pep604_in_str
