from typing import (
    Any,
    Callable,
    Iterable,
    List,
    Sequence,
    Tuple,
    Type,
    TypeVar,
    Union,
    Generic,
)

T = TypeVar('T')
U = TypeVar('U')
TList = TypeVar('TList', bound=List[Any])
TType = TypeVar('TType', bound=Type)
TTypeAny = TypeVar('TTypeAny', bound=Type[Any])
TCallable = TypeVar('TCallable', bound=Callable[..., Any])

untyped_list_str = ['abc', 'def']
typed_list_str: List[str] = ['abc', 'def']

untyped_tuple_str = ('abc',)
typed_tuple_str: Tuple[str] = ('abc',)

untyped_tuple_str_int = ('abc', 4)
typed_tuple_str_int: Tuple[str, int] = ('abc', 4)

variadic_tuple_str: Tuple[str, ...] = ('abc',)
variadic_tuple_str_int: Tuple[Union[str, int], ...] = ('abc', 4)


def untyped_passthrough(x):
    return x

def typed_list_generic_passthrough(x: List[T]) -> List[T]:
    return x

def typed_tuple_generic_passthrough(x: Tuple[T]) -> Tuple[T]:
    return x

def typed_multi_typed_tuple_generic_passthrough(x: Tuple[T, U]) -> Tuple[U, T]:
    return x[1], x[0]

def typed_variadic_tuple_generic_passthrough(x: Tuple[T, ...]) -> Sequence[T]:
    return x

def typed_iterable_generic_passthrough(x: Iterable[T]) -> Iterable[T]:
    return x

def typed_fully_generic_passthrough(x: T) -> T:
    return x

def typed_bound_generic_passthrough(x: TList) -> TList:
    #? list()
    x

    return x

# Forward references are more likely with custom types, however this aims to
# test just the handling of the quoted type rather than any other part of the
# machinery.
def typed_quoted_return_generic_passthrough(x: T) -> 'List[T]':
    return [x]

def typed_quoted_input_generic_passthrough(x: 'Tuple[T]') -> T:
    x
    return x[0]


for a in untyped_passthrough(untyped_list_str):
    #? str()
    a

for b in untyped_passthrough(typed_list_str):
    #? str()
    b


for c in typed_list_generic_passthrough(untyped_list_str):
    #? str()
    c

for d in typed_list_generic_passthrough(typed_list_str):
    #? str()
    d


for e in typed_iterable_generic_passthrough(untyped_list_str):
    #? str()
    e

for f in typed_iterable_generic_passthrough(typed_list_str):
    #? str()
    f


for g in typed_tuple_generic_passthrough(untyped_tuple_str):
    #? str()
    g

for h in typed_tuple_generic_passthrough(typed_tuple_str):
    #? str()
    h


out_untyped = typed_multi_typed_tuple_generic_passthrough(untyped_tuple_str_int)
#? int()
out_untyped[0]
#? str()
out_untyped[1]


out_typed = typed_multi_typed_tuple_generic_passthrough(typed_tuple_str_int)
#? int()
out_typed[0]
#? str()
out_typed[1]


for j in typed_variadic_tuple_generic_passthrough(untyped_tuple_str_int):
    #? str() int()
    j

for k in typed_variadic_tuple_generic_passthrough(typed_tuple_str_int):
    #? str() int()
    k

for l in typed_variadic_tuple_generic_passthrough(variadic_tuple_str):
    #? str()
    l

for m in typed_variadic_tuple_generic_passthrough(variadic_tuple_str_int):
    #? str() int()
    m

#? float
typed_fully_generic_passthrough(float)

for n in typed_fully_generic_passthrough(untyped_list_str):
    #? str()
    n

for o in typed_fully_generic_passthrough(typed_list_str):
    #? str()
    o


for p in typed_bound_generic_passthrough(untyped_list_str):
    #? str()
    p

for q in typed_bound_generic_passthrough(typed_list_str):
    #? str()
    q


for r in typed_quoted_return_generic_passthrough("something"):
    #? str()
    r

for s in typed_quoted_return_generic_passthrough(42):
    #? int()
    s


#? str()
typed_quoted_input_generic_passthrough(("something",))

#? int()
typed_quoted_input_generic_passthrough((42,))



class CustomList(List):
    def get_first(self):
        return self[0]


#? str()
CustomList[str]()[0]
#? str()
CustomList[str]().get_first()

#? str()
typed_fully_generic_passthrough(CustomList[str]())[0]
#?
typed_list_generic_passthrough(CustomList[str])[0]


def typed_bound_type_implicit_any_generic_passthrough(x: TType) -> TType:
    #? Type()
    x
    return x

def typed_bound_type_any_generic_passthrough(x: TTypeAny) -> TTypeAny:
    # Should be Type(), though we don't get the handling of the nested argument
    # to `Type[...]` quite right here.
    x
    return x


class MyClass:
    pass

def my_func(a: str, b: int) -> float:
    pass

#? MyClass
typed_fully_generic_passthrough(MyClass)

#? MyClass()
typed_fully_generic_passthrough(MyClass())

#? my_func
typed_fully_generic_passthrough(my_func)

#? CustomList()
typed_bound_generic_passthrough(CustomList[str]())

# should be list(), but we don't validate generic typevar upper bounds
#? int()
typed_bound_generic_passthrough(42)

#? MyClass
typed_bound_type_implicit_any_generic_passthrough(MyClass)

#? MyClass
typed_bound_type_any_generic_passthrough(MyClass)

# should be Type(), but we don't validate generic typevar upper bounds
#? int()
typed_bound_type_implicit_any_generic_passthrough(42)

# should be Type(), but we don't validate generic typevar upper bounds
#? int()
typed_bound_type_any_generic_passthrough(42)


def decorator(fn: TCallable) -> TCallable:
    pass


def will_be_decorated(the_param: complex) -> float:
    pass


is_decorated = decorator(will_be_decorated)

#? will_be_decorated
is_decorated

#? ['the_param=']
is_decorated(the_para
)


class class_decorator_factory_plain:
    def __call__(self, func: T) -> T:
        ...

#? class_decorator_factory_plain()
class_decorator_factory_plain()

#?
class_decorator_factory_plain()()

is_decorated_by_class_decorator_factory = class_decorator_factory_plain()(will_be_decorated)

#? will_be_decorated
is_decorated_by_class_decorator_factory

#? ['the_param=']
is_decorated_by_class_decorator_factory(the_par
)


def decorator_factory_plain() -> Callable[[T], T]:
    pass

#? Callable()
decorator_factory_plain()

#?
decorator_factory_plain()()

#? int()
decorator_factory_plain()(42)

is_decorated_by_plain_factory = decorator_factory_plain()(will_be_decorated)

#? will_be_decorated
is_decorated_by_plain_factory

#? ['the_param=']
is_decorated_by_plain_factory(the_par
)


class class_decorator_factory_bound_callable:
    def __call__(self, func: TCallable) -> TCallable:
        ...

#? class_decorator_factory_bound_callable()
class_decorator_factory_bound_callable()

#? Callable()
class_decorator_factory_bound_callable()()

is_decorated_by_class_bound_factory = class_decorator_factory_bound_callable()(will_be_decorated)

#? will_be_decorated
is_decorated_by_class_bound_factory

#? ['the_param=']
is_decorated_by_class_bound_factory(the_par
)


def decorator_factory_bound_callable() -> Callable[[TCallable], TCallable]:
    pass

#? Callable()
decorator_factory_bound_callable()

#? Callable()
decorator_factory_bound_callable()()

is_decorated_by_bound_factory = decorator_factory_bound_callable()(will_be_decorated)

#? will_be_decorated
is_decorated_by_bound_factory

#? ['the_param=']
is_decorated_by_bound_factory(the_par
)


class That(Generic[T]):
    def __init__(self, items: List[Tuple[str, T]]) -> None:
        pass

    def get(self) -> T:
        pass

inst = That([("abc", 2)])

# No completions here, but should have completions for `int`
#? int()
inst.get()
