"""
Renaming tests. This means search for references.
I always leave a little bit of space to add room for additions, because the
results always contain position informations.
"""
#< 4 (0,4), (3,0), (5,0), (12,4), (14,5), (15,0), (17,0), (19,0)
def abcd(): pass

#< 0 (-3,4), (0,0), (2,0), (9,4), (11,5), (12,0), (14,0), (16,0)
abcd.d.a.bsaasd.abcd.d

abcd
# unicode chars shouldn't be a problem.
x['smörbröd'].abcd

# With the new parser these statements are not recognized as stateents, because
# they are not valid Python.
if 1:
    abcd = 
else:
    (abcd) = 
abcd = 
#< (-17,4), (-14,0), (-12,0), (0,0), (2,0), (-2,0), (-3,5), (-5,4)
abcd

abcd = 5


Abc = 3

#< 6 (-3,0), (0,6), (2,4), (5,8), (17,0)
class Abc():
    #< (-5,0), (-2,6), (0,4), (2,8), (3,8), (15,0)
    Abc

    def Abc(self):
        Abc; self.c = 3

    #< 17 (0,16), (2,8)
    def a(self, Abc):
        #< 10 (-2,16), (0,8)
        Abc

    #< 19 (0,18), (2,8)
    def self_test(self):
        #< 12 (-2,18), (0,8)
        self.b

Abc.d.Abc


#< 4 (0,4), (5,1)
def blubi():
    pass


#< (-5,4), (0,1)
@blubi
def a(): pass


#< 0 (0,0), (1,0)
set_object_var = object()
set_object_var.var = 1

def func(a, b):
    a = 12
    #< 4 (0,4), (3,8)
    c = a
    if True:
        #< 8 (-3,4), (0,8)
        c = b

response = 5
#< 0 (-2,0), (0,0), (1,0), (2,0), (4,0)
response = HttpResponse(mimetype='application/pdf')
response['Content-Disposition'] = 'attachment; filename=%s.pdf' % id
response.write(pdf)
#< (-6,0), (-4,0), (-3,0), (-2,0), (0,0)
response


# -----------------
# imports
# -----------------
#< (0,7), (3,0)
import module_not_exists

#< (-3,7), (0,0)
module_not_exists


#< ('import_tree.rename1', 1,0), (0,24), (3,0), (6,17), ('import_tree.rename2', 4,17), (11,17), (14,17), ('imports', 72, 16)
from import_tree import rename1

#< (0,8), ('import_tree.rename1',3,0), ('import_tree.rename2',4,32), ('import_tree.rename2',6,0), (3,32), (8,32), (5,0)
rename1.abc

#< (-3,8), ('import_tree.rename1', 3,0), ('import_tree.rename2', 4,32), ('import_tree.rename2', 6,0), (0,32), (5,32), (2,0)
from import_tree.rename1 import abc
#< (-5,8), (-2,32), ('import_tree.rename1', 3,0), ('import_tree.rename2', 4,32), ('import_tree.rename2', 6,0), (0,0), (3,32)
abc

#< 20 ('import_tree.rename1', 1,0), ('import_tree.rename2', 4,17), (-11,24), (-8,0), (-5,17), (0,17), (3,17), ('imports', 72, 16)
from import_tree.rename1 import abc

#< (0, 32),
from import_tree.rename1 import not_existing

# Shouldn't raise an error or do anything weird.
from not_existing import *

# -----------------
# classes
# -----------------

class TestMethods(object):
    #< 8 (0,8), (2,13)
    def a_method(self):
        #< 13 (-2,8), (0,13)
        self.a_method()
        #< 13 (2,8), (0,13), (3,13)
        self.b_method()

    def b_method(self):
        self.b_method


class TestClassVar(object):
    #< 4 (0,4), (5,13), (7,21)
    class_v = 1
    def a(self):
        class_v = 1

        #< (-5,4), (0,13), (2,21)
        self.class_v
        #< (-7,4), (-2,13), (0,21)
        TestClassVar.class_v
        #< (0,8), (-7, 8)
        class_v

class TestInstanceVar():
    def a(self):
        #< 13 (4,13), (0,13)
        self._instance_var = 3

    def b(self):
        #< (-4,13), (0,13)
        self._instance_var
        # A call to self used to trigger an error, because it's also a trailer
        # with two children.
        self()


class NestedClass():
    def __getattr__(self, name):
        return self

# Shouldn't find a definition, because there's other `instance`.
#< (0, 14),
NestedClass().instance


# -----------------
# inheritance
# -----------------
class Super(object):
    #< 4 (0,4), (23,18), (25,13)
    base_class = 1
    #< 4 (0,4),
    class_var = 1

    #< 8 (0,8),
    def base_method(self):
        #< 13 (0,13), (20,13)
        self.base_var = 1
        #< 13 (0,13),
        self.instance_var = 1

    #< 8 (0,8),
    def just_a_method(self): pass


#< 20 (0,16), (-18,6)
class TestClass(Super):
    #< 4 (0,4),
    class_var = 1

    def x_method(self):

        #< (0,18), (2,13), (-23,4)
        TestClass.base_class
        #< (-2,18), (0,13), (-25,4)
        self.base_class
        #< (-20,13), (0,13)
        self.base_var
        #< (0, 18),
        TestClass.base_var


        #< 13 (5,13), (0,13)
        self.instance_var = 3

    #< 9 (0,8), 
    def just_a_method(self):
        #< (-5,13), (0,13)
        self.instance_var


# -----------------
# properties
# -----------------
class TestProperty:

    @property
    #< 10 (0,8), (5,13)
    def prop(self):
        return 1

    def a(self):
        #< 13 (-5,8), (0,13)
        self.prop

    @property
    #< 13 (0,8), (4,5), (6,8), (11,13)
    def rw_prop(self):
        return self._rw_prop

    #< 8 (-4,8), (0,5), (2,8), (7,13)
    @rw_prop.setter
    #< 8 (-6,8), (-2,5), (0,8), (5,13)
    def rw_prop(self, value):
        self._rw_prop = value

    def b(self):
        #< 13 (-11,8), (-7,5), (-5,8), (0,13)
        self.rw_prop

# -----------------
# *args, **kwargs
# -----------------
#< 11 (1,11), (0,8)
def f(**kwargs):
    return kwargs


# -----------------
# No result
# -----------------
if isinstance(j, int):
    #< (0, 4),
    j

# -----------------
# Dynamic Param Search
# -----------------

class DynamicParam():
    def foo(self):
        return

def check(instance):
    #< 13 (-5,8), (0,13)
    instance.foo()

check(DynamicParam())

# -----------------
# Compiled Objects
# -----------------

import _sre

# TODO reenable this, it's currently not working, because of 2/3
# inconsistencies in typeshed (_sre exists in typeshed/2, but not in
# typeshed/3).
##< 0 (-3,7), (0,0), ('_sre', None, None)
_sre

# -----------------
# on syntax
# -----------------

#< 0
import undefined

# -----------------
# comprehensions
# -----------------

#< 0 (0,0), (2,12)
x = 32
#< 12 (-2,0), (0,12)
[x for x in x]

#< 0 (0,0), (2,1), (2,12)
y = 32
#< 12 (-2,0), (0,1), (0,12)
[y for b in y]


#< 1 (0,1), (0,7)
[x for x in something]
#< 7 (0,1), (0,7)
[x for x in something]

z = 3
#< 1 (0,1), (0,10)
{z:1 for  z in something}
#< 10 (0,1), (0,10)
{z:1 for  z in something}

#< 8 (0,6), (0, 40)
[[x + nested_loopv2 for x in bar()] for nested_loopv2 in baz()]

#< 25 (0,20), (0, 65)
(("*" if abs(foo(x, nested_loopv1)) else " " for x in bar()) for nested_loopv1 in baz())


def whatever_func():
    zzz = 3
    if UNDEFINED:
        zzz = 5
        if UNDEFINED2:
            #< (3, 8), (4, 4), (0, 12), (-3, 8), (-5, 4)
            zzz
    else:
        #< (0, 8), (1, 4), (-3, 12), (-6, 8), (-8, 4)
        zzz
    zzz

# -----------------
# global
# -----------------

def global_usage1():
    #< (0, 4), (4, 11), (6, 4), (9, 8), (12, 4)
    my_global

def global_definition():
    #< (-4, 4), (0, 11), (2, 4), (5, 8), (8, 4)
    global my_global
    #< 4 (-6, 4), (-2, 11), (0, 4), (3, 8), (6, 4)
    my_global = 3
    if WHATEVER:
        #< 8 (-9, 4), (-5, 11), (-3, 4), (0, 8), (3, 4)
        my_global = 4

def global_usage2()
    my_global

def not_global(my_global):
    my_global

class DefinitelyNotGlobal:
    def my_global(self):
        def my_global(self):
            pass

# -----------------
# stubs
# -----------------

from stub_folder import with_stub
#< ('stub:stub_folder.with_stub', 5, 4), ('stub_folder.with_stub', 5, 4), (0, 10)
with_stub.stub_function
from stub_folder.with_stub_folder.nested_stub_only import in_stub_only
#< ('stub:stub_folder.with_stub_folder.nested_stub_only', 2, 4), ('stub:stub_folder.with_stub_folder.nested_stub_only', 4, 4), ('stubs', 64, 17), (-2, 58), (0, 0)
in_stub_only
from stub_folder.with_stub_folder.nested_with_stub import in_python
#< ('stub_folder.with_stub_folder.nested_with_stub', 1, 0), ('stubs', 68, 17), (-2, 58), (0, 0)
in_python
from stub_folder.with_stub_folder.nested_with_stub import in_both
#< ('stub_folder.with_stub_folder.nested_with_stub', 2, 0), ('stub:stub_folder.with_stub_folder.nested_with_stub', 2, 0), ('stubs', 66, 17), (-2, 58), (0, 0)
in_both

# -----------------
# across directories
# -----------------

#< 8 (0, 0), (3, 4), ('import_tree.references', 1, 21), ('import_tree.references', 5, 4)
usage_definition = 1
if False:
    #< 8 (-3, 0), (0, 4), ('import_tree.references', 1, 21), ('import_tree.references', 5, 4)
    usage_definition()

# -----------------
# stdlib stuff
# -----------------

import socket
#< (1, 21), (0, 7), ('socket', ..., 6), ('stub:socket', ..., 6), ('imports', ..., 7)
socket.SocketIO
some_socket = socket.SocketIO()
