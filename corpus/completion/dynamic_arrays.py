"""
Checking for ``list.append`` and all the other possible array modifications.
"""
# -----------------
# list.append
# -----------------
arr = []
for a in [1,2]:
    arr.append(a);

arr.append  # should not cause an exception
arr.append()  # should not cause an exception

#? int()
arr[10]

arr = [tuple()]
for a in [1,2]:
    arr.append(a);

#? int() tuple()
arr[10]
#? int()
arr[10].index()

arr = list([])
arr.append(1)
#? int()
arr[0]

# -----------------
# list.insert
# -----------------
arr = [""]
arr.insert(0, 1.0)

# on exception due to this, please!
arr.insert(0)
arr.insert()

#? float() str()
arr[10]

for a in arr:
    #? float() str()
    a

#? float() str()
list(arr)[10]

# -----------------
# list.extend / set.update
# -----------------

arr = [1.0]
arr.extend([1,2,3])
arr.extend([])
arr.extend("")
arr.extend(list)  # should ignore

#? float() int() str()
arr[100]

a = set(arr)
a.update(list(["", 1]))

#? float() int() str()
list(a)[0]
# -----------------
# set/list initialized as functions
# -----------------

st = set()
st.add(1)

#? int()
for s in st: s

lst = list()
lst.append(1)

#? int()
for i in lst: i

# -----------------
# renames / type changes
# -----------------
arr = []
arr2 = arr
arr2.append('')
#? str()
arr2[0]


lst = [1]
lst.append(1.0)
s = set(lst)
s.add("ahh")
lst = list(s)
lst.append({})

#? dict() int() float() str()
lst[0]

# should work with tuple conversion, too.
#? dict() int() float() str()
tuple(lst)[0]

# but not with an iterator
#? 
iter(lst)[0]

# -----------------
# complex including +=
# -----------------
class C(): pass
class D(): pass
class E(): pass
lst = [1]
lst.append(1.0)
lst += [C()]
s = set(lst)
s.add("")
s += [D()]
lst = list(s)
lst.append({})
lst += [E()]

#? dict() int() float() str() C() D() E()
lst[0]

# -----------------
# functions
# -----------------

def arr_append(arr4, a):
    arr4.append(a)

def add_to_arr(arr2, a):
    arr2.append(a)
    return arr2

def app(a):
    arr3.append(a)

arr3 = [1.0]
res = add_to_arr(arr3, 1)
arr_append(arr3, 'str')
app(set())

#? float() str() int() set()
arr3[10]

#? float() str() int() set()
res[10]

# -----------------
# returns, special because the module dicts are not correct here.
# -----------------
def blub():
    a = []
    a.append(1.0)
    #? float()
    a[0]
    return a

#? float()
blub()[0]

# list with default
def blub():
    a = list([1])
    a.append(1.0)
    return a

#? int() float()
blub()[0]

# empty list
def blub():
    a = list()
    a.append(1.0)
    return a
#? float()
blub()[0]

# with if
def blub():
    if 1:
        a = []
        a.append(1.0)
        return a

#? float()
blub()[0]

# with else clause
def blub():
    if random.choice([0, 1]):
         1
    else:
        a = []
        a.append(1)
        return a

#? int()
blub()[0]
# -----------------
# returns, the same for classes
# -----------------
class C():
    def blub(self, b):
        if 1:
            a = []
            a.append(b)
            return a

    def blub2(self):
        """ mapper function """
        a = self.blub(1.0)
        #? float()
        a[0]
        return a

    def literal_arr(self, el):
        self.a = []
        self.a.append(el)
        #? int()
        self.a[0]
        return self.a

    def list_arr(self, el):
        self.b = list([])
        self.b.append(el)
        #? float()
        self.b[0]
        return self.b

#? int()
C().blub(1)[0]
#? float()
C().blub2(1)[0]

#? int()
C().a[0]
#? int()
C().literal_arr(1)[0]

#? float()
C().b[0]
#? float()
C().list_arr(1.0)[0]

# -----------------
# array recursions
# -----------------

a = set([1.0])
a.update(a)
a.update([1])

#? float() int()
list(a)[0]

def first(a):
    b = []
    b.append(a)
    b.extend(second(a))
    return list(b)

def second(a):
    b = []
    b.extend(first(a))
    return list(b)

#? float()
first(1.0)[0]

def third():
    b = []
    b.extend
    extend()
    b.extend(first())
    return list(b)
#? 
third()[0]


# -----------------
# set.add
# -----------------
st = {1.0}
for a in [1,2]:
    st.add(a)

st.append('')  # lists should not have an influence

st.add  # should not cause an exception
st.add()

st = {1.0}
st.add(1)
lst = list(st)

lst.append('')

#? float() int() str()
lst[0]

# -----------------
# list setitem
# -----------------

some_lst = [int]
some_lst[3] = str
#? int
some_lst[0]
#? str
some_lst[3]
#? int str
some_lst[2]

some_lst[0] = tuple
#? tuple
some_lst[0]
#? int str tuple
some_lst[1]

some_lst2 = list([1])
some_lst2[3] = ''
#? int() str()
some_lst2[0]
#? str()
some_lst2[3]
#? int() str()
some_lst2[2]

some_lst3 = []
some_lst3[0] = 3
some_lst3[:] = ''  # Is ignored for now.
#? int()
some_lst3[0]
# -----------------
# set setitem/other modifications (should not work)
# -----------------

some_set = {int}
some_set[3] = str
#? int
some_set[0]
#? int
some_set[3]

something = object()
something[3] = str
#? 
something[0]
#?
something[3]

# -----------------
# dict setitem
# -----------------

some_dct = {'a': float, 1: int}
some_dct['x'] = list
some_dct['y'] = tuple
#? list
some_dct['x']
#? int float list tuple
some_dct['unknown']
#? float
some_dct['a']

some_dct = dict({'a': 1, 1: ''})
#? int() str()
some_dct['la']
#? int()
some_dct['a']

some_dct['x'] = list
some_dct['y'] = tuple
#? list
some_dct['x']
#? int() str() list tuple
some_dct['unknown']
k = 'a'
#? int()
some_dct[k]

some_other_dct = dict(some_dct, c=set)
#? int()
some_other_dct['a']
#? list
some_other_dct['x']
#? set
some_other_dct['c']
