""" Pep-0484 type hinting """


class A():
    pass


def function_parameters(a: A, b, c: str, d: int, e: str, f: str, g: int=4):
    """
    :param e: if docstring and annotation agree, only one should be returned
    :type e: str
    :param f: if docstring and annotation disagree, both should be returned
    :type f: int
    """
    #? A()
    a
    #?
    b
    #? str()
    c
    #? int()
    d
    #? str()
    e
    #? str()
    f
    # int()
    g


def return_unspecified():
    pass

#?
return_unspecified()


def return_none() -> None:
    """
    Return type None means the same as no return type as far as jedi
    is concerned
    """
    pass

#? None
return_none()


def return_str() -> str:
    pass

#? str()
return_str()


def return_custom_class() -> A:
    pass

#? A()
return_custom_class()


def return_annotation_and_docstring() -> str:
    """
    :rtype: int
    """
    pass

#? str()
return_annotation_and_docstring()


def return_annotation_and_docstring_different() -> str:
    """
    :rtype: str
    """
    pass

#? str()
return_annotation_and_docstring_different()


def annotation_forward_reference(b: "B") -> "B":
    #? B()
    b

#? ["test_element"]
annotation_forward_reference(1).t

class B:
    test_element = 1
    pass

#? B()
annotation_forward_reference(1)


class SelfReference:
    test_element = 1
    def test_method(self, x: "SelfReference") -> "SelfReference":
        #? SelfReference()
        x
        #? ["test_element", "test_method"]
        self.t
        #? ["test_element", "test_method"]
        x.t
        #? ["test_element", "test_method"]
        self.test_method(1).t

#? SelfReference()
SelfReference().test_method()

def function_with_non_pep_0484_annotation(
        x: "I can put anything here",
        xx: "",
        yy: "\r\n\0;+*&^564835(---^&*34",
        y: 3 + 3,
        zz: float) -> int("42"):
    # infers int from function call
    #? int()
    x
    # infers int from function call
    #? int()
    xx
    # infers int from function call
    #? int()
    yy
    # infers str from function call
    #? str()
    y
    #? float()
    zz
#?
function_with_non_pep_0484_annotation(1, 2, 3, "force string")

def function_forward_reference_dynamic(
        x: return_str_type(),
        y: "return_str_type()") -> None:
    #? str()
    x
    #? str()
    y

def return_str_type():
    return str


X = str
def function_with_assined_class_in_reference(x: X, y: "Y"):
    #? str()
    x
    #? int()
    y
Y = int

def just_because_we_can(x: "flo" + "at"):
    #? float()
    x


def keyword_only(a: str, *, b: str):
    #? ['startswith']
    a.startswi
    #? ['startswith']
    b.startswi


def argskwargs(*args: int, **kwargs: float):
    """
    This might be a bit confusing, but is part of the standard.
    args is changed to Tuple[int] in this case and kwargs to Dict[str, float],
    which makes sense if you think about it a bit.
    """
    #? tuple()
    args
    #? int()
    args[0]
    #? str()
    next(iter(kwargs.keys()))
    #? float()
    kwargs['']

class Test:
    str: str = 'abc'

#? ['upper']
Test.str.upp

class NotCalledClass:
    def __init__(self, x):
        self.x: int = x
        self.y: int = ''
        #? int()
        self.x
        #? int()
        self.y
        #? int()
        self.y
        self.z: int
        self.z = ''
        #? str() int()
        self.z
        self.w: float
        #? float()
        self.w

def tuple_func() -> tuple[int, str]:
    return 1, ""

x = tuple_func()
a, b = x
#? int()
a
#? str()
b
#? int()
x[0]
#? str()
x[1]

def check_newstyle_unions(u1: int | str, u2: list[int] | list[str]):
    #? int() str()
    u1
    #? list()
    u2
    #? int() str()
    u2[1]

def use_type_with_annotation() -> type[int]: ...

#? int
use_type_with_annotation()

def union_with_forward_references(x: int | "str", y: "int" | str, z: "int | str"):
    #? int() str()
    x
    #? int() str()
    y
    #? int() str()
    z
