# python >= 3.12

# -----------------
# new generic syntax should not fail
# -----------------

class C[T]:
    def c(self) -> str: ...
def f[T](x: T, y: T) -> int: ...

#? int()
f()
#? str()
C().c()
