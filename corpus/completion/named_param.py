"""
Named Params:
>>> def a(abc): pass
...
>>> a(abc=3)  # <- this stuff (abc)
"""

def a(abc):
    pass

#? 5 ['abc=']
a(abc)


def a(*some_args, **some_kwargs):
    pass

#? 11 []
a(some_args)

#? 13 []
a(some_kwargs)

def multiple(foo, bar):
    pass

#? 17 ['bar=']
multiple(foo, bar)

#? ['bar=']
multiple(foo, bar

my_lambda = lambda lambda_param: lambda_param + 1
#? 22 ['lambda_param=']
my_lambda(lambda_param)

# __call__ / __init__
class Test(object):
    def __init__(self, hello_other):
        pass

    def __call__(self, hello):
        pass

    def test(self, blub):
        pass

#? 10 ['hello_other=']
Test(hello=)
#? 12 ['hello=']
Test()(hello=)
#? 11 []
Test()(self=)
#? 16 []
Test().test(self=)
#? 16 ['blub=']
Test().test(blub=)

# builtins

#? 12 []
any(iterable=)


def foo(xyz):
    pass

#? 7 ['xyz=']
@foo(xy)
def x(): pass

#? 7 ['xyz=']
foo(xyz)
# No completion should be possible if it's not a simple name
#? 17 []
x = " "; foo(x.xyz)
#? 17 []
x = " "; foo([xyz)
#? 20 []
x = " "; foo(z[f,xyz)
#? 18 []
x = " "; foo(z[xyz)
#? 20 []
x = " "; foo(xyz[xyz)
#? 20 []
x = " "; foo(xyz[(xyz)

#? 8 ['xyz=']
@foo(xyz)
def x(): pass

@str
#? 8 ['xyz=']
@foo(xyz)
def x(): pass

# -----------------
# Only keyword arguments are valid
# -----------------

def x(bam, *, bar, baz):
    pass
def y(bam, *bal, bar, baz, **bag):
    pass
def z(bam, bar=2, *, bas=1):
    pass

#? 7 ['bar=', 'baz=']
x(1, ba)

# python >= 3.11

#? 14 ['baz=']
x(1, bar=2, ba)
#? 7 ['bar=', 'baz=']
x(1, ba, baz=3)
#? 14 ['baz=']
x(1, bar=2, baz=3)
#? 7 ['BaseException', 'BaseExceptionGroup']
x(basee)
#? 22 ['bar=', 'baz=']
x(1, 2, 3, 4, 5, 6, bar=2)

#? 14 ['baz=']
y(1, bar=2, ba)
#? 7 ['bar=', 'BaseException', 'BaseExceptionGroup', 'baz=']
y(1, ba, baz=3)
#? 14 ['baz=']
y(1, bar=2, baz=3)
#? 7 ['BaseException', 'BaseExceptionGroup']
y(basee)
#? 22 ['bar=', 'BaseException', 'BaseExceptionGroup', 'baz=']
y(1, 2, 3, 4, 5, 6, bar=2)

#? 11 ['bar=', 'bas=']
z(bam=1, bar=2, bas=3)
#? 8 ['BaseException', 'BaseExceptionGroup', 'bas=']
z(1, bas=2)
#? 12 ['BaseException', 'BaseExceptionGroup']
z(1, bas=bas)

#? 19 ['dict']
z(1, bas=bas, **dic)
#? 18 ['dict']
z(1, bas=bas, *dic)
