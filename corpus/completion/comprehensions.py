# -----------------
# list comprehensions
# -----------------

# basics:

a = ['' for a in [1]]
#? str()
a[0]
#? ['insert']
a.insert

a = [a for a in [1]]
#? int()
a[0]

y = 1.0
# Should not leak.
[y for y in [3]]
#? float()
y

a = [a for a in (1, 2)]
#? int()
a[0]

a = [a for a,b in [(1,'')]]
#? int()
a[0]
a = [a for (a,b) in [(1,'')]]
#? int()
a[0]

arr = [1,'']
a = [a for a in arr]
#? int()
a[0]
#? str()
a[1]
#? int() str()
a[2]

a = [a if 1.0 else '' for a in [1] if [1.0]]
#? int() str()
a[0]

# name resolve should be correct
left, right = 'a', 'b'
left, right = [x for x in (left, right)]
#? str()
left

# with a dict literal
#? int()
[a for a in {1:'x'}][0]

# list comprehensions should also work in combination with functions
def _listen(arg):
    for x in arg:
        #? str()
        x

_listen(['' for x in [1]])
#?
([str for x in []])[0]

# -----------------
# nested list comprehensions
# -----------------

b = [a for arr in [[1, 1.0]] for a in arr]
#? int()
b[0]
#? float()
b[1]

b = [arr for arr in [[1, 1.0]] for a in arr]
#? int()
b[0][0]
#? float()
b[1][1]

b = [a for arr in [[1]] if '' for a in arr if '']
#? int()
b[0]

b = [b for arr in [[[1.0]]] for a in arr for b in a]
#? float()
b[0]

#? str()
[x for x in 'chr'][0]

# From GitHub #26
#? list()
a = [[int(v) for v in line.strip().split() if v] for line in ["123", str(), "123"] if line]
#? list()
a[0]
#? int()
a[0][0]

# From GitHub #1524
#?
[nothing for nothing, _ in [1]][0]

# -----------------
# generator comprehensions
# -----------------

left, right = (i for i in (1, ''))

#? int()
left
#? str()
right

gen = (i for i in (1,))

#? int()
next(gen)
#?
gen[0]

gen = (a for arr in [[1.0]] for a in arr)
#? float()
next(gen)

#? int()
(i for i in (1,)).send()

# issues with different formats
left, right = (i for i in
                       ('1', 2))
#? str()
left
#? int()
right

# -----------------
# name resolution in comprehensions.
# -----------------

def x():
    """Should not try to resolve to the if hio, which was a bug."""
    #? 22
    [a for a in h if hio]
    if hio: pass

# -----------------
# slices
# -----------------

#? list()
foo = [x for x in [1, '']][:1]
#? int()
foo[0]
#? str()
foo[1]

# -----------------
# In class
# -----------------

class X():
    def __init__(self, bar):
        self.bar = bar

    def foo(self):
        x = [a for a in self.bar][0]
        #? int()
        x
        return x

#? int()
X([1]).foo()

# -----------------
# dict comprehensions
# -----------------

#? int()
list({a - 1: 3 for a in [1]})[0]

d = {a - 1: b for a, b in {1: 'a', 3: 1.0}.items()}
#? int()
list(d)[0]
#? str() float()
d.values()[0]
#? str()
d[0]
#? float() str()
d[1]
#? float()
d[2]

# -----------------
# set comprehensions
# -----------------

#? set()
{a - 1 for a in [1]}

#? set()
{a for a in range(10)}

#? int()
[x for x in {a for a in range(10)}][0]

#? int()
{a for a in range(10)}.pop()
#? float() str()
{b for a in [[3.0], ['']] for b in a}.pop()

#? int()
next(iter({a for a in range(10)}))


#? int()
[a for a in {1, 2, 3}][0]

# -----------------
# syntax errors
# -----------------

# Issue #1146

#? ['list']
[int(str(x.value) for x in list

def reset_missing_bracket(): pass


# -----------------
# function calls
# -----------------

def foo(arg):
    return arg


x = foo(x for x in [1])

#? int()
next(x)
#?
x[0]

# While it's illegal to have more than one argument, when a generator
# expression is involved, it's still a valid parse tree and Jedi should still
# work (and especially not raise Exceptions). It's debatable wheter inferring
# values for invalid statements is a good idea, but not failing is a must.

#? int()
next(foo(x for x in [1], 1))

def bar(x, y):
    return y

#? str()
next(bar(x for x in [1], x for x in ['']))
