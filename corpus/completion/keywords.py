
#? ['raise']
raise

# python >= 3.11
#? ['Exception', 'ExceptionGroup']
except

#? []
b + continu

#? []
b + continue

#? ['continue']
b; continue

#? ['continue']
b; continu

#? []
c + pass

#? []
a + pass

#? ['pass']
b; pass

# -----------------
# Keywords should not appear everywhere.
# -----------------

#? []
with open() as f
#? []
def i
#? []
class i

#? []
continue i

# More syntax details, e.g. while only after newline, but not after semicolon,
# continue also after semicolon
#? ['while']
while
#? []
x while
#? []
x; while
#? ['continue']
x; continue

#? []
and
#? ['and']
x and
#? []
x * and
