""" Pep-0484 type hinted decorators """

from typing import Callable


def decorator(func):
    def wrapper(*a, **k):
        return str(func(*a, **k))
    return wrapper


def typed_decorator(func: Callable[..., int]) -> Callable[..., str]:
    ...

# Functions

@decorator
def plain_func() -> int:
    return 4

#? str()
plain_func()


@typed_decorator
def typed_func() -> int:
    return 4

#? str()
typed_func()


# Methods

class X:
    @decorator
    def plain_method(self) -> int:
        return 4

    @typed_decorator
    def typed_method(self) -> int:
        return 4

inst = X()

#? str()
inst.plain_method()

#? str()
inst.typed_method()
