from typing import (
    Callable,
    Dict,
    Generic,
    Iterable,
    List,
    Mapping,
    Optional,
    Tuple,
    Type,
    TypeVar,
    Union,
    Sequence,
    Self,
)

K = TypeVar('K')
T = TypeVar('T')
T_co = TypeVar('T_co', covariant=True)
V = TypeVar('V')


just_float: float = 42.
optional_float: Optional[float] = 42.
list_of_ints: List[int] = [42]
list_of_floats: List[float] = [42.]
list_of_optional_floats: List[Optional[float]] = [x or None for x in list_of_floats]
list_of_ints_and_strs: List[Union[int, str]] = [42, 'abc']

# Test that simple parameters are handled
def list_t_to_list_t(the_list: List[T]) -> List[T]:
    return the_list

x0 = list_t_to_list_t(list_of_ints)[0]
#? int()
x0

for a in list_t_to_list_t(list_of_ints):
    #? int()
    a

# Test that unions are handled
x2 = list_t_to_list_t(list_of_ints_and_strs)[0]
#? int() str()
x2

for z in list_t_to_list_t(list_of_ints_and_strs):
    #? int() str()
    z


list_of_int_type: List[Type[int]] = [int]

# Test that nested parameters are handled
def list_optional_t_to_list_t(the_list: List[Optional[T]]) -> List[T]:
    return [x for x in the_list if x is not None]


for xa in list_optional_t_to_list_t(list_of_optional_floats):
    #? float()
    xa

# Under covariance rules this is strictly incorrect (because List is mutable,
# the function would be allowed to put `None`s into our List[float], which would
# be bad), however we don't expect jedi to enforce that.
for xa1 in list_optional_t_to_list_t(list_of_floats):
    #? float()
    xa1


def optional_t_to_list_t(x: Optional[T]) -> List[T]:
    return [x] if x is not None else []


for xb in optional_t_to_list_t(optional_float):
    #? float()
    xb


for xb2 in optional_t_to_list_t(just_float):
    #? float()
    xb2


def optional_list_t_to_list_t(x: Optional[List[T]]) -> List[T]:
    return x if x is not None else []


optional_list_float: Optional[List[float]] = None
for xc in optional_list_t_to_list_t(optional_list_float):
    #? float()
    xc

for xc2 in optional_list_t_to_list_t(list_of_floats):
    #? float()
    xc2


def list_type_t_to_list_t(the_list: List[Type[T]]) -> List[T]:
    return [x() for x in the_list]


x1 = list_type_t_to_list_t(list_of_int_type)[0]
#? int()
x1


for b in list_type_t_to_list_t(list_of_int_type):
    #? int()
    b


# Test construction of nested generic tuple return parameters
def list_t_to_list_tuple_t(the_list: List[T]) -> List[Tuple[T]]:
    return [(x,) for x in the_list]


x1t = list_t_to_list_tuple_t(list_of_ints)[0][0]
#? int()
x1t


for c1 in list_t_to_list_tuple_t(list_of_ints):
    #? int()
    c1[0]


for c2, in list_t_to_list_tuple_t(list_of_ints):
    #? int()
    c2


# Test handling of nested tuple input parameters
def list_tuple_t_to_tuple_list_t(the_list: List[Tuple[T]]) -> Tuple[List[T], ...]:
    return tuple(list(x) for x in the_list)


list_of_int_tuples: List[Tuple[int]] = [(x,) for x in list_of_ints]

for b in list_tuple_t_to_tuple_list_t(list_of_int_tuples):
    #? int()
    b[0]


def list_tuple_t_elipsis_to_tuple_list_t(the_list: List[Tuple[T, ...]]) -> Tuple[List[T], ...]:
    return tuple(list(x) for x in the_list)


list_of_int_tuple_elipsis: List[Tuple[int, ...]] = [tuple(list_of_ints)]

for b in list_tuple_t_elipsis_to_tuple_list_t(list_of_int_tuple_elipsis):
    #? int()
    b[0]


# Test handling of nested callables
def foo(x: int) -> int:
    return x


list_of_funcs: List[Callable[[int], int]] = [foo]

def list_func_t_to_list_func_type_t(the_list: List[Callable[[T], T]]) -> List[Callable[[Type[T]], T]]:
    def adapt(func: Callable[[T], T]) -> Callable[[Type[T]], T]:
        def wrapper(typ: Type[T]) -> T:
            return func(typ())
        return wrapper
    return [adapt(x) for x in the_list]


for b in list_func_t_to_list_func_type_t(list_of_funcs):
    #? int()
    b(int)


def bar(*a, **k) -> int:
    return len(a) + len(k)


list_of_funcs_2: List[Callable[..., int]] = [bar]

def list_func_t_passthrough(the_list: List[Callable[..., T]]) -> List[Callable[..., T]]:
    return the_list


for b in list_func_t_passthrough(list_of_funcs_2):
    #? int()
    b(None, x="x")


mapping_int_str: Dict[int, str] = {42: 'a'}

# Test that mappings (that have more than one parameter) are handled
def invert_mapping(mapping: Mapping[K, V]) -> Mapping[V, K]:
    return {v: k for k, v in mapping.items()}

#? int()
invert_mapping(mapping_int_str)['a']


# Test that the right type is chosen when a mapping is passed to something with
# only a single parameter. This checks that our inheritance checking picks the
# right thing.
def first(iterable: Iterable[T]) -> T:
    return next(iter(iterable))

#? int()
first(mapping_int_str)

# Test inference of str as an iterable of str.
#? str()
first("abc")

some_str: str = NotImplemented
#? str()
first(some_str)

annotated: List[ Callable[[Sequence[float]], int] ] = [len]
#? int()
first(annotated)()

# Test that the right type is chosen when a partially realised mapping is expected
def values(mapping: Mapping[int, T]) -> List[T]:
    return list(mapping.values())

#? str()
values(mapping_int_str)[0]

x2 = values(mapping_int_str)[0]
#? str()
x2

for b in values(mapping_int_str):
    #? str()
    b


#
# Tests that user-defined generic types are handled
#
list_ints: List[int] = [42]

class CustomGeneric(Generic[T_co]):
    def __init__(self, val: T_co) -> None:
        self.val = val


# Test extraction of type from a custom generic type
def custom(x: CustomGeneric[T]) -> T:
    return x.val

custom_instance: CustomGeneric[int] = CustomGeneric(42)

#? int()
custom(custom_instance)

x3 = custom(custom_instance)
#? int()
x3


# Test construction of a custom generic type
def wrap_custom(iterable: Iterable[T]) -> List[CustomGeneric[T]]:
    return [CustomGeneric(x) for x in iterable]

#? int()
wrap_custom(list_ints)[0].val

x4 = wrap_custom(list_ints)[0]
#? int()
x4.val

for x5 in wrap_custom(list_ints):
    #? int()
    x5.val


# Test extraction of type from a nested custom generic type
list_custom_instances: List[CustomGeneric[int]] = [CustomGeneric(42)]

def unwrap_custom(iterable: Iterable[CustomGeneric[T]]) -> List[T]:
    return [x.val for x in iterable]

#? int()
unwrap_custom(list_custom_instances)[0]

x6 = unwrap_custom(list_custom_instances)[0]
#? int()
x6

for x7 in unwrap_custom(list_custom_instances):
    #? int()
    x7


for xc in unwrap_custom([CustomGeneric(s) for s in 'abc']):
    #? str()
    xc


for xg in unwrap_custom(CustomGeneric(s) for s in 'abc'):
    #? str()
    xg


# Test extraction of type from type parameer nested within a custom generic type
custom_instance_list_int: CustomGeneric[List[int]] = CustomGeneric([42])

def unwrap_custom2(instance: CustomGeneric[Iterable[T]]) -> List[T]:
    return list(instance.val)

#? int()
unwrap_custom2(custom_instance_list_int)[0]

x8 = unwrap_custom2(custom_instance_list_int)[0]
#? int()
x8

for x9 in unwrap_custom2(custom_instance_list_int):
    #? int()
    x9


# Test that classes which have generic parents but are not generic themselves
# are still inferred correctly.
class Specialised(Mapping[int, str]):
    pass


specialised_instance: Specialised = NotImplemented

#? int()
first(specialised_instance)

#? str()
values(specialised_instance)[0]


# Test that classes which have generic ancestry but neither they nor their
# parents are not generic are still inferred correctly.
class ChildOfSpecialised(Specialised):
    pass


child_of_specialised_instance: ChildOfSpecialised = NotImplemented

#? int()
first(child_of_specialised_instance)

#? str()
values(child_of_specialised_instance)[0]


# Test that unbound generics are inferred as much as possible
class CustomPartialGeneric1(Mapping[str, T]):
    pass


custom_partial1_instance: CustomPartialGeneric1[int] = NotImplemented

#? str()
first(custom_partial1_instance)


custom_partial1_unbound_instance: CustomPartialGeneric1 = NotImplemented

#? str()
first(custom_partial1_unbound_instance)


class CustomPartialGeneric2(Mapping[T, str]):
    pass


custom_partial2_instance: CustomPartialGeneric2[int] = NotImplemented

#? int()
first(custom_partial2_instance)

#? str()
values(custom_partial2_instance)[0]


custom_partial2_unbound_instance: CustomPartialGeneric2 = NotImplemented

#? []
first(custom_partial2_unbound_instance)

#? str()
values(custom_partial2_unbound_instance)[0]

def generic_func1(arg: T) -> int | str | T: pass
def generic_func2(arg: T) -> Union[int, str, T]: pass

#? int() str() bytes()
generic_func1(b"hello")
#? int() str() bytes()
generic_func2(b"hello")

class CustomGeneric2(Generic[T_co]):
    val: T_co
    def __init__(cls, val: T_co) -> Self:
        raise NotImplementedError

#? int()
CustomGeneric2(1).val
