"""
std library stuff
"""

# -----------------
# builtins
# -----------------
arr = ['']

#? str()
sorted(arr)[0]

#? str()
next(reversed(arr))
next(reversed(arr))

# should not fail if there's no return value.
def yielder():
    yield None

#? None
next(reversed(yielder()))

# empty reversed should not raise an error
#?
next(reversed())

#? str()
next(open(''))

#? int()
{'a':2}.setdefault('a', 3)

# Compiled classes should have the meta class attributes.
#? ['__itemsize__']
tuple.__itemsize__
#? []
tuple().__itemsize__

# -----------------
# type() calls with one parameter
# -----------------
#? int
type(1)
#? int
type(int())
#? type
type(int)
#? type
type(type)
#? list
type([])

def x():
    yield 1
generator = type(x())
#? generator
type(x for x in [])
#? type(x)
type(lambda: x)

import math
import os
#? type(os)
type(math)
class X(): pass
#? type
type(X)

# -----------------
# type() calls with multiple parameters
# -----------------

X = type('X', (object,), dict(a=1))

# Doesn't work yet.
#?
X.a
#?
X

if os.path.isfile():
    #? ['abspath']
    fails = os.path.abspath

# The type vars and other underscored things from typeshed should not be
# findable.
#?
os._T


with open('foo') as f:
    for line in f.readlines():
        #? bytes()
        line
# -----------------
# enumerate
# -----------------
for i, j in enumerate(["as", "ad"]):
    #? int()
    i
    #? str()
    j

# -----------------
# re
# -----------------
import re
c = re.compile(r'a')
# re.compile should not return str -> issue #68
#? []
c.startswith
#? int()
c.match().start()

#? int()
re.match(r'a', 'a').start()

for a in re.finditer('a', 'a'):
    #? int()
    a.start()

# -----------------
# ref
# -----------------
import weakref

#? int()
weakref.proxy(1)

#? weakref.ref()
weakref.ref(1)
#? int() None
weakref.ref(1)()

# -----------------
# sqlite3 (#84)
# -----------------

import sqlite3
#? sqlite3.Connection()
con = sqlite3.connect()
#? sqlite3.Cursor()
c = con.cursor()

def huhu(db):
    """
        :type db: sqlite3.Connection
        :param db: the db connection
    """
    #? sqlite3.Connection()
    db

with sqlite3.connect() as c:
    #? sqlite3.Connection()
    c

# -----------------
# hashlib
# -----------------

import hashlib

#? ['md5']
hashlib.md5

# -----------------
# copy
# -----------------

import copy
#? int()
copy.deepcopy(1)

#?
copy.copy()

# -----------------
# json
# -----------------

# We don't want any results for json, because it depends on IO.
import json
#?
json.load('asdf')
#?
json.loads('[1]')

# -----------------
# random
# -----------------

import random
class A(object):
    def say(self): pass
class B(object):
    def shout(self): pass
cls = random.choice([A, B])
# TODO why is this not inferred? This used to work...
#?
cls
#? []
cls().s

# -----------------
# random
# -----------------

import zipfile
z = zipfile.ZipFile("foo")
#? ['upper']
z.read('name').upper

# -----------------
# contextlib
# -----------------

from typing import Iterator
import contextlib
with contextlib.closing('asd') as string:
    #? str()
    string

@contextlib.contextmanager
def cm1() -> Iterator[float]:
    yield 1
with cm1() as x:
    #? float()
    x

@contextlib.contextmanager
def cm2() -> float:
    yield 1
with cm2() as x:
    #?
    x

@contextlib.contextmanager
def cm3():
    yield 3
with cm3() as x:
    #? int()
    x

# -----------------
# operator
# -----------------

import operator

f = operator.itemgetter(1)
#? float()
f([1.0])
#? str()
f([1, ''])

g = operator.itemgetter(1, 2)
x1, x2 = g([1, 1.0, ''])
#? float()
x1
#? str()
x2

x1, x2 = g([1, ''])
#? str()
x1
#? int() str()
x2

# -----------------
# shlex
# -----------------

# Github issue #929
import shlex
qsplit = shlex.split("foo, ferwerwerw werw werw e")
for part in qsplit:
    #? str()
    part

# -----------------
# staticmethod, classmethod params
# -----------------

class F():
    def __init__(self):
        self.my_variable = 3

    @staticmethod
    def my_func(param):
        #? []
        param.my_
        #? ['upper']
        param.uppe
        #? str()
        return param

    @staticmethod
    def my_func_without_call(param):
        #? []
        param.my_
        #? []
        param.uppe
        #?
        return param

    @classmethod
    def my_method_without_call(cls, param):
        #?
        cls.my_variable
        #? ['my_method', 'my_method_without_call']
        cls.my_meth
        #?
        return param

    @classmethod
    def my_method(cls, param):
        #?
        cls.my_variable
        #? ['my_method', 'my_method_without_call']
        cls.my_meth
        #?
        return param

#? str()
F.my_func('')
#? str()
F.my_method('')

# -----------------
# Unknown metaclass
# -----------------

# Github issue 1321
class Meta(object):
    pass

class Test(metaclass=Meta):
    def test_function(self):
        result = super(Test, self).test_function()
        #? []
        result.

# -----------------
# Enum
# -----------------

import enum

class X(enum.Enum):
    attr_x = 3
    attr_y = 2.0

#? ['mro']
X.mro
#? ['attr_x', 'attr_y']
X.attr_
#? str()
X.attr_x.name
#? int()
X.attr_x.value
#? str()
X.attr_y.name
#? float()
X.attr_y.value
#?
X().name
#? float()
X().attr_x.attr_y.value

# -----------------
# functools
# -----------------
import functools

basetwo = functools.partial(int, base=2)
#? int()
basetwo()

def function(a, b):
    return a, b
a = functools.partial(function, 0)

#? int()
a('')[0]
#? str()
a('')[1]

kw = functools.partial(function, b=1.0)
tup = kw(1)
#? int()
tup[0]
#? float()
tup[1]

def my_decorator(f):
    @functools.wraps(f)
    def wrapper(*args, **kwds):
        return f(*args, **kwds)
    return wrapper

@my_decorator
def example(a):
    return a

#? str()
example('')

# From GH #1574
#? float()
functools.wraps(functools.partial(str, 1))(lambda: 1.0)()

class X:
    def function(self, a, b):
        return a, b
    a = functools.partialmethod(function, 0)
    kw = functools.partialmethod(function, b=1.0)
    just_partial = functools.partial(function, 1, 2.0)

#? int()
X().a('')[0]
#? str()
X().a('')[1]

# The access of partialmethods on classes are not 100% correct. This doesn't
# really matter, because nobody uses it like that anyway and would take quite a
# bit of work to fix all of these cases.
#? str()
X.a('')[0]
#?
X.a('')[1]

#? X()
X.a(X(), '')[0]
#? str()
X.a(X(), '')[1]

tup = X().kw(1)
#? int()
tup[0]
#? float()
tup[1]

tup = X.kw(1)
#?
tup[0]
#? float()
tup[1]

tup = X.kw(X(), 1)
#? int()
tup[0]
#? float()
tup[1]

#? float()
X.just_partial('')[0]
#? str()
X.just_partial('')[1]
#? float()
X().just_partial('')[0]
#? str()
X().just_partial('')[1]

@functools.lru_cache
def x() -> int: ...
@functools.lru_cache()
def y() -> float: ...
@functools.lru_cache(8)
def z() -> str: ...

#? int()
x()
#? float()
y()
#? str()
z()
