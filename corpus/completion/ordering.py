# -----------------
# normal
# -----------------
a = ""
a = 1

#? int()
a
#? []
a.append

a = list

b = 1; b = ""
#? str()
b

# temp should not be accessible before definition
#? []
temp

a = 1
temp = b;
b = a
a = temp
#? int()
b
#? int()
b
#? str()
a

a = tuple
if 1:
    a = list

#? ['append']
a.append
#? ['index']
a.index

# -----------------
# tuples exchanges
# -----------------
a, b = 1, ""
#? int()
a
#? str()
b

b, a = a, b
#? int()
b
#? str()
a

b, a = a, b
#? int()
a
#? str()
b

# -----------------
# function
# -----------------
def a(a=3):
    #? int()
    a
    #? []
    a.func
    return a

#? int()
a(2)
#? []
a(2).func

a_param = 3
def func(a_param):
    # should not be int
    #? []
    a_param.

from os import path


# should not return a function, because `a` is a function above
def f(b, a): return a
#? []
f(b=3).

# -----------------
# closure
# -----------------

def x():
    a = 0

    def x():
        return a

    a = 3.0
    return x()

#? float()
x()

# -----------------
# class
# -----------------
class A(object):
    a = ""
    a = 3
    #? int()
    a
    a = list()
    def __init__(self):
        self.b = ""

    def before(self):
        self.b = 3
        # TODO should this be so? include entries after cursor?
        #? int() str() list
        self.b
        self.b = list

        self.a = 1
        #? str() int()
        self.a

        #? ['after']
        self.after

        self.c = 3
        #? int()
        self.c

    def after(self):
        self.a = ''

    c = set()

#? list()
A.a

a = A()
#? ['after']
a.after
#? []
a.upper
#? []
a.append
#? []
a.real

#? str() int()
a.a

a = 3
class a():
    def __init__(self, a):
        self.a = a

#? float()
a(1.0).a
#? 
a().a

# -----------------
# imports
# -----------------

math = 3
import math
#? ['cosh']
math.cosh
#? []
math.real

math = 3
#? int()
math
#? []
math.cos

# do the same for star imports
cosh = 3
from math import *
# cosh doesn't work, but that's not a problem, star imports should be at the
# start of EVERY script!
cosh.real

cosh = 3
#? int()
cosh
