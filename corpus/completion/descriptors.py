class RevealAccess(object):
    """
    A data descriptor that sets and returns values
    normally and prints a message logging their access.
    """
    def __init__(self, initval=None, name='var'):
        self.val = initval
        self.name = name

    def __get__(self, obj, objtype):
        print('Retrieving', self.name)
        return self.val

    def __set__(self, obj, val):
        print('Updating', self.name)
        self.val = val

    def just_a_method(self):
        pass

class C(object):
    x = RevealAccess(10, 'var "x"')
    #? RevealAccess()
    x
    #? ['just_a_method']
    x.just_a_method
    y = 5.0
    def __init__(self):
        #? int()
        self.x

        #? []
        self.just_a_method
        #? []
        C.just_a_method

m = C()
#? int()
m.x
#? float()
m.y
#? int()
C.x

#? []
m.just_a_method
#? []
C.just_a_method

# -----------------
# properties
# -----------------
class B():
    @property
    def r(self):
        return 1
    @r.setter
    def r(self, value):
        return ''
    def t(self):
        return ''
    p = property(t)

#? []
B().r().
#? int()
B().r

#? str()
B().p
#? []
B().p().

class PropClass():
    def __init__(self, a):
        self.a = a
    @property
    def ret(self):
        return self.a

    @ret.setter
    def ret(self, value):
        return 1.0

    def ret2(self):
        return self.a
    ret2 = property(ret2)

    @property
    def nested(self):
        """ causes recusions in properties, should work """
        return self.ret

    @property
    def nested2(self):
        """ causes recusions in properties, should not work """
        return self.nested2

    @property
    def join1(self):
        """ mutual recusion """
        return self.join2

    @property
    def join2(self):
        """ mutual recusion """
        return self.join1

#? str()
PropClass("").ret
#? []
PropClass().ret.

#? str()
PropClass("").ret2
#? 
PropClass().ret2

#? int()
PropClass(1).nested
#? []
PropClass().nested.

#? 
PropClass(1).nested2
#? []
PropClass().nested2.

#? 
PropClass(1).join1
# -----------------
# staticmethod/classmethod
# -----------------

class E(object):
    a = ''
    def __init__(self, a):
        self.a = a

    def f(x):
        return x
    f = staticmethod(f)
    #?
    f.__func

    @staticmethod
    def g(x):
        return x

    def s(cls, x):
        return x
    s = classmethod(s)

    @classmethod
    def t(cls, x):
        return x

    @classmethod
    def u(cls, x):
        return cls.a

e = E(1)
#? int()
e.f(1)
#? int()
E.f(1)
#? int()
e.g(1)
#? int()
E.g(1)

#? int()
e.s(1)
#? int()
E.s(1)
#? int()
e.t(1)
#? int()
E.t(1)

#? str()
e.u(1)
#? str()
E.u(1)

# -----------------
# Conditions
# -----------------

from functools import partial


class Memoize():
    def __init__(self, func):
        self.func = func

    def __get__(self, obj, objtype):
        if obj is None:
            return self.func

        return partial(self, obj)

    def __call__(self, *args, **kwargs):
        # We don't do caching here, but that's what would normally happen.
        return self.func(*args, **kwargs)


class MemoizeTest():
    def __init__(self, x):
        self.x = x

    @Memoize
    def some_func(self):
        return self.x


#? int()
MemoizeTest(10).some_func()
# Now also call the same function over the class (see if clause above).
#? float()
MemoizeTest.some_func(MemoizeTest(10.0))
