"""
Tests for all async use cases.

Currently we're not supporting completion of them, but they should at least not
raise errors or return extremely strange results.
"""

async def x():
    return 1

#? []
x.cr_awai

#? ['cr_await']
x().cr_awai

a = await x()
#? int()
a

async def y():
    argh = await x()
    #? int()
    argh
    #? ['__next__']
    x().__await__().__next
    return 2

class A():
    @staticmethod
    async def b(c=1, d=2):
        return 1

#! 9 ['def b']
await A.b()

#! 11 ['param d=2']
await A.b(d=3)

class Awaitable:
    def __await__(self):
        yield None
        return ''

async def awaitable_test():
    foo = await Awaitable()
    #? str()
    foo

async def asgen():
    yield 1
    await asyncio.sleep(0)
    yield 2

async def wrapper():
    #? int()
    [x async for x in asgen()][0]

    async for y in asgen():
        #? int()
        y

#? ['__anext__']
asgen().__ane
#? []
asgen().mro


# Normal completion (#1092)
normal_var1 = 42

async def foo():
    normal_var2 = False
    #? ['normal_var1', 'normal_var2']
    normal_var


class C:
    @classmethod
    async def async_for_classmethod(cls) -> "C":
        return

    async def async_for_method(cls) -> int:
        return


async def f():
    c = await C.async_for_method()
    #? int()
    c
    d = await C().async_for_method()
    #? int()
    d

    e = await C.async_for_classmethod()
    #? C()
    e
    f = await C().async_for_classmethod()
    #? C()
    f


class AsyncCtxMgr:
    def some_method():
        pass

    async def __aenter__(self):
        return self

    async def __aexit__(self, *args):
        pass


async def asyncctxmgr():
    async with AsyncCtxMgr() as acm:
        #? AsyncCtxMgr()
        acm
        #? ['some_method']
        acm.som
