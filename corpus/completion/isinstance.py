if isinstance(i, str):
    #? str()
    i

if isinstance(j, (str, int)):
    #? str() int()
    j

while isinstance(k, (str, int)):
    #? str() int()
    k

if not isinstance(k, (str, int)):
    #? 
    k

while not isinstance(k, (str, int)):
    #? 
    k

assert isinstance(ass, int)
#? int()
ass

assert isinstance(ass, str)
assert not isinstance(ass, int)

if 2:
    #? str()
    ass

# -----------------
# invalid arguments
# -----------------

if isinstance(wrong, str()):
    #?
    wrong

# -----------------
# in functions
# -----------------

import datetime


def fooooo(obj):
    if isinstance(obj, datetime.datetime):
        #? datetime.datetime()
        obj


def fooooo2(obj):
    if isinstance(obj, datetime.date):
        return obj
    else:
        return 1

a
# In earlier versions of Jedi, this returned both datetime and int, but now
# Jedi does flow checks and realizes that the top return isn't executed.
#? int()
fooooo2('')


def isinstance_func(arr):
    for value in arr:
        if isinstance(value, dict):
            # Shouldn't fail, even with the dot.
            #? 17 dict()
            value.
        elif isinstance(value, int):
            x = value
            #? int()
            x

# -----------------
# Names with multiple indices.
# -----------------

class Test():
    def __init__(self, testing):
        if isinstance(testing, str):
            self.testing = testing
        else:
            self.testing = 10

    def boo(self):
        if isinstance(self.testing, str):
            # TODO this is wrong, it should only be str.
            #? str() int()
            self.testing
            #? Test()
            self

# -----------------
# Syntax
# -----------------

#?
isinstance(1, int())

# -----------------
# more complicated arguments
# -----------------

def ayyyyyye(obj):
    if isinstance(obj.obj, str):
        #?
        obj.obj
        #?
        obj
