""" needed for some modules to test against packages. """

some_variable = 1


from . import imports
#? int()
imports.relative()
