"""
Issues with the parser and not the type inference should be part of this file.
"""

class IndentIssues():
    """
    issue jedi-vim#288
    Which is really a fast parser issue. It used to start a new block at the
    parentheses, because it had problems with the indentation.
    """
    def one_param(
        self,
    ):
        return 1

    def with_param(
        self,
    y):
        return y



#? int()
IndentIssues().one_param()

#? str()
IndentIssues().with_param('')


"""
Just because there's a def keyword, doesn't mean it should not be able to
complete to definition.
"""
definition = 0
#? ['definition']
str(def


# It might be hard to determine the value
class Foo(object):
    @property
    #? ['str']
    def bar(x=str
