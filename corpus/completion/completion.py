"""
Special cases of completions (typically special positions that caused issues
with value parsing.
"""

def pass_decorator(func):
    return func


def x():
    return (
        1,
#? ["tuple"]
tuple
    )

    # Comment just somewhere


class MyClass:
    @pass_decorator
    def x(foo,
#? 5 []
tuple,
          ):
        return 1


if x:
    pass
#? ['else']
else

# python >= 3.11
try:
    pass
#? ['except', 'Exception', 'ExceptionGroup']
except

try:
    pass
#? 6 ['except', 'Exception', 'ExceptionGroup']
except AttributeError:
    pass
#? ['finally']
finally

for x in y:
    pass
#? ['else']
else
