def positional_only_call(a, /, b):
    #? str()
    a
    #? int()
    b
    if UNDEFINED:
        return a
    else:
        return b


#? int() str()
positional_only_call('', 1)


def positional_only_call2(a, /, b=3):
    if UNDEFINED:
        return a
    else:
        return b

#? int()
positional_only_call2(1)
#? int()
positional_only_call2(SOMETHING_UNDEFINED)
#? str()
positional_only_call2(SOMETHING_UNDEFINED, '')

# Maybe change this? Because it's actually not correct
#? int() str()
positional_only_call2(a=1, b='')
#? tuple str()
positional_only_call2(b='', a=tuple)
