from stub_folder import with_stub, stub_only, with_stub_folder, stub_only_folder

# -------------------------
# Just files
# -------------------------

#? int()
stub_only.in_stub_only
#? str()
with_stub.in_with_stub_both
#? int()
with_stub.in_with_stub_python
#? float()
with_stub.in_with_stub_stub

#! ['in_stub_only: int']
stub_only.in_stub_only
#! ['in_with_stub_both = 5']
with_stub.in_with_stub_both
#! ['in_with_stub_python = 8']
with_stub.in_with_stub_python
#! ['in_with_stub_stub: float']
with_stub.in_with_stub_stub

#? ['in_stub_only']
stub_only.in_
#? ['in_stub_only']
from stub_folder.stub_only import in_
#? ['in_with_stub_both', 'in_with_stub_python', 'in_with_stub_stub']
with_stub.in_
#? ['in_with_stub_both', 'in_with_stub_python', 'in_with_stub_stub']
from stub_folder.with_stub import in_

#? ['with_stub', 'stub_only', 'with_stub_folder', 'stub_only_folder']
from stub_folder.


# -------------------------
# Folders
# -------------------------

#? int()
stub_only_folder.in_stub_only_folder
#? str()
with_stub_folder.in_with_stub_both_folder
#? int()
with_stub_folder.in_with_stub_python_folder
#? float()
with_stub_folder.in_with_stub_stub_folder

#? ['in_stub_only_folder']
stub_only_folder.in_
#? ['in_with_stub_both_folder', 'in_with_stub_python_folder', 'in_with_stub_stub_folder']
with_stub_folder.in_

# -------------------------
# Folders nested with stubs
# -------------------------

from stub_folder.with_stub_folder import nested_stub_only, nested_with_stub, \
    python_only

#? int()
nested_stub_only.in_stub_only
#? float()
nested_with_stub.in_both
#? str()
nested_with_stub.in_python
#? int()
nested_with_stub.in_stub
#? str()
python_only.in_python

#? ['in_stub_only_folder']
stub_only_folder.in_
#? ['in_with_stub_both_folder', 'in_with_stub_python_folder', 'in_with_stub_stub_folder']
with_stub_folder.in_
#? ['in_python']
python_only.in_

# -------------------------
# Folders nested with stubs
# -------------------------

from stub_folder.stub_only_folder import nested_stub_only, nested_with_stub, \
    python_only

#? int()
nested_stub_only.in_stub_only
#? float()
nested_with_stub.in_both
#? str()
nested_with_stub.in_python
#? int()
nested_with_stub.in_stub
#? str()
python_only.in_python

#? ['in_stub_only']
nested_stub_only.in_
#? ['in_both', 'in_python', 'in_stub']
nested_with_stub.in_
#? ['in_python']
python_only.in_
