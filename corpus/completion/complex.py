""" Mostly for stupid error reports of @dbrgn. :-) """

import time

class Foo(object):
    global time
    asdf = time

def asdfy():
    return Foo

xorz = getattr(asdfy()(), 'asdf')
#? time
xorz



def args_returner(*args):
    return args


#? tuple()
args_returner(1)[:]
#? int()
args_returner(1)[:][0]


def kwargs_returner(**kwargs):
    return kwargs


# TODO This is not really correct, needs correction probably at some point, but
#      at least it doesn't raise an error.
#? int()
kwargs_returner(a=1)[:]
#?
kwargs_returner(b=1)[:][0]
