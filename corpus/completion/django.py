import datetime
import decimal
import uuid

from django.db import models
from django.contrib.auth.models import User
from django.db.models.query_utils import DeferredAttribute
from django.db.models.manager import BaseManager


class TagManager(models.Manager):
    def specially_filtered_tags(self):
        return self.all()


class Tag(models.Model):
    tag_name = models.CharField()

    objects = TagManager()

    custom_objects = TagManager()


class Category(models.Model):
    category_name = models.CharField()


class AttachedData(models.Model):
    extra_data = models.TextField()


class BusinessModel(models.Model):
    attached_o2o = models.OneToOneField(AttachedData)

    category_fk = models.ForeignKey(Category)
    category_fk2 = models.ForeignKey('Category')
    category_fk3 = models.ForeignKey(1)
    category_fk4 = models.ForeignKey('models')
    category_fk5 = models.ForeignKey()

    integer_field = models.IntegerField()
    big_integer_field = models.BigIntegerField()
    positive_integer_field = models.PositiveIntegerField()
    small_integer_field = models.SmallIntegerField()
    char_field = models.CharField()
    text_field = models.TextField()
    email_field = models.EmailField()
    ip_address_field = models.GenericIPAddressField()
    url_field = models.URLField()
    float_field = models.FloatField()
    binary_field = models.BinaryField()
    boolean_field = models.BooleanField()
    decimal_field = models.DecimalField()
    time_field = models.TimeField()
    duration_field = models.DurationField()
    date_field = models.DateField()
    date_time_field = models.DateTimeField()
    uuid_field = models.UUIDField()
    tags_m2m = models.ManyToManyField(Tag)

    unidentifiable = NOT_FOUND

    #? models.IntegerField()
    integer_field

    def method(self):
        return 42

# -----------------
# Model attribute inference
# -----------------

#? DeferredAttribute()
BusinessModel.integer_field
#? DeferredAttribute()
BusinessModel.tags_m2m
#? DeferredAttribute()
BusinessModel.email_field

model_instance = BusinessModel()

#? int()
model_instance.integer_field
#? int()
model_instance.big_integer_field
#? int()
model_instance.positive_integer_field
#? int()
model_instance.small_integer_field
#? str()
model_instance.char_field
#? str()
model_instance.text_field
#? str()
model_instance.email_field
#? str()
model_instance.ip_address_field
#? str()
model_instance.url_field
#? float()
model_instance.float_field
#? bytes()
model_instance.binary_field
#? bool()
model_instance.boolean_field
#? decimal.Decimal()
model_instance.decimal_field
#? datetime.time()
model_instance.time_field
#? datetime.timedelta()
model_instance.duration_field
#? datetime.date()
model_instance.date_field
#? datetime.datetime()
model_instance.date_time_field
#? uuid.UUID()
model_instance.uuid_field

#! ['attached_o2o = models.OneToOneField(AttachedData)']
model_instance.attached_o2o
#! ['extra_data = models.TextField()']
model_instance.attached_o2o.extra_data
#? AttachedData()
model_instance.attached_o2o
#? str()
model_instance.attached_o2o.extra_data

#! ['category_fk = models.ForeignKey(Category)']
model_instance.category_fk
#! ['category_name = models.CharField()']
model_instance.category_fk.category_name
#? Category()
model_instance.category_fk
#? str()
model_instance.category_fk.category_name
#? Category()
model_instance.category_fk2
#? str()
model_instance.category_fk2.category_name
#?
model_instance.category_fk3
#?
model_instance.category_fk4
#?
model_instance.category_fk5

#? models.manager.RelatedManager()
model_instance.tags_m2m
#? Tag()
model_instance.tags_m2m.get()
#? ['add']
model_instance.tags_m2m.add

#?
model_instance.unidentifiable
#! ['unidentifiable = NOT_FOUND']
model_instance.unidentifiable

#? int()
model_instance.method()
#! ['def method']
model_instance.method

# -----------------
# Queries
# -----------------

#? ['objects']
model_instance.object
#?
model_instance.objects
#?
model_instance.objects.filter
#? models.query.QuerySet.filter
BusinessModel.objects.filter
#? BusinessModel() None
BusinessModel.objects.filter().first()
#? str()
BusinessModel.objects.get().char_field
#? int()
BusinessModel.objects.update(x='')
#? BusinessModel()
BusinessModel.objects.create()

# -----------------
# Custom object manager
# -----------------

#? TagManager()
Tag.objects
#? Tag() None
Tag.objects.filter().first()

#? TagManager()
Tag.custom_objects
#? Tag() None
Tag.custom_objects.filter().first()

# -----------------
# Inheritance
# -----------------

class Inherited(BusinessModel):
    text_field = models.IntegerField()
    new_field = models.FloatField()

inherited = Inherited()
#? int()
inherited.text_field
#? str()
inherited.char_field
#? float()
inherited.new_field

#?
Inherited.category_fk2.category_name
#? str()
inherited.category_fk2.category_name
#? str()
Inherited.objects.get().char_field
#? int()
Inherited.objects.get().text_field
#? float()
Inherited.objects.get().new_field

# -----------------
# Model methods
# -----------------

#? ['from_db']
Inherited.from_db
#? ['validate_unique']
Inherited.validate_uniqu
#? ['validate_unique']
Inherited().validate_unique

# -----------------
# Django Auth
# -----------------

#? str()
User().email
#? str()
User.objects.get().email

# -----------------
# values & values_list (dave is too lazy to implement it)
# -----------------

#?
BusinessModel.objects.values_list('char_field')[0]
#? dict()
BusinessModel.objects.values('char_field')[0]
#?
BusinessModel.objects.values('char_field')[0]['char_field']

# -----------------
# Completion
# -----------------

#? 19 ['text_field=']
Inherited(text_fiel)
#? 18 ['new_field=']
Inherited(new_fiel)
#? 19 ['char_field=']
Inherited(char_fiel)
#? 19 ['email_field=']
Inherited(email_fie)
#? 19 []
Inherited(unidentif)
#? 21 ['category_fk=', 'category_fk2=', 'category_fk3=', 'category_fk4=', 'category_fk5=']
Inherited(category_fk)
#? 21 ['attached_o2o=']
Inherited(attached_o2)
#? 18 ['tags_m2m=']
Inherited(tags_m2m)

#? 32 ['tags_m2m=']
Inherited.objects.create(tags_m2)
#? 32 ['tags_m2m=']
Inherited.objects.filter(tags_m2)
#? 35 ['char_field=']
Inherited.objects.exclude(char_fiel)
#? 34 ['char_field=']
Inherited.objects.update(char_fiel)
#? 32 ['email_field=']
Inherited.objects.get(email_fiel)
#? 44 ['category_fk2=']
Inherited.objects.get_or_create(category_fk2)
#? 44 ['uuid_field=']
Inherited.objects.update_or_create(uuid_fiel)
#? 48 ['char_field=']
Inherited.objects.exclude(pk=3).filter(char_fiel)
