"""
This is used for dynamic object completion.
Jedi tries to guess param types with a backtracking approach.
"""
def func(a, default_arg=2):
    #? int()
    default_arg
    #? int() str()
    return a

#? int()
func(1)

func

int(1) + (int(2))+ func('')

# Again the same function, but with another call.
def func(a):
    #? float()
    return a

func(1.0)

# Again the same function, but with no call.
def func(a):
    #? 
    return a

def func(a):
    #? float()
    return a
str(func(1.0))

# -----------------
# *args, **args
# -----------------
def arg(*args):
    #? tuple()
    args
    #? int()
    args[0]

arg(1,"")
# -----------------
# decorators
# -----------------
def def_func(f):
    def wrapper(*args, **kwargs):
        return f(*args, **kwargs)
    return wrapper

@def_func
def func(c):
    #? str()
    return c

#? str()
func("something")

@def_func
def func(c=1):
    #? float()
    return c

func(1.0)

def tricky_decorator(func):
    def wrapper(*args):
        return func(1, *args)

    return wrapper


@tricky_decorator
def func(a, b):
    #? int()
    a
    #? float()
    b

func(1.0)

# Needs to be here, because in this case func is an import -> shouldn't lead to
# exceptions.
import sys as func
func.sys

# -----------------
# classes
# -----------------

class A():
    def __init__(self, a):
        #? str()
        a

A("s")

class A():
    def __init__(self, a):
        #? int()
        a
        self.a = a

    def test(self, a):
        #? float()
        a
        self.c = self.test2()

    def test2(self):
        #? int()
        return self.a

    def test3(self):
        #? int()
        self.test2()
        #? int()
        self.c

A(3).test(2.0)
A(3).test2()


def from_class(x):
    #?
    x

from UNDEFINED import from_class

class Foo(from_class(1),):
    pass

# -----------------
# comprehensions
# -----------------

def from_comprehension(foo):
    #? int() float()
    return foo

[from_comprehension(1.0) for n in (1,)]
[from_comprehension(n) for n in (1,)]

# -----------------
# lambdas
# -----------------

#? int()
x_lambda = lambda x: x

x_lambda(1)

class X():
    #? str()
    x_method = lambda self, a: a


X().x_method('')
