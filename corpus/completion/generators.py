# -----------------
# yield statement
# -----------------
def gen():
    if random.choice([0, 1]):
        yield 1
    else:
        yield ""

gen_exe = gen()
#? int() str()
next(gen_exe)

#? int() str() list
next(gen_exe, list)


def gen_ret(value):
    yield value

#? int()
next(gen_ret(1))

#? []
next(gen_ret()).

# generators infer to true if cast by bool.
a = ''
if gen_ret():
    a = 3
#? int()
a


# -----------------
# generators should not be indexable
# -----------------
def get(param):
    if random.choice([0, 1]):
        yield 1
    else:
        yield ""

#? []
get()[0].

# -----------------
# __iter__
# -----------------
for a in get():
    #? int() str()
    a


class Get():
    def __iter__(self):
        if random.choice([0, 1]):
            yield 1
        else:
            yield ""

b = []
for a in Get():
    #? int() str()
    a
    b += [a]

#? list()
b
#? int() str()
b[0]

g = iter(Get())
#? int() str()
next(g)

g = iter([1.0])
#? float()
next(g)

x, y = Get()
#? int() str()
x
#? int() str()
x

class Iter:
    def __iter__(self):
        yield ""
        i = 0
        while True:
            v = 1
            yield v
            i += 1
a, b, c = Iter()
#? str() int()
a
#? str() int()
b
#? str() int()
c


# -----------------
# __next__
# -----------------
class Counter:
    def __init__(self, low, high):
        self.current = low
        self.high = high

    def __iter__(self):
        return self

    def next(self):
        """ need to have both __next__ and next, because of py2/3 testing """
        return self.__next__()

    def __next__(self):
        if self.current > self.high:
            raise StopIteration
        else:
            self.current += 1
            return self.current - 1


for c in Counter(3, 8):
    #? int()
    print c


# -----------------
# tuple assignments
# -----------------
def gen():
    if random.choice([0,1]):
        yield 1, ""
    else:
        yield 2, 1.0


a, b = next(gen())
#? int()
a
#? str() float()
b


def simple():
    if random.choice([0, 1]):
        yield 1
    else:
        yield ""

a, b = simple()
#? int() str()
a
# For now this is ok.
#? int() str()
b


def simple2():
    yield 1
    yield ""

a, b = simple2()
#? int()
a
#? str()
b

a, = (a for a in [1])
#? int()
a

# -----------------
# More complicated access
# -----------------

# `close` is a method wrapper.
#? ['__call__']
gen().close.__call__

#? 
gen().throw()

#? ['co_consts']
gen().gi_code.co_consts

#? []
gen.gi_code.co_consts

# `send` is also a method wrapper.
#? ['__call__']
gen().send.__call__

#? tuple()
gen().send()

#? 
gen()()

# -----------------
# empty yield
# -----------------

def x():
    yield

#? None
next(x())
#? gen()
x()

def x():
    for i in range(3):
        yield

#? None
next(x())

# -----------------
# yield in expression
# -----------------

def x():
     a= [(yield 1)]

#? int()
next(x())

# -----------------
# statements
# -----------------
def x():
    foo = yield
    #?
    foo

# -----------------
# yield from
# -----------------

def yield_from():
    yield from iter([1])

#? int()
next(yield_from())

def yield_from_multiple():
    yield from iter([1])
    yield str()
    return 2.0

x, y = yield_from_multiple()
#? int()
x
#? str()
y

def test_nested():
    x = yield from yield_from_multiple()
    #? float()
    x
    yield x

x, y, z = test_nested()
#? int()
x
#? str()
y
# For whatever reason this is currently empty
#? float()
z


def test_in_brackets():
    x = 1 + (yield from yield_from_multiple())
    #? float()
    x

    generator = (1 for 1 in [1])
    x = yield from generator
    #? None
    x
    x = yield from 1
    #?
    x
    x = yield from [1]
    #? None
    x


# -----------------
# Annotations
# -----------------

from typing import Iterator

def annotation1() -> float:
    yield 1

def annotation2() -> Iterator[float]:
    yield 1


#?
next(annotation1())
#? float()
next(annotation2())


# annotations should override generator inference
#? float()
annotation1()
