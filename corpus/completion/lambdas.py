# -----------------
# lambdas
# -----------------
a = lambda: 3
#? int()
a()

x = []
a = lambda x: x
#? int()
a(0)

#? float()
(lambda x: x)(3.0)

arg_l = lambda x, y: y, x
#? float()
arg_l[0]('', 1.0)
#? list()
arg_l[1]

arg_l = lambda x, y: (y, x)
args = 1,""
result = arg_l(*args)
#? tuple()
result
#? str()
result[0]
#? int()
result[1]

def with_lambda(callable_lambda, *args, **kwargs):
    return callable_lambda(1, *args, **kwargs)

#? int()
with_lambda(arg_l, 1.0)[1]
#? float()
with_lambda(arg_l, 1.0)[0]
#? float()
with_lambda(arg_l, y=1.0)[0]
#? int()
with_lambda(lambda x: x)
#? float()
with_lambda(lambda x, y: y, y=1.0)

arg_func = lambda *args, **kwargs: (args[0], kwargs['a'])
#? int()
arg_func(1, 2, a='', b=10)[0]
#? list()
arg_func(1, 2, a=[], b=10)[1]

# magic method
a = lambda: 3
#? ['__closure__']
a.__closure__

class C():
    def __init__(self, foo=1.0):
        self.a = lambda: 1
        self.foo = foo

    def ret(self):
        return lambda: self.foo

    def with_param(self):
        return lambda x: x + self.a()

    lambd = lambda self: self.foo

#? int()
C().a()

#? str()
C('foo').ret()()

index = C().with_param()(1)
#? float()
['', 1, 1.0][index]

#? float()
C().lambd()
#? int()
C(1).lambd()


def xy(param):
    def ret(a, b):
        return a + b

    return lambda b: ret(param, b)

#? int()
xy(1)(2)

# -----------------
# lambda param (#379)
# -----------------
class Test(object):
    def __init__(self, pred=lambda a, b: a):
        self.a = 1
        #? int()
        self.a
        #? float()
        pred(1.0, 2)

# -----------------
# test_nocond in grammar (happens in list comprehensions with `if`)
# -----------------
# Doesn't need to do anything yet. It should just not raise an error. These
# nocond lambdas make no sense at all.

#? int()
[a for a in [1,2] if (lambda: 3)][0]
