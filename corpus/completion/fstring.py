# python >= 3.11
class Foo:
    bar = 1

#? 10 int()
f'{Foo.bar}'
#? 10 ['bar']
f'{Foo.bar}'
#? 10 int()
Fr'{Foo.bar'
#? 10 ['bar']
Fr'{Foo.bar'
#? int()
Fr'{Foo.bar
#? ['bar']
Fr'{Foo.bar
#? ['Exception', 'ExceptionGroup']
F"{Excepti

#? 8 Foo
Fr'a{Foo.bar'
#? str()
Fr'sasdf'

#? 7 str()
Fr'''sasdf''' + ''

#? ['upper']
f'xyz'.uppe


#? 3 []
f'f'

# Github #1248
#? int()
{"foo": 1}[f"foo"]
