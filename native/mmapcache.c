/* LD_PRELOAD shim: serve the 16 KiB anonymous mappings that CPython 3.12 creates and destroys
 * for its frame data-stack chunks (thousands of mmap/munmap pairs per second when the call
 * depth oscillates around a chunk boundary) from a private pool.  In this VM fresh anonymous
 * page faults are very expensive under 16-way parallelism (measured: 3-4x slowdown of the whole
 * harness).  Semantics are unchanged: pool blocks are anonymous private memory, zero-filled on
 * every hand-out like fresh mmap memory; only addresses inside the pool are ever recycled;
 * every other mmap/munmap goes straight to the kernel. */
#define _GNU_SOURCE
#include <sys/mman.h>
#include <sys/syscall.h>
#include <unistd.h>
#include <string.h>
#include <stdatomic.h>
#include <stddef.h>
#include <stdint.h>

#define BLK 16384
#define NBLK 512
static char *pool = NULL;
static int freelist[NBLK];
static int nfree = 0;
static int pool_failed = 0;
static atomic_flag lock = ATOMIC_FLAG_INIT;

static void *raw_mmap(void *a, size_t l, int p, int f, int fd, off_t o) {
    return (void *)syscall(SYS_mmap, a, l, p, f, fd, o);
}

static void init_pool(void) {
    void *p = raw_mmap(NULL, (size_t)BLK * NBLK, PROT_READ | PROT_WRITE,
                       MAP_PRIVATE | MAP_ANONYMOUS, -1, 0);
    if (p == MAP_FAILED) { pool_failed = 1; return; }
    pool = (char *)p;
    for (int i = 0; i < NBLK; i++) freelist[i] = NBLK - 1 - i;
    nfree = NBLK;
}

void *mmap(void *addr, size_t len, int prot, int flags, int fd, off_t off) {
    if (addr == NULL && len == BLK && prot == (PROT_READ | PROT_WRITE)
        && (flags & MAP_ANONYMOUS) && (flags & MAP_PRIVATE) && fd == -1 && !pool_failed) {
        int idx = -1;
        while (atomic_flag_test_and_set(&lock)) ;
        if (!pool && !pool_failed) init_pool();
        if (pool && nfree > 0) idx = freelist[--nfree];
        atomic_flag_clear(&lock);
        if (idx >= 0) { char *p = pool + (size_t)idx * BLK; memset(p, 0, BLK); return p; }
    }
    return raw_mmap(addr, len, prot, flags, fd, off);
}

void *mmap64(void *addr, size_t len, int prot, int flags, int fd, off_t off) {
    return mmap(addr, len, prot, flags, fd, off);
}

int munmap(void *addr, size_t len) {
    if (pool && len == BLK && (char *)addr >= pool && (char *)addr < pool + (size_t)BLK * NBLK
        && (((char *)addr - pool) % BLK) == 0) {
        while (atomic_flag_test_and_set(&lock)) ;
        freelist[nfree++] = (int)(((char *)addr - pool) / BLK);
        atomic_flag_clear(&lock);
        return 0;
    }
    return (int)syscall(SYS_munmap, addr, len);
}
