NOT_YET = {}
STUBS = ('jedi from /repo working tree with the vendored typeshed stdlib (configuration `stubs`); '
         'CPython 3.12.1 + parso 0.8.7 of /venv; bounds as written in the evidence file')
CHECKS['C01'] = dict(
    text='Bounded-exhaustive exploration of the real Script API: every text of the token-soup, '
         'typing-prefix, small-edit and corpus families x every in-range and just-out-of-range '
         'position x every query method x every documented result attribute; oracle = no '
         'exception in range, ValueError exactly out of range. Coverage statement, not a proof.',
    note=STUBS, technique='small-scope exhaustive enumeration of (text, position, query) on the implementation')
CHECKS['C02'] = dict(
    text='Bounded-exhaustive exploration over the program family PF: every composition source x '
         'carrier chain up to the stated depth is rendered, executed by CPython under AST '
         'instrumentation, and every expression occurrence the run evaluated is probed with '
         'Script.infer; oracle = run-time class/def location must be reported (exactly, where one '
         'value can reach the expression).',
    note=STUBS + '; run-time values outside the tracked universe are not judged; implicit None returns are not judged',
    technique='small-scope exhaustive enumeration of generated programs, differential oracle = CPython execution')
CHECKS['C05'] = dict(
    text='Bounded-exhaustive exploration over PF programs (single- and multi-module, incl. '
         'cross-module definitions): every identifier occurrence bound by the generated sources; '
         'get_references partition law; one rename per reference class with token-level diff '
         '== reference set, execution of the renamed project (announced file renames applied) '
         'against the original run, and rename-back restoring every byte.',
    note=STUBS + '; identifiers of >= 3 characters only (jedi documents that shorter names are not searched in other modules)',
    technique='small-scope exhaustive enumeration of programs x occurrences, differential oracle = CPython execution + token diff')
CHECKS['C17'] = dict(
    text='Bounded-exhaustive exploration: PF programs and frozen corpus files in every layout '
         '(LF/CRLF/CR, tabs, form feeds, continuation lines, unicode identifiers, no final '
         'newline) x every identifier position x every query; oracle = the text at the reported '
         'position, an independent tokenisation for get_names and ast binding contexts for '
         'is_definition.',
    note=STUBS, technique='small-scope exhaustive enumeration of (text, layout, position, query); oracle = the text itself + tokenize/ast')
CHECKS['C06'] = dict(
    text='Bounded-exhaustive exploration of extract_variable / extract_function / inline: every '
         'AST expression node (cursor-only and explicit range), every whole-line statement range '
         'of function bodies in two selection conventions, every character sub-range of small '
         'programs, every single-assignment variable; oracle = RefactoringError or compile() '
         '(all selections), CPython execution old vs new (certified-pure selections), and the '
         'extract_variable -> inline round trip.',
    note=STUBS + '; purity certified conservatively by an ast visitor', 
    technique='small-scope exhaustive enumeration of (program, selection, refactoring); oracles compile() and CPython execution')
CHECKS['C07'] = dict(
    text='Bounded-exhaustive exploration of the two-step history inspect-then-apply for every '
         'refactoring request (rename / inline / extract_*) on PF programs in LF, CRLF, CR, '
         'no-final-newline and unicode layouts with the project on disk: directory snapshot '
         'before/after, unified-diff parser + own applier (+ GNU patch), exact announced contents '
         'after apply(), byte-for-byte survival of every line outside the rewritten statement.',
    note=STUBS + '; diff compared modulo the documented added final newline',
    technique='small-scope exhaustive enumeration of (program, layout, request) x {inspect, apply}; oracle = file system + own diff applier + GNU patch')
CHECKS['C18'] = dict(
    text='Bounded-exhaustive exploration: all nesting shapes over {class, def, async def, decorated '
         'def, lambda, comprehension} up to depth 3/4, PF programs and valid corpus files; '
         'get_context at every code token, parent() chain of every definition, full_name of '
         'module/class-level functions and classes; oracle = AST nesting and __qualname__.',
    note=STUBS + '; header tokens accept the definition or its enclosing scope',
    technique='small-scope exhaustive enumeration of nesting shapes x token positions; oracle = ast nesting')
CHECKS['C04'] = dict(
    text='Bounded-exhaustive exploration: corpus files, an ordering-case pool and PF programs x '
         'every cursor position inside/at the end of identifiers and after . ( , x {fuzzy, '
         'non-fuzzy}: algebraic laws of the result list (extension of the typed fragment, '
         'complete == missing suffix, prefix length, uniqueness, documented order); completeness: '
         'every receiver expression the instrumented run evaluated to a source-defined instance/'
         'class/module must be offered every source-defined attribute the run-time object has.',
    note=STUBS + '; string/number/comment positions and string-like completions are not judged by the identifier clauses',
    technique='small-scope exhaustive enumeration of (text, cursor, fuzzy); oracles = result-list algebra and CPython dir() of executed receivers')
