NOT_YET = {}
STUBS = ('jedi from /repo working tree with the vendored typeshed stdlib (configuration `stubs`); '
         'CPython 3.12.1 + parso 0.8.7 of /venv; bounds as written in the evidence file')
CHECKS['C01'] = dict(
    text='Bounded-exhaustive exploration of the real Script API: every text of the token-soup, '
         'typing-prefix, small-edit, corpus, statement-kind-snippet, line-separator and on-disk-'
         'project families x every in-range and just-out-of-range '
         'position x every query method x every documented result attribute; oracle = no '
         'exception in range, ValueError exactly out of range. Coverage statement, not a proof.',
    note=STUBS, technique='small-scope exhaustive enumeration of (text, position, query) on the implementation')
CHECKS['C02'] = dict(
    text='Bounded-exhaustive exploration over the program family PF: every composition source x '
         'carrier chain up to the stated depth is rendered, executed by CPython under AST '
         'instrumentation, and every expression occurrence the run evaluated is probed with '
         'Script.infer; oracle = run-time class/def location must be reported (exactly, where one '
         'value can reach the expression).',
    note=STUBS + '; run-time values outside the tracked universe are not judged; implicit None returns are not judged',
    technique='small-scope exhaustive enumeration of generated programs, differential oracle = CPython execution')
CHECKS['C05'] = dict(
    text='Bounded-exhaustive exploration over PF programs (single- and multi-module, incl. '
         'cross-module definitions): every identifier occurrence bound by the generated sources; '
         'get_references partition law; one rename per reference class with token-level diff '
         '== reference set, execution of the renamed project (announced file renames applied) '
         'against the original run, and rename-back restoring every byte; also with identifiers '
         'that start and end with non-ASCII letters.',
    note=STUBS + '; identifiers of >= 3 characters only (jedi documents that shorter names are not searched in other modules)',
    technique='small-scope exhaustive enumeration of programs x occurrences, differential oracle = CPython execution + token diff')
CHECKS['C17'] = dict(
    text='Bounded-exhaustive exploration: PF programs and frozen corpus files in every layout '
         '(LF/CRLF/CR, tabs, form feeds, continuation lines, unicode identifiers, no final '
         'newline) x every identifier position x every query; oracle = the text at the reported '
         'position, an independent tokenisation for get_names and ast binding contexts for '
         'is_definition; two-step histories (ask, change a file on disk, ask again) and texts read '
         'from disk (PEP 263 encodings, unsaved buffer analysed first).',
    note=STUBS, technique='small-scope exhaustive enumeration of (text, layout, position, query); oracle = the text itself + tokenize/ast')
CHECKS['C06'] = dict(
    text='Bounded-exhaustive exploration of extract_variable / extract_function / inline: every '
         'AST expression node (cursor-only and explicit range), every whole-line statement range '
         'of function bodies in two selection conventions, every character sub-range of small '
         'programs, every single-assignment variable; oracle = RefactoringError or compile() '
         '(all selections), CPython execution old vs new (certified-pure selections), and the '
         'extract_variable -> inline round trip.',
    note=STUBS + '; purity certified conservatively by an ast visitor', 
    technique='small-scope exhaustive enumeration of (program, selection, refactoring); oracles compile() and CPython execution')
CHECKS['C07'] = dict(
    text='Bounded-exhaustive exploration of the two-step history inspect-then-apply for every '
         'refactoring request (rename / inline / extract_*) on PF programs in LF, CRLF, CR, '
         'no-final-newline, unicode and exotic-separator layouts with the project on disk (package '
         'renames also with a pre-existing empty target directory): directory snapshot '
         'before/after, unified-diff parser + own applier (+ GNU patch), exact announced contents '
         'after apply(), byte-for-byte survival of every line outside the rewritten statement.',
    note=STUBS + '; diff compared modulo the documented added final newline',
    technique='small-scope exhaustive enumeration of (program, layout, request) x {inspect, apply}; oracle = file system + own diff applier + GNU patch')
CHECKS['C18'] = dict(
    text='Bounded-exhaustive exploration: all nesting shapes over {class, def, async def, decorated '
         'def, lambda, comprehension} up to depth 3/4, PF programs and valid corpus files; '
         'get_context at every code token, parent() chain of every definition, full_name of '
         'module/class-level functions and classes, for files at six locations below the project '
         'root; oracle = AST nesting and __qualname__.',
    note=STUBS + '; header tokens accept the definition or its enclosing scope',
    technique='small-scope exhaustive enumeration of nesting shapes x token positions; oracle = ast nesting')
CHECKS['C04'] = dict(
    text='Bounded-exhaustive exploration: corpus files, an ordering-case pool and PF programs x '
         'every cursor position inside/at the end of identifiers and after . ( , x {fuzzy, '
         'non-fuzzy}: algebraic laws of the result list (extension of the typed fragment, '
         'complete == missing suffix, prefix length, uniqueness, documented order); completeness: '
         'every receiver expression the instrumented run evaluated to a source-defined instance/'
         'class/module must be offered every source-defined attribute the run-time object has.',
    note=STUBS + '; string/number/comment positions and string-like completions are not judged by the identifier clauses',
    technique='small-scope exhaustive enumeration of (text, cursor, fuzzy); oracles = result-list algebra and CPython dir() of executed receivers')
CHECKS['C03'] = dict(
    text='Bounded-exhaustive exploration of scope nestings (module > def/class/lambda/comprehension, '
         'depth <= 3 quick / <= 4 thorough) x binding patterns x binding forms for one identifier; '
         'each program is executed with tagged bindings so every executed use names the binding '
         'site it really read; oracle = symtable (scope of resolution) + the observed tag: goto '
         'must land on same-spelled definitions of that scope, never in a scope Python does not '
         'consult, and exactly on the observed assignment for straight-line code.  Renderings: '
         'one statement per line, distractor spellings of the identifier, iterable tag carriers, '
         'and runs of simple statements joined on one physical line with `;`.',
    note=STUBS + '; one identifier; goto with default flags; CPython 3.12 comprehension inlining handled by a generator-expression rendering for symtable',
    technique='small-scope exhaustive enumeration of scope shapes; differential oracle = CPython execution with tagged bindings + symtable')
CHECKS['C10'] = dict(
    text='Bounded-exhaustive exploration of project trees (module / regular package / namespace '
         'directory, clashing names a/ab, one or two sys.path roots in every order, nested roots) x '
         'import forms issued from a top-level script and from every module; oracle = a clean '
         'child CPython (-I -S, sys.path = roots) run under four import orders; infer and '
         'goto(follow_imports) must name the same file / namespace path set / nothing; dotted '
         'names derived for files must import back to them.',
    note=STUBS + '; Project(sys_path=roots, smart_sys_path=False); cases whose CPython answer depends on import order accept any of the four',
    technique='small-scope exhaustive enumeration of directory trees x import forms; differential oracle = importlib in a clean child interpreter')
CHECKS['C11'] = dict(
    text='Bounded-exhaustive exploration of parameter lists over {positional-only, positional-or-'
         'keyword, *args, keyword-only, **kwargs} x {default, annotation} (<= 3 quick / <= 4 '
         'thorough) x 9 carriers (function, methods, classmethod, staticmethod, __init__, wraps, '
         'pass-through wrappers) x call prefixes with the cursor in every slot; oracle = '
         'inspect.signature / inspect.getdoc of the executed definition, call-shape binding, and '
         'a slot-class reading of index validated against upstream\'s hand-written table.',
    note=STUBS + '; index after */** unpacking only has to be right for some length; parameter names never start with __',
    technique='small-scope exhaustive enumeration of (signature, call prefix, cursor slot); differential oracle = inspect on the executed definition')
CHECKS['C12'] = dict(
    text='Bounded-exhaustive product of adversarial project trees (every file writes a sentinel at '
         'import; conftest/setup/sitecustomize/auto_import_modules names/.pth/buildout/django/'
         'real and fake .so) x 19 import forms x project options x environments x every query and '
         'refactoring call; after every single API call: sentinel absent, no project module in '
         'sys.modules, sys.path/cwd/environ unchanged - in the host and in the helper process '
         '(read back through the existing protocol). Non-vacuity controls run in every run.',
    note=STUBS + '; load_unsafe_extensions left at False (a project.json inside the tree that sets it is outside the premise and recorded, not judged)',
    technique='exhaustive product enumeration with per-call observation of host and helper process state')
CHECKS['C13'] = dict(
    text='Bounded-exhaustive exploration of live object graphs (12 special-method features alone '
         'and in pairs, on class/base/metaclass; file/exec/type()-created variants; builtin-'
         'container subclasses; nested containers) x expressions reaching them x all Interpreter '
         'queries x {safe, unsafe}; oracle = call counters inside the user-defined special '
         'methods (must stay 0 in safe mode), dir(obj) for completions, type(stored object) for '
         'infer on plain paths.',
    note=STUBS + '; __getattr__/__getattribute__/__dir__ are counted, not judged (the property does not list them)',
    technique='small-scope exhaustive enumeration of (object graph, expression, query, mode) with counter oracle')
CHECKS['C19'] = dict(
    text='Bounded-exhaustive products of generated project trees (built-in ignored folder names and '
         'near-misses, .gitignore at levels 0-2 x 14 pattern kinds x placements, definition kinds, '
         'module/package kinds, parse-limit family) under ascending and descending directory '
         'listing order x every identifier/prefix x search/complete_search x all_scopes x typed '
         'and dotted forms; oracle = the generator\'s inventory + a 15-line reference of the '
         'ignore rules; Script.search == filtered get_names.',
    note=STUBS + '; completeness demanded for exact-case spellings; directory listing order is an explorer choice (os.scandir seam)',
    technique='exhaustive product enumeration of directory trees x queries against a reference inventory')
CHECKS['C20'] = dict(
    text='Full product of Project constructor arguments (12 672 configurations) x three ways of '
         'loading x 36 script locations x get_sys_path variants; oracle = value equality after '
         'save/load and a 12-line reference model of the documented sys.path composition, plus '
         'import resolution compared with importlib.machinery.PathFinder on the composed path; '
         'shared-Project and project-discovery histories; invariance of the effective path under '
         'infer/goto in buffers that edit sys.path themselves.',
    note=STUBS + '; private environment passed to every Script; no .. in relative paths',
    technique='exhaustive product enumeration of configurations against a reference model')
CHECKS['C16'] = dict(
    text='Three bounded-exhaustive explorations: (i) schedules of jedi\'s only scheduling '
         'nondeterminism - value-set iteration order - controlled through a descriptor seam on '
         'ValueSet._set: canonical order vs every single-point reversal (pairs in thorough) for '
         'every query at every identifier of union-producing programs; (ii) all sequences of <= 3 '
         '(quick) / <= 4 queries from an 8-event alphabet (two raising) on one Script, then the '
         'probe battery vs a fresh Script; (iii) the battery in fresh processes under a menu of '
         'PYTHONHASHSEED x heap perturbation, incl. an Interpreter over type()-made classes.',
    note=STUBS + '; orders of plain built-in sets are covered by the finite process menu only; goto compared as a set',
    technique='controlled-scheduler exploration of set-iteration order + stateless history search + process-configuration menu')
CHECKS['C08'] = dict(
    text='Stateless explicit-state search over edit histories (28 events: insert/delete/rename/'
         'parameter change/indent/paste/undo/typing + clock answers 0/4/601 s) on three base '
         'files in path and path=None modes: after every event a new Script in the same process '
         'answers a ~215-query battery, compared with a fresh interpreter for the text reached; '
         'incremental tree compared with a from-scratch parse (the property\'s proviso).',
    note=STUBS + '; virtual clock owns jedi.cache/parso.cache time and file mtimes; keystroke texts judged only when they raise',
    technique='stateless history enumeration to bounded depth; differential oracle = fresh process per text')
CHECKS['C09'] = dict(
    text='Stateless explicit-state search over file-system histories (16 events: write same/'
         'different size, delete, module<->package, __init__ add/remove, stub add/remove, rename, '
         'touch, restart with warm pickle cache) x clock answers (advance / same tick / older '
         'mtime) on a generated project; after every event a new Script answers 34 probes through '
         '7 import forms, compared with a fresh interpreter with an empty cache on the same '
         'snapshot. Deviation-0 histories must be clean.',
    note=STUBS + '; explorer owns file and directory mtimes; mtime deviations explored at depth <= 2',
    technique='stateless history enumeration with deviation bounding (mtime answers); differential oracle = fresh process with empty cache')
CHECKS['C15'] = dict(
    text='Bounded-exhaustive exploration of definition graphs over 10 edge kinds (assignment, call, '
         'inheritance, import, attribute, container, decorator, property, generator, __getattr__) '
         'up to the stated atom/node bounds incl. all small cycles, every query at every use; and 32 '
         'scaling families (chains, rings, diamonds, trees) for n = 1..64: no exception, work '
         'counted in sys.monitoring PY_START events of jedi/inference under a calibrated 20x '
         'budget (hard stop), growth law steps(2n) <= 8*steps(n)+c.',
    note=STUBS + '; work in parso, jedi/api and the helper process is not counted; no verdict depends on wall time',
    technique='small-scope exhaustive enumeration of definition graphs with a deterministic step-count oracle')
CHECKS['C14'] = dict(
    text='Exhaustive fault-plan enumeration at the pipe seam of the real CompiledSubprocess: every '
         'request index of the disturbed query x 7 phases (killed before send, killed after the '
         'request was flushed, reply truncated at 1 / half / len-1 bytes, helper raises '
         'KeyboardInterrupt / SystemExit) x up to 3 consecutive helper incarnations (quick: all '
         '1-crash plans + the 3-crash diagonal; thorough: all 2-crash plans), followed by two '
         'clean queries; plus all event histories of depth <= 5 (create/query/drop/gc/crash, <= 3 '
         'live Scripts) against a reference model of the helper-side state count. Oracle: '
         'InternalError only, at most one failure per crash, identical later answers, no zombie, '
         'fd and thread counts back to baseline, no blocking read on a live silent peer.',
    note=STUBS + '; automatic gc disabled and collected after every query so request counts depend on the history alone; get_signatures not used (3 s time cache pins inference states)',
    technique='exhaustive crash-point / fault-sequence enumeration with injector at the pipe seam + history search against a reference model')
