NOT_YET = {}
STUBS = ('jedi from /repo working tree with the vendored typeshed stdlib (configuration `stubs`); '
         'CPython 3.12.1 + parso 0.8.7 of /venv; bounds as written in the evidence file')
CHECKS['C01'] = dict(
    text='Bounded-exhaustive exploration of the real Script API: every text of the token-soup, '
         'typing-prefix, small-edit and corpus families x every in-range and just-out-of-range '
         'position x every query method x every documented result attribute; oracle = no '
         'exception in range, ValueError exactly out of range. Coverage statement, not a proof.',
    note=STUBS, technique='small-scope exhaustive enumeration of (text, position, query) on the implementation')
