NOT_YET = {}
STUBS = ('jedi from /repo working tree with the vendored typeshed stdlib (configuration `stubs`); '
         'CPython 3.12.1 + parso 0.8.7 of /venv; bounds as written in the evidence file')
CHECKS['C01'] = dict(
    text='Bounded-exhaustive exploration of the real Script API: every text of the token-soup, '
         'typing-prefix, small-edit and corpus families x every in-range and just-out-of-range '
         'position x every query method x every documented result attribute; oracle = no '
         'exception in range, ValueError exactly out of range. Coverage statement, not a proof.',
    note=STUBS, technique='small-scope exhaustive enumeration of (text, position, query) on the implementation')
CHECKS['C02'] = dict(
    text='Bounded-exhaustive exploration over the program family PF: every composition source x '
         'carrier chain up to the stated depth is rendered, executed by CPython under AST '
         'instrumentation, and every expression occurrence the run evaluated is probed with '
         'Script.infer; oracle = run-time class/def location must be reported (exactly, where one '
         'value can reach the expression).',
    note=STUBS + '; run-time values outside the tracked universe are not judged; implicit None returns are not judged',
    technique='small-scope exhaustive enumeration of generated programs, differential oracle = CPython execution')
CHECKS['C05'] = dict(
    text='Bounded-exhaustive exploration over PF programs (single- and multi-module, incl. '
         'cross-module definitions): every identifier occurrence bound by the generated sources; '
         'get_references partition law; one rename per reference class with token-level diff '
         '== reference set, execution of the renamed project (announced file renames applied) '
         'against the original run, and rename-back restoring every byte.',
    note=STUBS + '; identifiers of >= 3 characters only (jedi documents that shorter names are not searched in other modules)',
    technique='small-scope exhaustive enumeration of programs x occurrences, differential oracle = CPython execution + token diff')
