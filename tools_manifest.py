#!/usr/bin/env python3
"""Regenerates MANIFEST.json from the table below (kept valid at all times)."""
import json, os, subprocess
HERE = os.path.dirname(os.path.abspath(__file__))
CHECKS = {}   # id -> dict(text=, note=, technique=, design=)
exec(open(os.path.join(HERE, 'manifest_table.py')).read())
ALL = ['C%02d' % i for i in range(1, 21)]
try:
    commits = subprocess.run(['git', '-C', '/repo', 'log', '--format=%h %s', 'f06af4c..HEAD'],
                             capture_output=True, text=True).stdout.strip().splitlines()
except Exception:
    commits = []
m = {
    'version': 1,
    'setup_cmd': 'bin/setup',
    'hooks': {
        'guard': 'JEDI_VERIF',
        'enable': 'none needed: every seam is reached by attribute replacement from the harness '
                  'process (DESIGN §0); the guard is declared and unused, /repo carries only fix: commits',
        'baseline_off_cmd': 'cd /repo && /venv/bin/python -m pytest -ra -q -p no:cacheprovider '
                            '--timeout=900 --continue-on-collection-errors',
        'source_commits': [],
        'add_only': True,
    },
    'engines': [{'name': 'jv', 'path': 'lib/jv', 'serves_properties': sorted(CHECKS),
                 'kind_free_text': 'hand-written bounded-exhaustive explorers over the real '
                 'implementation (small-scope enumeration, stateless history search, fault-plan '
                 'enumeration, set-order schedules) with differential oracles'}],
    'checks': [],
    'not_applicable': [],
    'notes': 'fix: commits in /repo: ' + '; '.join(commits),
}
for pid in ALL:
    if pid in CHECKS:
        c = CHECKS[pid]
        m['checks'].append({
            'property_id': pid,
            'quick_cmd': 'bin/check %s --tier quick' % pid,
            'thorough_cmd': 'bin/check %s --tier thorough' % pid,
            'evidence_file': 'evidence/%s.json' % pid,
            'replay_cmd_template': 'bin/check %s --replay {path}' % pid,
            'engine': 'jv',
            'level_claimed': {'category': 'model_checking', 'text': c['text'],
                              'design_ref': c.get('design', 'DESIGN.md §4 ' + pid)},
            'level_note': c['note'],
            'technique': c['technique'],
        })
    else:
        m['not_applicable'].append({'property_id': pid, 'reason': NOT_YET.get(
            pid, 'check not built yet in this round; no claim is made for this property')})
json.dump(m, open(os.path.join(HERE, 'MANIFEST.json'), 'w'), indent=1)
print('checks:', sorted(CHECKS), 'not_applicable:', [x['property_id'] for x in m['not_applicable']])
