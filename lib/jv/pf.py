"""Program family PF (DESIGN §3.4): executable programs composed from language-feature carriers.

A *carrier* takes "an expression e that evaluates to the tracked value" and returns new prelude
statements plus a new expression that evaluates to the same value by another route.  Programs
are enumerated as compositions  source ∘ c1 ∘ c2 ∘ ...  with stable ids.  Every carrier
instance uses fresh names (suffix = its position in the chain) so jedi's documented give-up
limits are not reached and every helper function is called exactly once.
"""
import itertools
import re

_SHORT_NUM = re.compile(r'\b([A-Za-z])(\d+)\b')
_SHORT = re.compile(r'\b([qrakfx])\b')


def long_names(text):
    """Carriers are written with terse names (v1, q); programs are rendered with identifiers of
    >= 3 characters, because jedi deliberately does not search other modules for references
    of names of <= 2 characters (references.py: "Very short names are not searched in other
    modules") - a documented performance heuristic that is not what the properties are about."""
    return _SHORT.sub(r'\1_p', _SHORT_NUM.sub(r'\1x\2', text))


def unicode_edge_names(text):
    """Layout variant: identifiers that START and END with a non-ASCII letter (äKx0ß)."""
    return re.sub(r'\b([A-Za-z])x(\d+)\b', r'ä\1x\2ß', text)


def unicode_names(text):
    """Layout variant: the same identifiers with a non-ASCII letter inside (Kx0 -> Kéx0)."""
    return re.sub(r'\b([A-Za-z])x(\d+)\b', r'\1éx\2', text)


def compat_names(text):
    """Layout variant: identifiers written with a compatibility character (Kx0 -> Kﬁx0, U+FB01).
    Python treats `Kﬁx0` and `Kfix0` as the same identifier (PEP 3131, NFKC); the TEXT of the
    token is still what the user wrote."""
    return re.sub(r'\b([A-Za-z])x(\d+)\b', '\\1\ufb01x\\2', text)


class Prog:
    def __init__(self):
        self.files = {}            # relpath -> list of source lines (other modules)
        self.main = []             # lines of main.py so far
        self.expr = None           # expression valid at the end of main.py
        self.branching = False     # some carrier introduced a merge of several values
        self.chain = []
        self.src = None
        self.behaviour = 'print(repr(RESULT))'
        self.protocol_names = set()   # identifiers whose spelling is fixed by Python
        self.owner = 'source'         # carrier that owns the lines being added

    def add(self, *lines):
        for l in lines:
            self.main.extend((x, self.owner) for x in l.split('\n'))

    def pid(self):
        return 'pf:' + self.src + ''.join('∘' + c for c in self.chain)

    def render(self, behaviour=True):
        """-> {relpath: text}; main.py ends with RESULT = <expr> and the behaviour print."""
        files = {k: '\n'.join(l for l, _ in v) + '\n' for k, v in self.files.items()}
        main = [l for l, _ in self.main] + ['RESULT = ' + self.expr]
        if behaviour:
            main.append(self.behaviour)
        files['main.py'] = '\n'.join(main) + '\n'
        return {k: long_names(v) for k, v in files.items()}

    def protocol(self):
        return {long_names(n) for n in self.protocol_names}

    def owners(self):
        """{relpath: [owner of line 1, owner of line 2, ...]}"""
        out = {k: [o for _, o in v] for k, v in self.files.items()}
        out['main.py'] = [o for _, o in self.main] + ['RESULT', 'RESULT']
        return out


# --- sources -----------------------------------------------------------------------------------

def s_instance(p):
    p.add("class K0:\n    def __repr__(self):\n        return 'K-instance'")
    p.expr = 'K0()'


def s_class(p):
    p.add("class K0:\n    def __repr__(self):\n        return 'K-instance'")
    p.expr = 'K0'
    p.behaviour = 'print(repr(RESULT()))'


def s_function(p):
    p.add("def fn0():\n    return 7")
    p.expr = 'fn0'
    p.behaviour = 'print(RESULT())'


def s_int(p):
    p.expr = '1'


def s_str(p):
    p.expr = "'s'"


def s_list(p):
    p.expr = '[1.5]'


def s_dict(p):
    p.expr = "{'a': 2}"


def s_tuple(p):
    p.expr = "(1, 's')"


def s_none(p):
    p.expr = 'None'


# the name of the value's class where it can be written as an annotation / isinstance argument
TNAME = {'inst': 'K0', 'int': 'int', 'str': 'str', 'list': 'list', 'dict': 'dict',
         'tuple': 'tuple'}
MOVERS = {'star_chain', 'import_mod', 'from_import', 'from_import_as', 'import_as', 'pkg_relative',
          'pkg_init_reexport', 'star_import', 'pkg_prefix_sibling', 'pkg_self_import', 'namespace_pkg'}
TYPED = set()      # carriers that need the type name in scope


def applicable(src, chain):
    """Typed carriers need a source whose class can be named and no module move before them
    (the class name would be out of scope)."""
    for k, c in enumerate(chain):
        if c in TYPED:
            if src not in TNAME:
                return False
            if src == 'inst' and any(m in MOVERS for m in chain[:k]):
                return False
    return True


SOURCES = [('inst', s_instance), ('cls', s_class), ('func', s_function), ('int', s_int),
           ('str', s_str), ('list', s_list), ('dict', s_dict), ('tuple', s_tuple),
           ('none', s_none)]
SOURCE_MAP = dict(SOURCES)

# --- carriers ----------------------------------------------------------------------------------
# each: f(p, i) mutates p; i = fresh index.  BRANCHING lists carriers after which several
# values may reach the expression (the "exactly" clause is then not applied).

CARRIERS = []
BRANCHING = set()
CORE = set()


def carrier(name, branching=False, core=False, typed=False):
    def deco(f):
        CARRIERS.append((name, f))
        if typed:
            TYPED.add(name)
        if branching:
            BRANCHING.add(name)
        if core:
            CORE.add(name)
        return f
    return deco


@carrier('assign', core=True)
def _(p, i):
    p.add(f'v{i} = {p.expr}')
    p.expr = f'v{i}'


@carrier('chain_assign')
def _(p, i):
    p.add(f'v{i} = w{i} = {p.expr}')
    p.expr = f'w{i}'


# (no `v: object = e` carrier: jedi documents that a declared annotation wins over the value)


@carrier('tuple0', core=True)
def _(p, i):
    p.add(f'a{i}, b{i} = {p.expr}, 1')
    p.expr = f'a{i}'


@carrier('tuple1')
def _(p, i):
    p.add(f'a{i}, b{i} = 1, {p.expr}')
    p.expr = f'b{i}'


@carrier('nested_unpack')
def _(p, i):
    p.add(f'(a{i}, (b{i}, c{i})) = (1, ({p.expr}, 2))')
    p.expr = f'b{i}'


@carrier('star_first')
def _(p, i):
    p.add(f'a{i}, *b{i} = {p.expr}, 1, 2')
    p.expr = f'a{i}'


@carrier('star_rest')
def _(p, i):
    p.add(f'a{i}, *b{i} = 1, {p.expr}')
    p.expr = f'b{i}[0]'


@carrier('list_unpack')
def _(p, i):
    p.add(f'[a{i}, b{i}] = [{p.expr}, 1]')
    p.expr = f'a{i}'


@carrier('for_target', core=True)
def _(p, i):
    p.add(f'for t{i} in [{p.expr}]:\n    pass')
    p.expr = f't{i}'


@carrier('for_tuple_target')
def _(p, i):
    p.add(f'for t{i}, u{i} in [({p.expr}, 1)]:\n    pass')
    p.expr = f't{i}'


@carrier('for_over_tuple')
def _(p, i):
    p.add(f'for t{i} in ({p.expr},):\n    pass')
    p.expr = f't{i}'


@carrier('with_as')
def _(p, i):
    p.add(f'class CM{i}:\n    def __init__(self, v):\n        self.v = v\n'
          f'    def __enter__(self):\n        return self.v\n'
          f'    def __exit__(self, *exc):\n        return False')
    p.add(f'with CM{i}({p.expr}) as w{i}:\n    pass')
    p.expr = f'w{i}'
    p.protocol_names |= {'__enter__', '__exit__', '__init__'}


@carrier('walrus')
def _(p, i):
    p.add(f'(w{i} := {p.expr})')
    p.expr = f'w{i}'


@carrier('condexpr', branching=True)
def _(p, i):
    p.add(f'v{i} = {p.expr} if len("ab") == 2 else 0.5')
    p.expr = f'v{i}'


@carrier('if_else', branching=True)
def _(p, i):
    p.add(f'if len("ab") == 2:\n    v{i} = {p.expr}\nelse:\n    v{i} = 0.5')
    p.expr = f'v{i}'


@carrier('try_else', branching=True)
def _(p, i):
    p.add(f'try:\n    v{i} = {p.expr}\nexcept ValueError:\n    v{i} = 0.5')
    p.expr = f'v{i}'


@carrier('list_index', core=True)
def _(p, i):
    p.expr = f'[{p.expr}][0]'


@carrier('list_index1')
def _(p, i):
    p.expr = f'[1, {p.expr}][1]'


@carrier('tuple_index')
def _(p, i):
    p.expr = f'({p.expr}, 1)[0]'


@carrier('dict_key', core=True)
def _(p, i):
    p.expr = "{'k': %s}['k']" % p.expr


@carrier('list_var_index')
def _(p, i):
    p.add(f'l{i} = [{p.expr}, 1]')
    p.expr = f'l{i}[0]'


@carrier('dict_var_key')
def _(p, i):
    p.add("d%d = {'k': %s, 'j': 1}" % (i, p.expr))
    p.expr = f"d{i}['k']"


@carrier('listcomp')
def _(p, i):
    p.add(f'l{i} = [x{i} for x{i} in [{p.expr}]]')
    p.expr = f'l{i}[0]'


@carrier('dictcomp')
def _(p, i):
    p.add("d%d = {k%d: %s for k%d in ['a']}" % (i, i, p.expr, i))
    p.expr = f"d{i}['a']"


@carrier('genexp_next')
def _(p, i):
    p.add(f'g{i} = (x{i} for x{i} in [{p.expr}])')
    p.expr = f'next(g{i})'


@carrier('genexp_for')
def _(p, i):
    p.add(f'for t{i} in (x{i} for x{i} in [{p.expr}]):\n    pass')
    p.expr = f't{i}'


@carrier('generator_for', core=True)
def _(p, i):
    p.add(f'def g{i}(q):\n    yield q')
    p.add(f'for t{i} in g{i}({p.expr}):\n    pass')
    p.expr = f't{i}'


@carrier('yield_from')
def _(p, i):
    p.add(f'def g{i}(q):\n    yield q\ndef h{i}(q):\n    yield from g{i}(q)')
    p.add(f'for t{i} in h{i}({p.expr}):\n    pass')
    p.expr = f't{i}'


@carrier('generator_next')
def _(p, i):
    p.add(f'def g{i}(q):\n    yield q')
    p.expr = f'next(g{i}({p.expr}))'


@carrier('return_global')
def _(p, i):
    p.add(f'v{i} = {p.expr}')
    p.add(f'def f{i}():\n    return v{i}')
    p.expr = f'f{i}()'


@carrier('identity', core=True)
def _(p, i):
    p.add(f'def f{i}(q):\n    return q')
    p.expr = f'f{i}({p.expr})'


@carrier('local_var')
def _(p, i):
    p.add(f'def f{i}(q):\n    r = q\n    return r')
    p.expr = f'f{i}({p.expr})'


@carrier('default')
def _(p, i):
    p.add(f'def f{i}(q={p.expr}):\n    return q')
    p.expr = f'f{i}()'


@carrier('kwarg', core=True)
def _(p, i):
    p.add(f'def f{i}(q, r=None):\n    return r')
    p.expr = f'f{i}(1, r={p.expr})'


@carrier('kwonly')
def _(p, i):
    p.add(f'def f{i}(*, r):\n    return r')
    p.expr = f'f{i}(r={p.expr})'


@carrier('posonly')
def _(p, i):
    p.add(f'def f{i}(q, /, r=0):\n    return q')
    p.expr = f'f{i}({p.expr})'


@carrier('star_args')
def _(p, i):
    p.add(f'def f{i}(*a):\n    return a[0]')
    p.expr = f'f{i}({p.expr})'


@carrier('star_kwargs')
def _(p, i):
    p.add(f"def f{i}(**k):\n    return k['x']")
    p.expr = f'f{i}(x={p.expr})'


@carrier('star_call')
def _(p, i):
    p.add(f'def f{i}(q, r):\n    return q')
    p.expr = f'f{i}(*[{p.expr}, 1])'


@carrier('dstar_call')
def _(p, i):
    p.add(f'def f{i}(qd{i}, r=1):\n    return qd{i}')
    p.expr = "f%d(**{'qd%d': %s})" % (i, i, p.expr)
    p.protocol_names.add(f'qd{i}')                  # reached only through a string


@carrier('lambda_ret')
def _(p, i):
    p.add(f'v{i} = {p.expr}')
    p.expr = f'(lambda: v{i})()'


@carrier('lambda_param')
def _(p, i):
    p.add(f'lam{i} = lambda q: q')
    p.expr = f'lam{i}({p.expr})'


@carrier('lambda_inline')
def _(p, i):
    p.expr = f'(lambda: {p.expr})()'


@carrier('closure', core=True)
def _(p, i):
    p.add(f'def o{i}(q):\n    def inner():\n        return q\n    return inner')
    p.expr = f'o{i}({p.expr})()'


@carrier('nonlocal_')
def _(p, i):
    p.add(f'def o{i}(q):\n    r = 0.5\n    def inner():\n        nonlocal r\n        r = q\n'
          f'    inner()\n    return r')
    p.expr = f'o{i}({p.expr})'
    # r holds 0.5 and q at different times
    p.branching = True


@carrier('global_', branching=False)
def _(p, i):
    p.add(f'def s{i}(q):\n    global G{i}\n    G{i} = q')
    p.add(f's{i}({p.expr})')
    p.expr = f'G{i}'


@carrier('decorator')
def _(p, i):
    p.add(f'def deco{i}(f):\n    return f')
    p.add(f'@deco{i}\ndef f{i}(q):\n    return q')
    p.expr = f'f{i}({p.expr})'


@carrier('wraps_decorator')
def _(p, i):
    p.add('import functools')
    p.add(f'def deco{i}(f):\n    @functools.wraps(f)\n    def wrapper(*args, **kwargs):\n'
          f'        return f(*args, **kwargs)\n    return wrapper')
    p.add(f'@deco{i}\ndef f{i}(q):\n    return q')
    p.expr = f'f{i}({p.expr})'


@carrier('class_attr', core=True)
def _(p, i):
    p.add(f'class C{i}:\n    attr{i} = {p.expr}')
    p.expr = f'C{i}.attr{i}'


@carrier('class_attr_inst')
def _(p, i):
    p.add(f'class C{i}:\n    attr{i} = {p.expr}')
    p.expr = f'C{i}().attr{i}'


@carrier('init_attr', core=True)
def _(p, i):
    p.add(f'class C{i}:\n    def __init__(self, q):\n        self.a{i} = q')
    p.expr = f'C{i}({p.expr}).a{i}'
    p.protocol_names.add('__init__')


@carrier('init_attr_var')
def _(p, i):
    p.add(f'class C{i}:\n    def __init__(self, q):\n        self.a{i} = q')
    p.add(f'o{i} = C{i}({p.expr})')
    p.expr = f'o{i}.a{i}'
    p.protocol_names.add('__init__')


@carrier('method_ret', core=True)
def _(p, i):
    p.add(f'class C{i}:\n    def __init__(self, q):\n        self.a{i} = q\n'
          f'    def get{i}(self):\n        return self.a{i}')
    p.expr = f'C{i}({p.expr}).get{i}()'
    p.protocol_names.add('__init__')


@carrier('inherited_method')
def _(p, i):
    p.add(f'class B{i}:\n    def m{i}(self, q):\n        return q')
    p.add(f'class D{i}(B{i}):\n    pass')
    p.expr = f'D{i}().m{i}({p.expr})'


@carrier('super_')
def _(p, i):
    p.add(f'class B{i}:\n    def m{i}(self, q):\n        return q')
    p.add(f'class D{i}(B{i}):\n    def m{i}(self, q):\n        return super().m{i}(q)')
    p.expr = f'D{i}().m{i}({p.expr})'


@carrier('property_', core=True)
def _(p, i):
    p.add(f'class C{i}:\n    def __init__(self, q):\n        self._q = q\n'
          f'    @property\n    def v{i}(self):\n        return self._q')
    p.expr = f'C{i}({p.expr}).v{i}'
    p.protocol_names.add('__init__')


@carrier('staticmethod_')
def _(p, i):
    p.add(f'class C{i}:\n    @staticmethod\n    def s{i}(q):\n        return q')
    p.expr = f'C{i}.s{i}({p.expr})'


@carrier('staticmethod_inst')
def _(p, i):
    p.add(f'class C{i}:\n    @staticmethod\n    def s{i}(q):\n        return q')
    p.expr = f'C{i}().s{i}({p.expr})'


@carrier('classmethod_')
def _(p, i):
    p.add(f'class C{i}:\n    @classmethod\n    def c{i}(cls, q):\n        return q')
    p.add(f'r{i} = C{i}.c{i}({p.expr})')
    p.expr = f'r{i}'


@carrier('call_')
def _(p, i):
    p.add(f'class C{i}:\n    def __call__(self, q):\n        return q')
    p.expr = f'C{i}()({p.expr})'
    p.protocol_names.add('__call__')


@carrier('getitem_')
def _(p, i):
    p.add(f'class C{i}:\n    def __init__(self, q):\n        self.q{i} = q\n'
          f'    def __getitem__(self, index):\n        return self.q{i}')
    p.expr = f'C{i}({p.expr})[0]'
    p.protocol_names |= {'__init__', '__getitem__'}


@carrier('iter_')
def _(p, i):
    p.add(f'class C{i}:\n    def __init__(self, q):\n        self.q{i} = q\n'
          f'    def __iter__(self):\n        yield self.q{i}')
    p.add(f'for t{i} in C{i}({p.expr}):\n    pass')
    p.expr = f't{i}'
    p.protocol_names |= {'__init__', '__iter__'}


@carrier('descriptor_')
def _(p, i):
    p.add(f'class Desc{i}:\n    def __init__(self, q):\n        self.q{i} = q\n'
          f'    def __get__(self, inst, owner):\n        return self.q{i}')
    p.add(f'class H{i}:\n    d{i} = Desc{i}({p.expr})')
    p.expr = f'H{i}().d{i}'
    p.protocol_names |= {'__init__', '__get__'}


@carrier('getattr_literal')
def _(p, i):
    p.add(f'class C{i}:\n    def __init__(self, q):\n        self.a{i} = q')
    p.expr = f"getattr(C{i}({p.expr}), 'a{i}')"
    p.protocol_names |= {'__init__', f'a{i}'}      # reached only through a string


@carrier('import_mod', core=True)
def _(p, i):
    p.files[f'mod{i}.py'] = list(p.main) + [(f'val{i} = {p.expr}', p.owner)]
    p.main = [(f'import mod{i}', p.owner)]
    p.expr = f'mod{i}.val{i}'


@carrier('from_import')
def _(p, i):
    p.files[f'mod{i}.py'] = list(p.main) + [(f'val{i} = {p.expr}', p.owner)]
    p.main = [(f'from mod{i} import val{i}', p.owner)]
    p.expr = f'val{i}'


@carrier('from_import_as')
def _(p, i):
    p.files[f'mod{i}.py'] = list(p.main) + [(f'val{i} = {p.expr}', p.owner)]
    p.main = [(f'from mod{i} import val{i} as alias{i}', p.owner)]
    p.expr = f'alias{i}'


@carrier('import_as')
def _(p, i):
    p.files[f'mod{i}.py'] = list(p.main) + [(f'val{i} = {p.expr}', p.owner)]
    p.main = [(f'import mod{i} as m{i}', p.owner)]
    p.expr = f'm{i}.val{i}'


@carrier('pkg_relative')
def _(p, i):
    p.files[f'pkg{i}/__init__.py'] = [('', p.owner)]
    p.files[f'pkg{i}/sub{i}.py'] = list(p.main) + [(f'val{i} = {p.expr}', p.owner)]
    p.files[f'pkg{i}/user{i}.py'] = [(f'from .sub{i} import val{i}', p.owner)]
    p.main = [(f'from pkg{i}.user{i} import val{i}', p.owner)]
    p.expr = f'val{i}'


@carrier('pkg_init_reexport')
def _(p, i):
    p.files[f'pkg{i}/sub{i}.py'] = list(p.main) + [(f'val{i} = {p.expr}', p.owner)]
    p.files[f'pkg{i}/__init__.py'] = [(f'from pkg{i}.sub{i} import val{i}', p.owner)]
    p.main = [(f'import pkg{i}', p.owner)]
    p.expr = f'pkg{i}.val{i}'


@carrier('star_import')
def _(p, i):
    p.files[f'mod{i}.py'] = list(p.main) + [(f'val{i} = {p.expr}', p.owner)]
    p.main = [(f'from mod{i} import *', p.owner)]
    p.expr = f'val{i}'


def _lib(p, i, *lines):
    p.files[f'lib{i}.py'] = [(x, p.owner) for l in lines for x in l.split('\n')]


@carrier('kwarg_xmod')
def _(p, i):
    _lib(p, i, f'def f{i}(q, r{i}=None):\n    return r{i}')
    p.add(f'from lib{i} import f{i}')
    p.expr = f'f{i}(1, r{i}={p.expr})'


@carrier('method_xmod')
def _(p, i):
    _lib(p, i, f'class C{i}:\n    def __init__(self, q):\n        self.a{i} = q\n'
               f'    def get{i}(self):\n        return self.a{i}')
    p.add(f'import lib{i}')
    p.expr = f'lib{i}.C{i}({p.expr}).get{i}()'
    p.protocol_names.add('__init__')


@carrier('inherit_xmod')
def _(p, i):
    _lib(p, i, f'class B{i}:\n    def m{i}(self, q):\n        return q')
    p.add(f'from lib{i} import B{i}')
    p.add(f'class D{i}(B{i}):\n    def m{i}(self, q):\n        return super().m{i}(q)')
    p.expr = f'D{i}().m{i}({p.expr})'


# --- carriers added after the first wave of seeded changes (each targets a mechanism the
# --- first families never exercised: MRO merging, lazy generator values, cls binding, ...)

@carrier('multi_inherit')
def _(p, i):
    p.add(f'class Left{i}:\n    def lonly{i}(self):\n        return 1')
    p.add(f'class Right{i}:\n    def mm{i}(self, q):\n        return q')
    p.add(f'class Child{i}(Left{i}, Right{i}):\n    pass')
    p.expr = f'Child{i}().mm{i}({p.expr})'


@carrier('diamond_mixin')
def _(p, i):
    p.add(f'class Base{i}:\n    def bb{i}(self):\n        return 0')
    p.add(f'class Mixin{i}:\n    mattr{i} = 2\n    def mix{i}(self, q):\n        self.mself{i} = q\n'
          f'        return self.mself{i}')
    p.add(f'class Left{i}(Base{i}):\n    pass')
    p.add(f'class Right{i}(Base{i}, Mixin{i}):\n    pass')
    p.add(f'class Child{i}(Left{i}, Right{i}):\n    pass')
    p.add(f'obj{i} = Child{i}()')
    p.expr = f'obj{i}.mix{i}({p.expr})'


@carrier('gen_hetero_star')
def _(p, i):
    p.add(f'def gen{i}(q):\n    for elem{i} in (q, 0.5):\n        yield elem{i}')
    p.add(f'def first{i}(one{i}, two{i}):\n    return one{i}')
    p.expr = f'first{i}(*gen{i}({p.expr}))'


@carrier('gen_hetero_relay')
def _(p, i):
    p.add(f'def gen{i}(q):\n    for elem{i} in (q, 0.5):\n        yield elem{i}')
    p.add(f'def relay{i}(q):\n    for item{i} in gen{i}(q):\n        yield item{i}')
    p.add(f'def first{i}(one{i}, two{i}):\n    return one{i}')
    p.expr = f'first{i}(*relay{i}({p.expr}))'


@carrier('inherited_classmethod')
def _(p, i):
    p.add(f'class Base{i}:\n    def __init__(self, q):\n        self.held{i} = q\n'
          f'    @classmethod\n    def create{i}(cls, q):\n        return cls(q)')
    p.add(f'class Mid{i}(Base{i}):\n    pass')
    p.add(f'class Leaf{i}(Mid{i}):\n    pass')
    p.add(f'made{i} = Leaf{i}.create{i}({p.expr})')
    p.expr = f'made{i}.held{i}'
    p.protocol_names.add('__init__')


@carrier('conditional_reimport')
def _(p, i):
    _lib(p, i, f'def pick{i}(q):\n    return q')
    p.add(f'def pick{i}(q):\n    return q')
    p.add(f'kept{i} = pick{i}({p.expr})')
    p.add(f'if len("ab") == 3:\n    from lib{i} import pick{i}')
    p.expr = f'pick{i}(kept{i})'
    p.branching = True


@carrier('pkg_prefix_sibling')
def _(p, i):
    p.files[f'pkg{i}/__init__.py'] = list(p.main) + [(f'val{i} = {p.expr}', p.owner)]
    p.files[f'pkg{i}_cli.py'] = [(f'import pkg{i}', p.owner), (f'shown{i} = pkg{i}.val{i}', p.owner)]
    p.main = [(f'from pkg{i}_cli import shown{i}', p.owner)]
    p.expr = f'shown{i}'


@carrier('pkg_self_import')
def _(p, i):
    p.files[f'pkg{i}/core{i}.py'] = list(p.main) + [(f'val{i} = {p.expr}', p.owner)]
    p.files[f'pkg{i}/__init__.py'] = [(f'import pkg{i}.core{i}', p.owner),
                                      (f'val{i} = pkg{i}.core{i}.val{i}', p.owner)]
    p.main = [(f'import pkg{i}', p.owner)]
    p.expr = f'pkg{i}.val{i}'


# --- typed carriers: annotations, docstring types, isinstance narrowing, more magic methods

@carrier('isinstance_narrow', typed=True)
def _(p, i):
    t = TNAME[p.src]
    p.add(f'def f{i}(q):\n    if isinstance(q, {t}):\n        return q\n    return 0.5')
    p.expr = f'f{i}({p.expr})'
    p.branching = True


@carrier('param_annotation', typed=True)
def _(p, i):
    t = TNAME[p.src]
    p.add(f'def f{i}(q: {t}):\n    return q')
    p.expr = f'f{i}({p.expr})'


@carrier('return_annotation', typed=True)
def _(p, i):
    t = TNAME[p.src]
    p.add(f'def f{i}(q) -> {t}:\n    return q')
    p.expr = f'f{i}({p.expr})'


@carrier('var_annotation', typed=True)
def _(p, i):
    t = TNAME[p.src]
    p.add(f'v{i}: {t} = {p.expr}')
    p.expr = f'v{i}'


@carrier('docstring_rtype', typed=True)
def _(p, i):
    t = TNAME[p.src]
    p.add(f'def f{i}(q):\n    """\n    :rtype: {t}\n    """\n    return q')
    p.expr = f'f{i}({p.expr})'


@carrier('docstring_param_type', typed=True)
def _(p, i):
    t = TNAME[p.src]
    p.add(f'def f{i}(q):\n    """\n    :type q: {t}\n    """\n    return q')
    p.expr = f'f{i}({p.expr})'


@carrier('magic_add')
def _(p, i):
    p.add(f'class C{i}:\n    def __add__(self, other):\n        return other')
    p.expr = f'(C{i}() + {p.expr})'
    p.protocol_names.add('__add__')


@carrier('magic_getattr')
def _(p, i):
    p.add(f'class C{i}:\n    def __init__(self, q):\n        self.kept{i} = q\n'
          f'    def __getattr__(self, name):\n        return self.kept{i}')
    p.expr = f'C{i}({p.expr}).anything{i}'
    p.protocol_names |= {'__init__', '__getattr__', f'anything{i}'}


@carrier('magic_enter_self')
def _(p, i):
    p.add(f'class CM{i}:\n    def __init__(self, q):\n        self.res{i} = q\n'
          f'    def __enter__(self):\n        return self\n'
          f'    def __exit__(self, *exc):\n        return False')
    p.add(f'with CM{i}({p.expr}) as w{i}:\n    got{i} = w{i}.res{i}')
    p.expr = f'got{i}'
    p.protocol_names |= {'__init__', '__enter__', '__exit__'}


@carrier('try_finally')
def _(p, i):
    p.add(f'try:\n    v{i} = {p.expr}\nfinally:\n    done{i} = 1')
    p.expr = f'v{i}'


@carrier('while_once')
def _(p, i):
    p.add(f'n{i} = 1\nwhile n{i}:\n    v{i} = {p.expr}\n    n{i} = 0')
    p.expr = f'v{i}'


@carrier('set_comp_iter')
def _(p, i):
    p.add(f'for t{i} in [x{i} for x{i} in ({p.expr},)]:\n    pass')
    p.expr = f't{i}'


@carrier('dict_values_for')
def _(p, i):
    p.add("d%d = {'k': %s}" % (i, p.expr))
    p.add(f'for t{i} in d{i}.values():\n    pass')
    p.expr = f't{i}'


@carrier('dict_items_for')
def _(p, i):
    p.add("d%d = {'k': %s}" % (i, p.expr))
    p.add(f'for k{i}, t{i} in d{i}.items():\n    pass')
    p.expr = f't{i}'


@carrier('list_append')
def _(p, i):
    p.add(f'l{i} = []\nl{i}.append({p.expr})')
    p.expr = f'l{i}[0]'


@carrier('nested_function_default')
def _(p, i):
    p.add(f'def o{i}(q):\n    def inner(r=q):\n        return r\n    return inner()')
    p.expr = f'o{i}({p.expr})'


# --- carriers added after the second wave of seeded changes

@carrier('if_chain_keep', branching=True)
def _(p, i):
    # an undecidable first test, a statically false elif, a rebinding in else: the value bound
    # before the chain survives at run time and must stay among the inferred ones
    p.add(f'def unk{i}():\n    return len("ab") == 2')
    p.add(f'DEBUG{i} = False')
    p.add(f'v{i} = {p.expr}')
    p.add(f'if unk{i}():\n    pass\nelif DEBUG{i}:\n    v{i} = 0.5\nelse:\n    v{i} = 1.5')
    p.expr = f'v{i}'


@carrier('closure_default_twice')
def _(p, i):
    # one nested def, two closures with different defaults: per-closure, not per-node
    p.add(f'def mk{i}(fmt):\n    def wr{i}(data, using=fmt):\n        return using\n    return wr{i}')
    p.add(f'wa{i} = mk{i}(0.5)')
    p.add(f'wb{i} = mk{i}({p.expr})')
    p.add(f'ra{i} = wa{i}(1)')
    p.expr = f'wb{i}(2)'


@carrier('star_chain')
def _(p, i):
    p.files[f'base{i}.py'] = list(p.main) + [(f'val{i} = {p.expr}', p.owner)]
    p.files[f'impl{i}.py'] = [(f'from base{i} import *', p.owner), (f'own{i} = 1', p.owner)]
    p.files[f'api{i}.py'] = [(f'from impl{i} import *', p.owner)]
    p.main = [(f'import api{i}', p.owner)]
    p.expr = f'api{i}.val{i}'


@carrier('global_rebind_fn')
def _(p, i):
    # the function that declares the global also rebinds it; uses are outside that function
    p.add(f'total{i} = 0.5')
    p.add(f'def bump{i}(q):\n    global total{i}\n    total{i} = q')
    p.add(f'def peek{i}():\n    return total{i}')
    p.add(f'bump{i}({p.expr})')
    p.expr = f'peek{i}()'
    p.branching = True


@carrier('magic_radd')
def _(p, i):
    # reflected operator: the left operand has no forward method for this right operand
    p.add(f'class R{i}:\n    def __radd__(self, other):\n        return other')
    p.expr = f'({p.expr} + R{i}())'
    p.protocol_names.add('__radd__')


@carrier('varargs_then_kw')
def _(p, i):
    # positional arguments collected by *items, directly followed by a keyword argument
    p.add(f'def pick{i}(*items{i}, style{i}=0.5):\n    return style{i}')
    p.expr = f'pick{i}(1, 2, style{i}={p.expr})'


@carrier('varargs_forward_kw')
def _(p, i):
    p.add(f'def inner{i}(first{i}, second{i}=0.5, kept{i}=0.5):\n    return kept{i}')
    p.add(f'def outer{i}(*args{i}, **kwargs{i}):\n    return inner{i}(*args{i}, **kwargs{i})')
    p.expr = f'outer{i}(1, 2, kept{i}={p.expr})'


@carrier('self_attr_closure')
def _(p, i):
    # the attribute is assigned through `self` inside a function nested in the method
    p.add(f'class C{i}:\n    def __init__(self, q):\n        def setit{i}():\n'
          f'            self.deep{i} = q\n        setit{i}()')
    p.expr = f'C{i}({p.expr}).deep{i}'
    p.protocol_names.add('__init__')


@carrier('namespace_pkg')
def _(p, i):
    # a directory without __init__.py: an implicit namespace package
    p.files[f'nsp{i}/inner{i}.py'] = list(p.main) + [(f'val{i} = {p.expr}', p.owner)]
    p.main = [(f'import nsp{i}.inner{i}', p.owner)]
    p.expr = f'nsp{i}.inner{i}.val{i}'


CARRIER_MAP = dict(CARRIERS)
CARRIER_NAMES = [n for n, _ in CARRIERS]


def build(src, chain):
    p = Prog()
    p.src = src
    SOURCE_MAP[src](p)
    for k, name in enumerate(chain, 1):
        p.owner = name
        CARRIER_MAP[name](p, k)
        p.chain.append(name)
        if name in BRANCHING:
            p.branching = True
    return p


def enumerate_programs(depth, sources=None, carriers=None):
    """All compositions of exactly `depth` carriers over the given sources, canonical order."""
    sources = sources or [s for s, _ in SOURCES]
    carriers = carriers or CARRIER_NAMES
    for src in sources:
        for chain in itertools.product(carriers, repeat=depth):
            if applicable(src, chain):
                yield src, list(chain)
