"""Entry point: python -m jv.runner <ID> [--tier quick|thorough] [--replay file]

Contract (MANIFEST): exit 0 = property held on everything explored (known findings are printed
as KNOWN-FINDING lines); exit 1 + `VIOLATION property=<id> replay=<path>` otherwise; exit 2 =
the harness itself is broken (never reported as a property violation).
"""
import argparse
import hashlib
import importlib
import json
import os
import shutil
import subprocess
import sys
import time
import traceback

from . import boot, findings

LEVEL = 'model_checking'


class Ctx:
    def __init__(self, pid, tier, seed, budget_s):
        self.pid = pid
        self.tier = tier
        self.seed = seed
        self.t0 = time.time()
        self.deadline = self.t0 + budget_s
        self.violations = []        # dicts: site, input, detail, case
        self.notes = []
        self.coverage = {}
        self.assumptions = []
        self.harness_errors = []

    def violation(self, site, input_id, detail, case):
        self.violations.append({'site': site, 'input': input_id, 'detail': detail, 'case': case})

    def note(self, msg):
        self.notes.append(msg)
        print('note: ' + msg, flush=True)

    def harness_error(self, msg):
        self.harness_errors.append(msg)
        print('HARNESS-ERROR: ' + msg[-2000:], flush=True)

    def time_left(self):
        return self.deadline - time.time()

    def absorb(self, pres, what):
        """Fold a PoolResult's harness-level problems into the context."""
        for i, tb in list(pres.harness_errors.items())[:3]:
            self.harness_error('%s task %s: %s' % (what, i, tb))
        for tb in pres.fatal[:3]:
            self.harness_error('%s worker: %s' % (what, tb))


def _digest(obj):
    return hashlib.sha256(json.dumps(obj, sort_keys=True, default=str).encode()).hexdigest()[:16]


def write_replay(pid, v):
    d = os.path.join(boot.VERIF, 'replays', pid)
    os.makedirs(d, exist_ok=True)
    rec = {'property': pid, 'site': v['site'], 'input': v['input'], 'detail': v['detail'],
           'case': v['case']}
    path = os.path.join(d, _digest([v['site'], v['input']]) + '.json')
    with open(path, 'w') as f:
        json.dump(rec, f, indent=1, sort_keys=True, default=str)
    return path


def confirm_replay(pid, path, times=2):
    """Re-execute a replay file in fresh processes; returns list of reproduced flags."""
    out = []
    for _ in range(times):
        env = dict(os.environ)
        env.pop('JV_SCRATCH', None)
        p = subprocess.run([sys.executable, '-B', '-m', 'jv.runner', pid, '--replay', path,
                            '--quiet'], env=env, capture_output=True, text=True, timeout=900)
        out.append(p.returncode == 1)
    return out


def main(argv=None):
    ap = argparse.ArgumentParser()
    ap.add_argument('pid')
    ap.add_argument('--tier', default=os.environ.get('VERIF_TIER') or 'quick')
    ap.add_argument('--replay')
    ap.add_argument('--quiet', action='store_true')
    ap.add_argument('--budget', type=float, default=None)
    ap.add_argument('--dump-failures', help='maintenance: write all (site,input) pairs seen')
    args = ap.parse_args(argv)
    pid = args.pid.upper()
    tier = args.tier if args.tier in ('quick', 'thorough') else 'quick'
    try:
        seed = int(os.environ.get('VERIF_SEED', '0') or 0)
    except ValueError:
        seed = 0
    mod = importlib.import_module('jv.props.' + pid.lower())
    scratch = boot.scratch_root()
    rc = 2
    try:
        if args.replay:
            rc = do_replay(mod, pid, args.replay, args.quiet)
        else:
            budget = args.budget or getattr(mod, 'BUDGET', {}).get(tier, 600 if tier == 'quick' else 3600)
            rc = do_check(mod, pid, tier, seed, budget, args.dump_failures)
    finally:
        if not os.environ.get('JV_KEEP_SCRATCH'):
            shutil.rmtree(scratch, ignore_errors=True)
    sys.exit(rc)


def do_replay(mod, pid, path, quiet):
    with open(path) as f:
        rec = json.load(f)
    got = mod.replay(rec['case'])   # list of (site, input, detail)
    hit = [g for g in got if g[0] == rec['site']]
    if not quiet:
        print(json.dumps({'expected_site': rec['site'], 'observed': got}, indent=1, default=str))
    if hit:
        print('VIOLATION property=%s replay=%s' % (pid, path))
        return 1
    print('replay: not reproduced (property holds on this case)')
    return 0


def do_check(mod, pid, tier, seed, budget, dump_failures=None):
    ctx = Ctx(pid, tier, seed, budget)
    try:
        mod.run(ctx)
    except Exception:
        ctx.harness_error(traceback.format_exc())
    wall = time.time() - ctx.t0
    known = findings.load(pid)
    unlisted, listed, stale = findings.classify(known, ctx.violations)
    if dump_failures:
        pairs = sorted({(v['site'], v['input']) for v in ctx.violations})
        with open(dump_failures, 'w') as f:
            json.dump(pairs, f, indent=0)
    for entry, n in listed:
        print('KNOWN-FINDING: property=%s %s (%d listed inputs seen)' % (pid, entry['what'], n))
    for entry in stale:
        print('note: stale known finding (no longer fails on the explored space): %s' % entry['what'])
    # de-duplicate unlisted by site; write at most 10 replay files
    rc = 0
    printed = 0
    seen_sites = {}
    for v in unlisted:
        seen_sites.setdefault(v['site'], []).append(v)
    nondeterministic = 0
    for site, vs in sorted(seen_sites.items()):
        v = vs[0]
        path = write_replay(pid, v)
        ok = [True]
        if hasattr(mod, 'replay') and printed < 3 and not os.environ.get('JV_NO_CONFIRM') \
                and not (isinstance(v.get('case'), dict) and v['case'].get('no_confirm')):
            try:
                ok = confirm_replay(pid, path)
            except Exception:
                ok = [False]
        if not all(ok):
            nondeterministic += 1
            ctx.harness_error('violation at %s input %s did not reproduce identically in fresh '
                              'processes (%s); treated as harness error' % (site, v['input'], ok))
            continue
        print('VIOLATION property=%s replay=%s' % (pid, path))
        print('  site=%s input=%s (%d inputs at this site)\n  detail=%s'
              % (site, v['input'], len(vs), json.dumps(v['detail'], default=str)[:1500]))
        printed += 1
        rc = 1
    cov = dict(ctx.coverage)
    cov.setdefault('traces_validated_against_impl', cov.get('transitions', 0))
    ev = {
        'property_id': pid, 'tier': tier, 'seed': seed, 'level': LEVEL,
        'coverage': cov, 'assumptions': ctx.assumptions, 'wall_s': round(wall, 2),
        'violations': len(unlisted),
        'known_findings_seen': [{'what': e['what'], 'inputs_seen': n} for e, n in listed],
        'notes': ctx.notes[:50],
    }
    os.makedirs(os.path.join(boot.VERIF, 'evidence'), exist_ok=True)
    evp = os.path.join(boot.VERIF, 'evidence', pid + '.json')
    with open(evp, 'w') as f:
        json.dump(ev, f, indent=1, sort_keys=True, default=str)
    print('%s tier=%s seed=%d states=%s transitions=%s distinct_nontrivial=%s exhaustive=%s '
          'violations=%d known=%d wall=%.1fs' % (
              pid, tier, seed, cov.get('states'), cov.get('transitions'),
              cov.get('distinct_nontrivial'), cov.get('exhaustive'), len(unlisted),
              sum(n for _, n in listed), wall), flush=True)
    if rc == 1:
        return 1          # a confirmed, unlisted violation outranks harness trouble elsewhere
    if ctx.harness_errors:
        return 2
    return rc


if __name__ == '__main__':
    main()
