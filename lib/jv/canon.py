"""Query battery and canonicalisation of jedi results into JSON values (DESIGN §3.3).

Touching *every documented attribute* of every result object is part of the battery.
"""
import os
import traceback

from . import boot

REPO_JEDI = os.path.join(os.path.abspath(boot.REPO), 'jedi') + os.sep


class JediFailure(Exception):
    """An exception escaped from jedi; .site is 'ExcType@module.func'."""
    def __init__(self, site, tb):
        super().__init__(site)
        self.site = site
        self.tb = tb


def exc_site(e):
    """ExcType@innermost-jedi-module.function — no line numbers (stable under edits)."""
    tb = e.__traceback__
    frames = traceback.extract_tb(tb)
    site = None
    for fr in frames:
        fn = os.path.abspath(fr.filename)
        if fn.startswith(REPO_JEDI):
            mod = fn[len(REPO_JEDI):].rsplit('.', 1)[0].replace(os.sep, '.')
            site = 'jedi.%s.%s' % (mod, fr.name)
    if site is None and frames:
        fr = frames[-1]
        site = '%s.%s' % (os.path.basename(fr.filename), fr.name)
    if isinstance(e, RecursionError):
        return 'RecursionError@<wherever the stack ran out>'    # the innermost frame is arbitrary
    return '%s@%s' % (type(e).__name__, site)


def short_tb(e, n=6):
    return ''.join(traceback.format_exception(type(e), e, e.__traceback__)[-n:])[-1500:]


def relpath(p, root=None):
    if p is None:
        return None
    p = str(p)
    ts = boot.TYPESHED
    if p.startswith(ts):
        return '<typeshed>' + p[len(ts):]
    if root and p.startswith(str(root)):
        return '<root>' + p[len(str(root)):]
    return p


NAME_ATTRS = ('name', 'type', 'module_name', 'line', 'column', 'description', 'full_name')


def name_core(n, root=None):
    """Cheap canonical identity of a Name-like object."""
    return [type(n).__name__, n.name, n.type, relpath(n.module_path, root), n.line, n.column]


def touch_name(n, root=None, deep=True):
    """Every documented attribute/method of a BaseName; returns JSON value."""
    d = {'cls': type(n).__name__}
    for a in NAME_ATTRS:
        d[a] = getattr(n, a)
    d['module_path'] = relpath(n.module_path, root)
    d['in_builtin_module'] = n.in_builtin_module()
    d['def_start'] = n.get_definition_start_position()
    d['def_end'] = n.get_definition_end_position()
    d['is_stub'] = n.is_stub()
    d['is_side_effect'] = n.is_side_effect()
    d['line_code'] = n.get_line_code()
    d['repr'] = None if repr(n) is None else True
    doc = n.docstring()
    d['doc'] = doc[:80]
    d['doc_raw'] = n.docstring(raw=True)[:80]
    d['doc_slow'] = n.docstring(fast=False)[:80]
    d['type_hint'] = n.get_type_hint()
    if deep:
        d['sigs'] = [sig_core(s) for s in n.get_signatures()]
        p = n.parent()
        d['parent'] = None if p is None else name_core(p, root)
        d['goto'] = sorted(map(repr, (name_core(x, root) for x in n.goto())))
        d['goto_fi'] = sorted(map(repr, (name_core(x, root) for x in n.goto(
            follow_imports=True, follow_builtin_imports=True))))
        d['infer'] = [name_core(x, root) for x in n.infer()]
        d['infer_stub'] = [name_core(x, root) for x in n.infer(prefer_stubs=True)]
        d['execute'] = [name_core(x, root) for x in n.execute()]
        if hasattr(n, 'defined_names'):
            d['defined_names'] = [name_core(x, root) for x in n.defined_names()][:20]
        if hasattr(n, 'is_definition'):
            d['is_definition'] = n.is_definition()
    if hasattr(n, 'index') and hasattr(n, 'bracket_start'):
        d['index'] = n.index
        d['bracket_start'] = n.bracket_start
        d['sig_params'] = [[p.name, str(p.kind), p.to_string()] for p in n.params]
        d['sig_to_string'] = n.to_string()
    if hasattr(n, 'complete'):
        d['complete'] = n.complete
        d['name_with_symbols'] = n.name_with_symbols
        d['prefix_len'] = n.get_completion_prefix_length()
    if hasattr(n, 'kind'):
        d['kind'] = str(n.kind)
        d['to_string'] = n.to_string()
        d['infer_default'] = [name_core(x, root) for x in n.infer_default()]
        d['infer_annotation'] = [name_core(x, root) for x in n.infer_annotation()]
    return d


def sig_core(s):
    d = {'name': s.name, 'to_string': s.to_string(),
         'params': [[p.name, str(p.kind), p.to_string()] for p in s.params]}
    if hasattr(s, 'index'):
        d['index'] = s.index
        d['bracket_start'] = s.bracket_start
    return d


def touch_syntax_error(e):
    return [e.line, e.column, e.until_line, e.until_column, e.get_message(), repr(e) and True]


def cap(lst, first=5, last=2):
    if len(lst) <= first + last:
        return list(lst)
    return list(lst[:first]) + list(lst[-last:])
