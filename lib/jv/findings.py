"""Known-findings protocol (DESIGN §2.7).

/verif/known_findings.json is committed and never written at run time.  Entries:
  {"property": "C06", "status": "open", "site": "<classification key>", "what": "...",
   "inputs": ["id", ...]            # explicit list, or
   "inputs_file": "known_findings/C06-xyz.json"   # same list stored next to the file
  }
  {"property": "C14", "status": "fixed", "commit": "<sha>", "what": "..."}   # suppresses nothing
A violation (site, input) is *listed* iff an open entry of the property has the same site and
contains the input.  Everything else is reported.
"""
import json
import os

from . import boot

PATH = os.path.join(boot.VERIF, 'known_findings.json')


def load(pid):
    try:
        with open(PATH) as f:
            data = json.load(f)
    except FileNotFoundError:
        return []
    out = []
    for e in data.get('findings', []):
        if e.get('property') != pid or e.get('status') != 'open':
            continue
        e = dict(e)
        if 'inputs_file' in e:
            with open(os.path.join(boot.VERIF, e['inputs_file'])) as f:
                e['inputs'] = json.load(f)
        e['_inputs'] = set(e.get('inputs', []))
        out.append(e)
    return out


def classify(known, violations):
    """-> (unlisted violations, [(entry, n_seen)], [stale entries])"""
    unlisted = []
    seen = {}
    for v in violations:
        hit = None
        for k, e in enumerate(known):
            if e['site'] == v['site'] and v['input'] in e['_inputs']:
                hit = k
                break
        if hit is None:
            unlisted.append(v)
        else:
            seen.setdefault(hit, set()).add(v['input'])
    listed = [(known[k], len(s)) for k, s in sorted(seen.items())]
    stale = [e for k, e in enumerate(known) if k not in seen and not e.get('thorough_only')]
    return unlisted, listed, stale
