"""Deterministic sharded execution of an enumerated task list over worker processes.

A *task* is any JSON value; `fn(task)` (a module-level function given as "module:func") returns
a JSON value.  Tasks are dealt round-robin to `nproc` forked workers; every worker appends one
line per finished task to its own file, preceded by a start marker, so that a worker that dies
(stack overflow, os._exit, signal) pins the death on the task it had started.  The parent
restarts a worker for the rest of that shard.  Nothing here is random: VERIF_SEED only rotates
the task list before dealing, i.e. which worker sees which task and in which order.
"""
import importlib
import json
import multiprocessing as mp
import os
import sys
import time
import traceback

NPROC = int(os.environ.get('JV_NPROC', '16'))


def _resolve(name):
    mod, fn = name.split(':')
    return getattr(importlib.import_module(mod), fn)


def _worker(fn_name, init_name, tasks, out_path, deadline):
    try:
        sys.setrecursionlimit(3000)
        if init_name:
            _resolve(init_name)()
        fn = _resolve(fn_name)
        with open(out_path, 'a') as out:
            for idx, task in tasks:
                if deadline and time.time() > deadline:
                    out.write(json.dumps({'i': idx, 'skipped': True}) + '\n')
                    out.flush()
                    continue
                out.write(json.dumps({'i': idx, 'start': True}) + '\n')
                out.flush()
                try:
                    res = fn(task)
                    rec = {'i': idx, 'r': res}
                except BaseException as e:  # harness-level failure of fn itself
                    if isinstance(e, (KeyboardInterrupt, SystemExit)):
                        raise
                    rec = {'i': idx, 'harness_error': traceback.format_exc()}
                out.write(json.dumps(rec) + '\n')
                out.flush()
                if not os.environ.get('JV_KEEP_PARSER_CACHE'):
                    from . import boot
                    boot.prune_parser_cache()
    except BaseException:
        with open(out_path, 'a') as out:
            out.write(json.dumps({'fatal': traceback.format_exc()}) + '\n')
        os._exit(3)
    os._exit(0)


class PoolResult:
    def __init__(self):
        self.results = {}      # idx -> result
        self.crashed = {}      # idx -> exit code (task killed its worker)
        self.skipped = []      # idx not run because the deadline passed
        self.harness_errors = {}
        self.fatal = []

    @property
    def complete(self):
        return not self.skipped and not self.fatal


def run(tasks, fn, init=None, nproc=None, seed=0, deadline=None, scratch=None, tag='pool'):
    """Run fn over tasks; returns PoolResult with results keyed by task index."""
    from . import boot
    nproc = nproc or NPROC
    scratch = scratch or boot.scratch_root()
    indexed = list(enumerate(tasks))
    n = len(indexed)
    res = PoolResult()
    if not n:
        return res
    rot = seed % n
    indexed = indexed[rot:] + indexed[:rot]
    nproc = max(1, min(nproc, n))
    shards = [indexed[i::nproc] for i in range(nproc)]
    ctx = mp.get_context('fork')
    stamp = '%s-%d-%d' % (tag, os.getpid(), int(time.time() * 1000) % 10 ** 9)
    pending = {}
    for k, shard in enumerate(shards):
        pending[k] = shard
    gen = 0
    while pending:
        procs = {}
        for k, shard in pending.items():
            path = os.path.join(scratch, '%s-%d-%d.jsonl' % (stamp, k, gen))
            p = ctx.Process(target=_worker, args=(fn, init, shard, path, deadline))
            p.start()
            procs[k] = (p, path, shard)
        nxt = {}
        for k, (p, path, shard) in procs.items():
            p.join()
            started = None
            done = set()
            try:
                with open(path) as f:
                    lines = f.readlines()
            except FileNotFoundError:
                lines = []
            for line in lines:
                try:
                    rec = json.loads(line)
                except ValueError:
                    continue
                if 'fatal' in rec:
                    res.fatal.append(rec['fatal'])
                    continue
                i = rec['i']
                if rec.get('start'):
                    started = i
                elif rec.get('skipped'):
                    res.skipped.append(i)
                    done.add(i)
                elif 'harness_error' in rec:
                    res.harness_errors[i] = rec['harness_error']
                    done.add(i)
                    started = None
                else:
                    res.results[i] = rec['r']
                    done.add(i)
                    started = None
            try:
                os.unlink(path)
            except OSError:
                pass
            if p.exitcode != 0 and not res.fatal:
                if started is not None and started not in done:
                    res.crashed[started] = p.exitcode
                    done.add(started)
                rest = [(i, t) for i, t in shard if i not in done]
                if rest and started is not None:
                    nxt[k] = rest
                elif rest:
                    res.fatal.append('worker %d died (exit %s) outside a task' % (k, p.exitcode))
        pending = nxt
        gen += 1
    return res
