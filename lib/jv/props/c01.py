"""C01 — the query API is total on any source text and cursor position.

Engine E1 (smallscope): every text of the enumerated families x every (line, column) in range and
just out of range x every query method x every documented attribute of every result.
Oracle: in range -> no exception at all; out of range -> ValueError exactly.
"""
import itertools
import os
import re

from .. import boot, canon, pool, corpus

ID = 'C01'
BUDGET = {'quick': 900, 'thorough': 3600}

SIGMA21 = ['a', '.', '(', ')', '=', '\n', ' ', 'def ', ':', 'import ', ',', '[', ']', '*', "'",
           'class ', 'lambda ', 'for ', 'in ', '@', '1']
SIGMA_EXT = ['"', '{', '}', '\\\n', '\t', '#', ':=', 'from ', 'async ', "f'", 'é', '\r\n']
SIGMA12 = ['a', '.', '(', ')', '=', '\n', 'def ', ':', 'import ', ',', '[', "'", ' ']
# trailing-dot / whitespace / comment structure (found by a seeding sub-agent on the unchanged
# tree: `foo.  x` with the cursor in the blanks raised AttributeError - needs 4 tokens)
SIGMA6 = ['a', '.', ' ', '\n', '(', '#']
# statement separators inside broken statements (error nodes spanning `;`)
SIGMA_SEMI = ['a', ';', ')', '(', 'import ', '.', 'def ', '\n']
INSERT8 = ['(', ')', '.', ',', ':', "'", '\n', 'a']


# One small program per statement/expression kind of the grammar (the corpus and the token soups
# never contain e.g. `global` without a module-level binding, `nonlocal`, `del`, `async with`).
SNIPPETS = {
    'global-lazy': 'def init():\n    global cache\n    cache = {}\n    return cache\nc\n',
    'global-read': 'def peek():\n    global counter\n    return counter\ncou\n',
    'global-typing': 'def setup():\n    global handle\n    ha',
    'nonlocal': 'def outer():\n    val = 1\n    def inner():\n        nonlocal val\n        val = 2\n        return va\n    return inner\n',
    'del': 'items = [1, 2]\ndel items[0]\ndel items\nit\n',
    'assert-raise': 'def chk(v):\n    assert v, "msg"\n    raise ValueError(v) from None\nchk(\n',
    'with-multi': 'with open("f") as fh, open("g") as gh:\n    fh.re\n    gh.\n',
    'async': 'import asyncio\nasync def run(q):\n    async with q as r:\n        async for i in r:\n            await i\n    return [x async for x in r]\nru\n',
    'try-full': 'try:\n    v = int("1")\nexcept (ValueError, TypeError) as err:\n    err.ar\nelse:\n    v.re\nfinally:\n    pass\n',
    'while-else': 'n = 3\nwhile n:\n    n -= 1\n    if n == 1:\n        break\n    continue\nelse:\n    n.bit\n',
    'decorated-class': 'import functools\n@functools.total_ordering\nclass P:\n    @property\n    def v(self):\n        return 1\n    @v.setter\n    def v(self, x):\n        pass\nP().v.\n',
    'yield': 'def g():\n    got = yield 1\n    yield from g()\n    return got\nfor y in g():\n    y.\n',
    'star-expr': 'a, *b = 1, 2, 3\nc = [*b, *b]\nd = {**{}, "k": 1}\nprint(*c, **d)\nb.\n',
    'annotations': 'from typing import List, Optional\nx: List[int] = []\ny: Optional[str]\ndef f(p: "int", *a: str, k: float = 1.0, **kw: bytes) -> None:\n    p.\nf(\n',
    'walrus': 'if (m := len("ab")) > 1:\n    m.\nprint(n := 3, n.)\n',
    'fstring': 'name = "w"\ns = f"{name!r:>{10}} {name.up"\nt = f"{name.}"\n',
    'lambda-default': 'k = 2\nf = lambda a, b=k, *c, d=k, **e: (a, b, c, d, e)\nf(1, \n',
    'cond-import': 'try:\n    import json as js\nexcept ImportError:\n    js = None\nif js:\n    js.du\nfrom os import (path,\n    sep)\npath.jo\n',
    'relative-import': 'from . import sibling\nfrom .. import parent\nfrom .pkg.mod import name as alias\nalias.\nsibling.\n',
    'class-kw': 'class M(type):\n    pass\nclass C(object, metaclass=M, flag=True):\n    __slots__ = ("a",)\n    def __init_subclass__(cls, **kw):\n        super().__init_subclass__(**kw)\nC.\n',
    'match': 'def h(cmd):\n    match cmd:\n        case [x, y]:\n            return x\n        case {"k": v}:\n            return v\n        case _:\n            return cmd.\n',
    'type-alias': 'type Pair[T] = tuple[T, T]\ndef first[T](p: Pair[T]) -> T:\n    return p[0]\nfirst(\n',
    'dict-keys': 'cfg = {"alpha": 1, "beta": {"gamma": 2}}\ncfg["\ncfg["beta"]["\ncfg[\n',
    'comprehension-nest': 'm = [[i * j for i in range(3) if i] for j in range(2)]\ng = (k for row in m for k in row)\nnext(g).\n',
    'slices': 'seq = list(range(9))\nseq[1:2], seq[::2], seq[..., 0]\nseq[1:].\n',
    'backslash': 'total = 1 + \\\n    2 + \\\n    len("a")\ntotal.\n',
    'semicolons': 'a = 1; b = a; b.\nif a: b = 2; b.\n',
    'unicode': 'größe = 1\nnaïve = größe\nnaï\ngrö\n',
    'getattr-proxy': 'class Proxy:\n    def __init__(self, t):\n        self._t = t\n    def __getattr__(self, name):\n        if name.startswith("_"):\n            return\n        return getattr(self._t, name)\np = Proxy([])\np.app\np._x.\n',
    'unclosed-calls': 'def foo(a, b=1):\n    pass\nfoo(\nx = foo(1, \nif x:\n    y = [foo(a=3\n',
    'compiled-nostub': 'from _functools import reduce\nreduce\nimport _functools\nclass A: pass\nx = _functools if c else A\nx\nx()\n',
    'semicolon-error': 'import os\nfoo(os.path); )\nif os: foo(os); else\nbar(os); import os.\n',
    'docstring-code': 'import os\ndef doc():\n    """Use ``doc`` or ``__na\n    >>> os.pa\n    >>> __\n    """\n"""\nissues warnings if ``_',
    'unterminated': 'def f(:\n    return (1,\nclass\n  x = [\nf(\n',
}
# characters that str.splitlines() treats as line boundaries but Python/parso do not (found
# missing by a seeded change that rewrote the column check with splitlines())
SEPARATORS = ['\x0b', '\x0c', '\x1c', '\x1d', '\x1e', '\x85', '\u2028', '\u2029']
SEP_TEMPLATES = ['import os\nx = "a%sb"; os.pa\n', 'v = 1 # c%sc\nv.\n', 'def f(a):\n    return a\n%s\nf(\n',
                 'w = 1;%sw.re\n']


def _soups(alpha, maxlen):
    for n in range(0, maxlen + 1):
        for tup in itertools.product(range(len(alpha)), repeat=n):
            yield 'tok:%d:%s' % (n, '.'.join(map(str, tup))), ''.join(alpha[i] for i in tup)


def _init():
    boot.boot()
    boot.environment()


def _positions(code):
    import parso
    lines = parso.split_lines(code, keepends=True)
    n = len(lines)
    pos = []
    for li, s in enumerate(lines, 1):
        body = s
        if body.endswith('\r\n'):
            body = body[:-2]
        elif body.endswith('\n') or body.endswith('\r'):
            body = body[:-1]
        for c in range(len(body) + 1):
            pos.append((li, c, True))
        pos.append((li, -1, False))
        pos.append((li, len(s) + 1, False))
    pos.append((0, 0, False))
    pos.append((n + 1, 0, False))
    return pos


POS_METHODS = [
    ('complete', {}), ('complete', {'fuzzy': True}),
    ('infer', {}), ('infer', {'prefer_stubs': True}), ('infer', {'only_stubs': True}),
    ('goto', {}), ('goto', {'follow_imports': True, 'follow_builtin_imports': True}),
    ('goto', {'only_stubs': True}),
    ('help', {}),
    ('get_references', {}), ('get_references', {'scope': 'file', 'include_builtins': False}),
    ('get_signatures', {}), ('get_context', {}),
]
IDENT = re.compile(r'[^\W\d]\w*')


def _touch_results(method, res, root):
    shape = []
    if method == 'get_context':
        res = [res]
    res = list(res)
    for r in canon.cap(res):
        d = canon.touch_name(r, root, deep=True)
        shape.append((d['cls'], d['type']))
    return (len(res) > 0, tuple(sorted(set(shape))))


# A small on-disk project: buffers analysed *inside* it reach packages, namespace directories,
# stubs next to modules, setup.py, relative imports (the first families used an empty project).
PROJECT_FILES = {
    'setup.py': 'from setuptools import setup\nsetup(name="demo")\n',
    'pkg/__init__.py': 'from .mod import helper\nVERSION = "1"\n',
    'pkg/mod.py': 'def helper(a, b=2):\n    """doc"""\n    return a\n\nclass Thing:\n    attr = 1\n',
    'pkg/mod.pyi': 'def helper(a: int, b: int = ...) -> int: ...\nclass Thing:\n    attr: int\n',
    'pkg/sub/__init__.py': '',
    'pkg/sub/leaf.py': 'from .. import mod\nfrom ..mod import Thing\nvalue = Thing()\n',
    'ns/inner.py': 'inner_value = 3\n',
    'ns/deep/more.py': 'more_value = 4\n',
    'lonely.pyi': 'lonely_value: int\n',
    'b.py': 'import pkg\n',
}
PROJECT_BUFFERS = {
    'b.py': ['from . import setup\nsetup.\n', 'import pkg\npkg.mod.helper(\npkg.sub.leaf.value.\n',
             'import ns.inner\nns.inner.inner_value\nns.deep.more.\nimport ns\nns.\n',
             'from pkg import *\nhelper(1, \nVERSION.\n', 'import lonely\nlonely.lonely_value\n',
             'from pkg.mod import Thing as T, helper as h\nT().attr\nh(b=1, \n'],
    'pkg/sub/extra.py': ['from . import leaf\nleaf.value.attr\nfrom .. import mod, sub\nmod.\nsub.\n',
                         'from ... import toofar\nfrom . import nothing\nfrom .leaf import *\nvalue\n'],
    'ns/new.py': ['from . import inner\ninner.\nimport ns.deep.more as m\nm.more_value\n'],
}


def _project(kind):
    jedi = boot.boot()
    root = os.path.join(boot.scratch_root(), 'c01tree_%d' % os.getpid())
    if not os.path.isdir(root):
        for rel, text in PROJECT_FILES.items():
            p = os.path.join(root, rel)
            os.makedirs(os.path.dirname(p), exist_ok=True)
            with open(p, 'w') as f:
                f.write(text)
    if kind == 'plain':
        return root, jedi.Project(root)
    if kind == 'nosmart':
        return root, jedi.Project(root, smart_sys_path=False)
    return root, jedi.Project(root, sys_path=[root], smart_sys_path=False)


def _run_text(task):
    """All queries on one text.  Returns failures and coverage counters."""
    tid, code, mode = task['id'], task['code'], task.get('mode', 'all')
    jedi = boot.boot()
    env = boot.environment()
    if task.get('proj'):
        root, project = _project(task['proj'])
        path = os.path.join(root, task['relpath'])
    else:
        root = os.path.join(boot.scratch_root(), 'c01proj')
        os.makedirs(root, exist_ok=True)
        project = jedi.Project(root, smart_sys_path=False)
        path = os.path.join(root, 'b', 'w%d_%s.py' % (os.getpid(), re.sub(r'\W', '_', tid)[:60]))
        if task.get('nopath'):
            path = None         # an unsaved buffer: names of the buffer have no module path
    fails = []
    shapes = set()
    evals = 0

    def fail(what, e, expected):
        fails.append({'site': canon.exc_site(e), 'what': what, 'expected': expected,
                      'tb': canon.short_tb(e)})

    try:
        script = jedi.Script(code, path=path, environment=env, project=project)
    except BaseException as e:
        if isinstance(e, (KeyboardInterrupt, SystemExit)):
            raise
        fail(['Script'], e, 'no exception')
        return {'fails': fails, 'evals': 1, 'shapes': []}
    positions = _positions(code)
    if mode == 'end':
        # code being typed: cursor at the end only (+ the out-of-range neighbours)
        inr = [p for p in positions if p[2]]
        positions = inr[-1:] + [p for p in positions if not p[2]][-4:]
    for (line, col, ok) in positions:
        for m, kw in POS_METHODS:
            evals += 1
            what = [m, line, col, kw]
            try:
                res = getattr(script, m)(line, col, **kw)
                if not ok:
                    fails.append({'site': 'NoValueError@%s' % m, 'what': what,
                                  'expected': 'ValueError', 'tb': 'returned %r' % (res,)})
                    continue
                shapes.add((m,) + _touch_results(m, res, root))
            except ValueError as e:
                if ok:
                    fail(what, e, 'no exception')
            except BaseException as e:
                if isinstance(e, (KeyboardInterrupt, SystemExit)):
                    raise
                fail(what, e, 'no exception' if ok else 'ValueError')
    idents = sorted(set(IDENT.findall(code)))[:6] + ['']
    if task.get('proj'):
        idents += ['setup', 'ns.inner', 'pkg.mod.helper', 'lonely', 'Thing']
        for ident in idents:
            for m in ('search', 'complete_search'):
                evals += 1
                try:
                    res = list(getattr(project, m)(ident))
                    shapes.add(('Project.' + m,) + _touch_results(m, res, root))
                except BaseException as e:
                    if isinstance(e, (KeyboardInterrupt, SystemExit)):
                        raise
                    fail(['Project.' + m, None, None, {'string': ident}], e, 'no exception')
    file_calls = [('get_names', {}), ('get_names', {'all_scopes': True, 'references': True}),
                  ('get_names', {'all_scopes': True, 'definitions': False, 'references': True}),
                  ('get_syntax_errors', {})]
    for ident in idents:
        file_calls.append(('search', {'string': ident}))
        file_calls.append(('search', {'string': ident, 'all_scopes': True}))
        file_calls.append(('complete_search', {'string': ident}))
        file_calls.append(('complete_search', {'string': ident, 'fuzzy': True}))
    for m, kw in file_calls:
        evals += 1
        what = [m, None, None, kw]
        try:
            res = list(getattr(script, m)(**kw))
            if m == 'get_syntax_errors':
                for r in res:
                    canon.touch_syntax_error(r)
                shapes.add((m, len(res) > 0))
            else:
                shapes.add((m,) + _touch_results(m, res, root))
        except BaseException as e:
            if isinstance(e, (KeyboardInterrupt, SystemExit)):
                raise
            fail(what, e, 'no exception')
    return {'fails': fails, 'evals': evals, 'shapes': sorted(map(repr, shapes)),
            'npos': len(positions)}


def _families(tier):
    """-> list of (level name, [task])  simplest first."""
    fams = []
    quick_files = corpus.quick_files()
    if tier == 'quick':
        fams.append(('soups<=2/S21', [dict(id=i, code=c) for i, c in _soups(SIGMA21, 2)]))
        fams.append(('soups=4/S5', [dict(id='z' + i, code=c) for i, c in _soups(SIGMA6[:5], 4)
                                    if i.startswith('tok:4:')]))
        pref = []
        for name, text in quick_files[:6]:
            text = text[:400]
            for k in range(1, len(text) + 1, 4):
                pref.append(dict(id='pre:%s:%d' % (name, k), code=text[:k], mode='end'))
        fams.append(('typing-prefixes(6 files, first 400 chars, step 4)', pref))
        edits = []
        for name, text in quick_files[:4]:
            text = text[:300]
            toks = [m.start() for m in re.finditer(r'\S+', text)]
            for k, off in enumerate(toks):
                end = re.compile(r'\S+').match(text, off).end()
                edits.append(dict(id='del:%s:%d' % (name, k), code=text[:off] + text[end:],
                                  mode='end'))
                for t, ins in enumerate(INSERT8[:4]):
                    edits.append(dict(id='ins:%s:%d:%d' % (name, k, t),
                                      code=text[:off] + ins + text[off:], mode='end'))
        fams.append(('small-edits(4 files)', edits))
        fams.append(('corpus-small(all positions)', [dict(id='file:' + n, code=t)
                                                     for n, t in quick_files if len(t) < 420]))
        fams.append(('statement-kind snippets(all positions)',
                     [dict(id='snip:' + k, code=v) for k, v in sorted(SNIPPETS.items())]))
        fams.append(('statement-kind snippets as unsaved buffers, path=None (all positions)',
                     [dict(id='nopath:' + k, code=v, nopath=True) for k, v in sorted(SNIPPETS.items())]))
        fams.append(('soups<=3/S8;', [dict(id='s' + i, code=c) for i, c in _soups(SIGMA_SEMI, 3)
                                      if ';' in c]))
        fams.append(('buffers inside an on-disk project x project options(all positions)',
                     [dict(id='proj:%s:%s:%d' % (kind, rel, k), code=c, proj=kind, relpath=rel)
                      for kind in ('plain', 'nosmart', 'explicit')
                      for rel, bufs in sorted(PROJECT_BUFFERS.items())
                      for k, c in enumerate(bufs)]))
        fams.append(('line-separator characters(all positions)',
                     [dict(id='sep:%d:%d' % (a, b), code=t % sp)
                      for a, sp in enumerate(SEPARATORS) for b, t in enumerate(SEP_TEMPLATES)]))
    else:
        fams.append(('soups<=3/S21', [dict(id=i, code=c) for i, c in _soups(SIGMA21, 3)]))
        fams.append(('soups<=2/S33', [dict(id='x' + i, code=c)
                                      for i, c in _soups(SIGMA21 + SIGMA_EXT, 2)]))
        fams.append(('soups<=4/S13', [dict(id='y' + i, code=c) for i, c in _soups(SIGMA12, 4)
                                      if i.startswith('tok:4')]))
        fams.append(('soups<=5/S6', [dict(id='z' + i, code=c) for i, c in _soups(SIGMA6, 5)
                                     if not i.startswith(('tok:0', 'tok:1:', 'tok:2:'))]))
        pref = []
        for name, text in quick_files:
            for k in range(1, len(text) + 1):
                pref.append(dict(id='pre:%s:%d' % (name, k), code=text[:k], mode='end'))
        fams.append(('typing-prefixes(quick corpus, every char)', pref))
        edits = []
        for name, text in quick_files:
            for k, m in enumerate(re.finditer(r'\S+', text)):
                off, end = m.start(), m.end()
                edits.append(dict(id='del:%s:%d' % (name, k), code=text[:off] + text[end:],
                                  mode='end'))
                for t, ins in enumerate(INSERT8):
                    edits.append(dict(id='ins:%s:%d:%d' % (name, k, t),
                                      code=text[:off] + ins + text[off:], mode='end'))
        fams.append(('small-edits(quick corpus)', edits))
        fams.append(('corpus(all positions)', [dict(id='file:' + n, code=t)
                                               for n, t in corpus.all_files() if len(t) < 6000]))
        fams.append(('buffers inside an on-disk project x project options(all positions)',
                     [dict(id='proj:%s:%s:%d' % (kind, rel, k), code=c, proj=kind, relpath=rel)
                      for kind in ('plain', 'nosmart', 'explicit')
                      for rel, bufs in sorted(PROJECT_BUFFERS.items())
                      for k, c in enumerate(bufs)]))
        snip = []
        for k, v in sorted(SNIPPETS.items()):
            snip.append(dict(id='snip:' + k, code=v))
            for j in range(1, len(v)):
                snip.append(dict(id='snip:%s:pre%d' % (k, j), code=v[:j], mode='end'))
        fams.append(('statement-kind snippets(all positions + every typing prefix)', snip))
        fams.append(('statement-kind snippets as unsaved buffers, path=None (all positions)',
                     [dict(id='nopath:' + k, code=v, nopath=True) for k, v in sorted(SNIPPETS.items())]))
        fams.append(('soups<=4/S8;', [dict(id='s' + i, code=c) for i, c in _soups(SIGMA_SEMI, 4)
                                      if ';' in c]))
        fams.append(('line-separator characters(all positions)',
                     [dict(id='sep:%d:%d' % (a, b), code=t % sp)
                      for a, sp in enumerate(SEPARATORS) for b, t in enumerate(SEP_TEMPLATES)]))
    return fams


def run(ctx):
    total_states = 0
    total_trans = 0
    shapes = set()
    done_levels = []
    samples = []
    exhaustive = True
    for name, tasks in _families(ctx.tier):
        if ctx.time_left() < 5:
            exhaustive = False
            ctx.note('level %s not started (time cap)' % name)
            continue
        pres = pool.run(tasks, 'jv.props.c01:_run_text', init='jv.props.c01:_init',
                        seed=ctx.seed, deadline=ctx.deadline, tag='c01')
        ctx.absorb(pres, name)
        for i, t in enumerate(tasks):
            if i in pres.crashed:
                ctx.violation('WorkerDied(exit=%s)' % pres.crashed[i], t['id'],
                              {'text': t['code']}, {'task': t})
                continue
            r = pres.results.get(i)
            if r is None:
                continue
            total_states += r.get('npos', 0) + 1
            total_trans += r['evals']
            shapes.update(r['shapes'])
            for f in r['fails']:
                ctx.violation(f['site'], t['id'] + '|' + repr(f['what']),
                              {'text': t['code'], 'call': f['what'], 'expected': f['expected'],
                               'traceback': f['tb']},
                              {'task': t, 'call': f['what']})
        if pres.skipped:
            exhaustive = False
            ctx.note('level %s: %d of %d texts not explored (time cap)'
                     % (name, len(pres.skipped), len(tasks)))
        else:
            done_levels.append('%s: %d texts' % (name, len(tasks)))
        if tasks:
            samples.append({'level': name, 'id': tasks[len(tasks) // 2]['id'],
                            'text': tasks[len(tasks) // 2]['code'][:120]})
    ctx.coverage.update({
        'states': total_states, 'transitions': total_trans,
        'evaluations': total_trans, 'distinct_nontrivial': len(shapes),
        'rule': 'state = (text, cursor position) incl. 4 out-of-range positions per text; '
                'transition = one query call with every documented result attribute touched '
                '(first 5 + last 2 results); distinct_nontrivial = distinct (method, '
                'non-empty?, set of (result class, Name.type)) observation classes',
        'levels_completed': done_levels, 'exhaustive': exhaustive, 'samples': samples,
        'alphabet': SIGMA21 if ctx.tier == 'quick' else SIGMA21 + SIGMA_EXT,
        'methods': [m + (repr(k) if k else '') for m, k in POS_METHODS],
    })
    ctx.assumptions += [
        'configuration `stubs`: jedi from /repo with the vendored typeshed stdlib (DESIGN §0)',
        'in range = 0 <= column <= len(line without its line terminator) on lines as split by '
        'parso.split_lines; out of range probes: line 0, line n+1, column -1, column > len(line '
        'incl. terminator)',
        'result lists longer than 7 are touched at their first 5 and last 2 elements',
    ]


def replay(case):
    _init()
    t = dict(case['task'])
    r = _run_text(t)
    out = []
    for f in r['fails']:
        if 'call' not in case or f['what'] == case['call'] or list(f['what']) == list(case['call']):
            out.append((f['site'], t['id'], f['tb']))
    return out
