"""C01 — the query API is total on any source text and cursor position.

Engine E1 (smallscope): every text of the enumerated families x every (line, column) in range and
just out of range x every query method x every documented attribute of every result.
Oracle: in range -> no exception at all; out of range -> ValueError exactly.
"""
import itertools
import os
import re

from .. import boot, canon, pool, corpus

ID = 'C01'
BUDGET = {'quick': 240, 'thorough': 2400}

SIGMA21 = ['a', '.', '(', ')', '=', '\n', ' ', 'def ', ':', 'import ', ',', '[', ']', '*', "'",
           'class ', 'lambda ', 'for ', 'in ', '@', '1']
SIGMA_EXT = ['"', '{', '}', '\\\n', '\t', '#', ':=', 'from ', 'async ', "f'", 'é', '\r\n']
SIGMA12 = ['a', '.', '(', ')', '=', '\n', 'def ', ':', 'import ', ',', '[', "'"]
INSERT8 = ['(', ')', '.', ',', ':', "'", '\n', 'a']


def _soups(alpha, maxlen):
    for n in range(0, maxlen + 1):
        for tup in itertools.product(range(len(alpha)), repeat=n):
            yield 'tok:%d:%s' % (n, '.'.join(map(str, tup))), ''.join(alpha[i] for i in tup)


def _init():
    boot.boot()
    boot.environment()


def _positions(code):
    import parso
    lines = parso.split_lines(code, keepends=True)
    n = len(lines)
    pos = []
    for li, s in enumerate(lines, 1):
        body = s
        if body.endswith('\r\n'):
            body = body[:-2]
        elif body.endswith('\n') or body.endswith('\r'):
            body = body[:-1]
        for c in range(len(body) + 1):
            pos.append((li, c, True))
        pos.append((li, -1, False))
        pos.append((li, len(s) + 1, False))
    pos.append((0, 0, False))
    pos.append((n + 1, 0, False))
    return pos


POS_METHODS = [
    ('complete', {}), ('complete', {'fuzzy': True}),
    ('infer', {}), ('infer', {'prefer_stubs': True}), ('infer', {'only_stubs': True}),
    ('goto', {}), ('goto', {'follow_imports': True, 'follow_builtin_imports': True}),
    ('goto', {'only_stubs': True}),
    ('help', {}),
    ('get_references', {}), ('get_references', {'scope': 'file', 'include_builtins': False}),
    ('get_signatures', {}), ('get_context', {}),
]
IDENT = re.compile(r'[^\W\d]\w*')


def _touch_results(method, res, root):
    shape = []
    if method == 'get_context':
        res = [res]
    res = list(res)
    for r in canon.cap(res):
        d = canon.touch_name(r, root, deep=True)
        shape.append((d['cls'], d['type']))
    return (len(res) > 0, tuple(sorted(set(shape))))


def _run_text(task):
    """All queries on one text.  Returns failures and coverage counters."""
    tid, code, mode = task['id'], task['code'], task.get('mode', 'all')
    jedi = boot.boot()
    env = boot.environment()
    root = os.path.join(boot.scratch_root(), 'c01proj')
    os.makedirs(root, exist_ok=True)
    project = jedi.Project(root, smart_sys_path=False)
    path = os.path.join(root, 'b', 'w%d_%s.py' % (os.getpid(), re.sub(r'\W', '_', tid)[:60]))
    fails = []
    shapes = set()
    evals = 0

    def fail(what, e, expected):
        fails.append({'site': canon.exc_site(e), 'what': what, 'expected': expected,
                      'tb': canon.short_tb(e)})

    try:
        script = jedi.Script(code, path=path, environment=env, project=project)
    except BaseException as e:
        if isinstance(e, (KeyboardInterrupt, SystemExit)):
            raise
        fail(['Script'], e, 'no exception')
        return {'fails': fails, 'evals': 1, 'shapes': []}
    positions = _positions(code)
    if mode == 'end':
        # code being typed: cursor at the end only (+ the out-of-range neighbours)
        inr = [p for p in positions if p[2]]
        positions = inr[-1:] + [p for p in positions if not p[2]][-4:]
    for (line, col, ok) in positions:
        for m, kw in POS_METHODS:
            evals += 1
            what = [m, line, col, kw]
            try:
                res = getattr(script, m)(line, col, **kw)
                if not ok:
                    fails.append({'site': 'NoValueError@%s' % m, 'what': what,
                                  'expected': 'ValueError', 'tb': 'returned %r' % (res,)})
                    continue
                shapes.add((m,) + _touch_results(m, res, root))
            except ValueError as e:
                if ok:
                    fail(what, e, 'no exception')
            except BaseException as e:
                if isinstance(e, (KeyboardInterrupt, SystemExit)):
                    raise
                fail(what, e, 'no exception' if ok else 'ValueError')
    idents = sorted(set(IDENT.findall(code)))[:6] + ['']
    file_calls = [('get_names', {}), ('get_names', {'all_scopes': True, 'references': True}),
                  ('get_names', {'all_scopes': True, 'definitions': False, 'references': True}),
                  ('get_syntax_errors', {})]
    for ident in idents:
        file_calls.append(('search', {'string': ident}))
        file_calls.append(('search', {'string': ident, 'all_scopes': True}))
        file_calls.append(('complete_search', {'string': ident}))
        file_calls.append(('complete_search', {'string': ident, 'fuzzy': True}))
    for m, kw in file_calls:
        evals += 1
        what = [m, None, None, kw]
        try:
            res = list(getattr(script, m)(**kw))
            if m == 'get_syntax_errors':
                for r in res:
                    canon.touch_syntax_error(r)
                shapes.add((m, len(res) > 0))
            else:
                shapes.add((m,) + _touch_results(m, res, root))
        except BaseException as e:
            if isinstance(e, (KeyboardInterrupt, SystemExit)):
                raise
            fail(what, e, 'no exception')
    return {'fails': fails, 'evals': evals, 'shapes': sorted(map(repr, shapes)),
            'npos': len(positions)}


def _families(tier):
    """-> list of (level name, [task])  simplest first."""
    fams = []
    quick_files = corpus.quick_files()
    if tier == 'quick':
        fams.append(('soups<=2/S21', [dict(id=i, code=c) for i, c in _soups(SIGMA21, 2)]))
        pref = []
        for name, text in quick_files[:6]:
            text = text[:400]
            for k in range(1, len(text) + 1, 3):
                pref.append(dict(id='pre:%s:%d' % (name, k), code=text[:k], mode='end'))
        fams.append(('typing-prefixes(6 files, first 400 chars, step 3)', pref))
        edits = []
        for name, text in quick_files[:4]:
            text = text[:300]
            toks = [m.start() for m in re.finditer(r'\S+', text)]
            for k, off in enumerate(toks):
                end = re.compile(r'\S+').match(text, off).end()
                edits.append(dict(id='del:%s:%d' % (name, k), code=text[:off] + text[end:],
                                  mode='end'))
                for t, ins in enumerate(INSERT8[:4]):
                    edits.append(dict(id='ins:%s:%d:%d' % (name, k, t),
                                      code=text[:off] + ins + text[off:], mode='end'))
        fams.append(('small-edits(4 files)', edits))
        fams.append(('corpus-small(all positions)', [dict(id='file:' + n, code=t)
                                                     for n, t in quick_files if len(t) < 700]))
    else:
        fams.append(('soups<=3/S21', [dict(id=i, code=c) for i, c in _soups(SIGMA21, 3)]))
        fams.append(('soups<=2/S33', [dict(id='x' + i, code=c)
                                      for i, c in _soups(SIGMA21 + SIGMA_EXT, 2)]))
        fams.append(('soups<=4/S12', [dict(id='y' + i, code=c) for i, c in _soups(SIGMA12, 4)
                                      if i.startswith('tok:4')]))
        pref = []
        for name, text in quick_files:
            for k in range(1, len(text) + 1):
                pref.append(dict(id='pre:%s:%d' % (name, k), code=text[:k], mode='end'))
        fams.append(('typing-prefixes(quick corpus, every char)', pref))
        edits = []
        for name, text in quick_files:
            for k, m in enumerate(re.finditer(r'\S+', text)):
                off, end = m.start(), m.end()
                edits.append(dict(id='del:%s:%d' % (name, k), code=text[:off] + text[end:],
                                  mode='end'))
                for t, ins in enumerate(INSERT8):
                    edits.append(dict(id='ins:%s:%d:%d' % (name, k, t),
                                      code=text[:off] + ins + text[off:], mode='end'))
        fams.append(('small-edits(quick corpus)', edits))
        fams.append(('corpus(all positions)', [dict(id='file:' + n, code=t)
                                               for n, t in corpus.all_files() if len(t) < 6000]))
    return fams


def run(ctx):
    total_states = 0
    total_trans = 0
    shapes = set()
    done_levels = []
    samples = []
    exhaustive = True
    for name, tasks in _families(ctx.tier):
        if ctx.time_left() < 5:
            exhaustive = False
            ctx.note('level %s not started (time cap)' % name)
            continue
        pres = pool.run(tasks, 'jv.props.c01:_run_text', init='jv.props.c01:_init',
                        seed=ctx.seed, deadline=ctx.deadline, tag='c01')
        ctx.absorb(pres, name)
        for i, t in enumerate(tasks):
            if i in pres.crashed:
                ctx.violation('WorkerDied(exit=%s)' % pres.crashed[i], t['id'],
                              {'text': t['code']}, {'task': t})
                continue
            r = pres.results.get(i)
            if r is None:
                continue
            total_states += r.get('npos', 0) + 1
            total_trans += r['evals']
            shapes.update(r['shapes'])
            for f in r['fails']:
                ctx.violation(f['site'], t['id'] + '|' + repr(f['what']),
                              {'text': t['code'], 'call': f['what'], 'expected': f['expected'],
                               'traceback': f['tb']},
                              {'task': t, 'call': f['what']})
        if pres.skipped:
            exhaustive = False
            ctx.note('level %s: %d of %d texts not explored (time cap)'
                     % (name, len(pres.skipped), len(tasks)))
        else:
            done_levels.append('%s: %d texts' % (name, len(tasks)))
        if tasks:
            samples.append({'level': name, 'id': tasks[len(tasks) // 2]['id'],
                            'text': tasks[len(tasks) // 2]['code'][:120]})
    ctx.coverage.update({
        'states': total_states, 'transitions': total_trans,
        'evaluations': total_trans, 'distinct_nontrivial': len(shapes),
        'rule': 'state = (text, cursor position) incl. 4 out-of-range positions per text; '
                'transition = one query call with every documented result attribute touched '
                '(first 5 + last 2 results); distinct_nontrivial = distinct (method, '
                'non-empty?, set of (result class, Name.type)) observation classes',
        'levels_completed': done_levels, 'exhaustive': exhaustive, 'samples': samples,
        'alphabet': SIGMA21 if ctx.tier == 'quick' else SIGMA21 + SIGMA_EXT,
        'methods': [m + (repr(k) if k else '') for m, k in POS_METHODS],
    })
    ctx.assumptions += [
        'configuration `stubs`: jedi from /repo with the vendored typeshed stdlib (DESIGN §0)',
        'in range = 0 <= column <= len(line without its line terminator) on lines as split by '
        'parso.split_lines; out of range probes: line 0, line n+1, column -1, column > len(line '
        'incl. terminator)',
        'result lists longer than 7 are touched at their first 5 and last 2 elements',
    ]


def replay(case):
    _init()
    t = dict(case['task'])
    r = _run_text(t)
    out = []
    for f in r['fails']:
        if 'call' not in case or f['what'] == case['call'] or list(f['what']) == list(case['call']):
            out.append((f['site'], t['id'], f['tb']))
    return out
