"""C19 — Project search finds every definition and honours ignore rules.

Engine E1 (smallscope).  Project trees are enumerated as full products over small domains
(built-in ignored directory names and near misses x where they are placed; .gitignore level x
pattern kind x where the thing it names lives; definition kind x file; subsets of pruned and kept
sibling directories; module/package kind x place x ignore wrapper; file-count pairs around the
parse limit).  Every tree is written to disk and queried with every identifier of the pool and
every prefix x {search, complete_search} x {all_scopes} x typed and dotted forms, once per
directory-listing order (ascending / descending / native — the order `os.scandir` happens to
return entries in is an explorer-owned choice, made by replacing `os.scandir` in the harness).

Oracle = the generator's own inventory plus a 15-line reference model of the ignore rules
(built-in folder names; literal .gitignore entries with git's anchoring rules; comment,
negation and glob lines ignore nothing):
  reported  >=  every matching definition in a non-ignored file and every module/package so named
  reported has nothing whose module_path lies in an ignored place
  Script.search(s) == [n for n in get_names() if n matches s]      (also complete_search)
"""
import hashlib
import itertools
import json
import os
import shutil
import subprocess
import sys
import tempfile

from .. import boot, canon, pool

ID = 'C19'
BUDGET = {'quick': 900, 'thorough': 2400}

IGN5 = ['venv', '.venv', '.tox', '.mypy_cache', '__pycache__']
NEAR = ['venv2', 'myvenv', '.toxic', 'pycache', '.venvs', 'VENV', '.mypy', 'env', 'tox']
POOL = ['zeta', 'zet', 'qux']
POOL_T = ['zeta', 'zet', 'qux', 'z\u00e9t']
POOL_U = ['\u00e9la', 'caf\u00e9', '\u03b1lf']      # non-ASCII first letter, last letter, Greek first
POOL_L1 = ['\u00e9la', 'na\u00efve_caf\u00e9']          # representable in latin-1
LATIN1_HEAD = '# -*- coding: latin-1 -*-\n'
PARSE_LIMIT = 30          # jedi/inference/references.py:_PARSED_FILE_LIMIT (documented there)

# kind -> (template, top-level?, Name.type).  <X> marks the defining occurrence.
KINDS = {
    'def': ('def <X>(): pass\n', True, 'function'),
    'class': ('class <X>: pass\n', True, 'class'),
    'assign': ('<X> = 1\n', True, 'statement'),
    'async': ('async def <X>(): pass\n', True, 'function'),
    'ann': ('<X>: int = 1\n', True, 'statement'),
    'for': ('for <X> in (): pass\n', True, 'statement'),
    'tuple': ('h{n}, <X> = 1, 2\n', True, 'statement'),
    'if': ('if 1:\n    <X> = 1\n', True, 'statement'),
    'with': ('with open("x") as <X>: pass\n', True, 'statement'),
    'except': ('try: pass\nexcept Exception as <X>: pass\n', True, 'statement'),
    'star': ('h{n}, *<X> = 1, 2\n', True, 'statement'),
    'decorated': ('@staticmethod\ndef <X>(): pass\n', True, 'function'),
    'method': ('class H{n}:\n    def <X>(self): pass\n', False, 'function'),
    'cattr': ('class H{n}:\n    <X> = 1\n', False, 'statement'),
    'local': ('def h{n}():\n    <X> = 1\n', False, 'statement'),
    'inner': ('def h{n}():\n    def <X>(): pass\n', False, 'function'),
    'innerclass': ('def h{n}():\n    class <X>: pass\n', False, 'class'),
    'param': ('def h{n}(<X>): pass\n', False, 'param'),
    'kwparam': ('def h{n}(*, <X>=1): pass\n', False, 'param'),
    'lambda': ('h{n} = lambda <X>: 1\n', False, 'param'),
    'comp': ('h{n} = [{X} for <X> in ()]\n', False, 'statement'),
    'nestedmethod': ('class H{n}:\n    class D:\n        def <X>(self): pass\n', False, 'function'),
    # noise: the identifier occurs (passes the regex pre-filter) but nothing is defined
    'n_import': ('import {X}\n', None, None),
    'n_from': ('from hmod import {X}\n', None, None),
    'n_comment': ('# {X}\n', None, None),
    'n_string': ('hs{n} = "{X}"\n', None, None),
    'n_use': ('print({X})\n', None, None),
}
TOPK = [k for k, v in KINDS.items() if v[1] is True]
NESTK = [k for k, v in KINDS.items() if v[1] is False]
NOISEK = [k for k, v in KINDS.items() if v[1] is None]
DEFK = TOPK + NESTK
SKEL7 = ['top.py', 'pkg/__init__.py', 'pkg/mod.py', 'pkg/sub/__init__.py', 'pkg/sub/deep.py',
         'ns/plain.py', 'pkgx/other.py']
SKEL5 = SKEL7[:5]
SKEL2 = ['top.py', 'pkg/__init__.py']


# ------------------------------------------------------------------ generator

def _render(snips):
    """[(kind, ident)] -> (text, [definition records]) — the generator's inventory."""
    text = ''
    defs = []
    for n, (kind, ident) in enumerate(snips):
        tmpl, top, typ = KINDS[kind]
        s = tmpl.replace('{n}', str(n)).replace('{X}', ident)
        at = s.find('<X>')
        if at >= 0:
            line = text.count('\n') + 1 + s.count('\n', 0, at)
            col = at - (s.rfind('\n', 0, at) + 1)
            defs.append({'name': ident, 'line': line, 'col': col, 'top': top, 'type': typ,
                         'kind': kind, 'holder': ('H%d' % n) if kind in ('method', 'cattr') else None})
            s = s.replace('<X>', ident)
        elif kind in ('n_import', 'n_from'):
            # binds the name at module level, but an import is not a definition to report
            defs.append({'name': ident, 'line': text.count('\n') + 1, 'col': s.index(ident, 4),
                         'top': True, 'type': 'import', 'kind': kind, 'holder': None})
        text += s
    return text, defs


ABSTRACT = set(POOL_T + POOL_U + POOL_L1)
TOK_LEN = 4
_CONS = 'bcdfghjklmnpqrstvwz'
_tok_counter = [0]


def _next_token():
    n = _tok_counter[0]
    _tok_counter[0] += 1
    return _CONS[n // 361 % 19] + _CONS[n // 19 % 19] + _CONS[n % 19]


def _concrete(name, tok):
    """Identifiers are private to their tree: zeta -> y<tok>zeta, \u00e9la -> \u00e9<tok>la.  jedi
    keeps process-wide state; what is asked about one tree must not meet state left behind by the
    searches of another tree, and a replay of one tree in a fresh process must see the same."""
    if name not in ABSTRACT:
        return name
    return (name[0] + tok + name[1:]) if ord(name[0]) > 127 else 'y' + tok + name


def _concrete_component(c, tok):
    for ext in ('.pyi', '.py', '-stubs', ''):
        if ext and c.endswith(ext) and c[:-len(ext)] in ABSTRACT:
            return _concrete(c[:-len(ext)], tok) + ext
    return _concrete(c, tok)


class Tree:
    default_pool = POOL

    def __init__(self, tid, idents=None, **kw):
        self.tok = _next_token()
        self.spec = dict(id=tid, files={}, defs={}, tok=self.tok,
                         idents=[_concrete(x, self.tok) for x in (idents or Tree.default_pool)], **kw)

    def _rel(self, rel):
        return '/'.join(_concrete_component(c, self.tok) for c in rel.split('/'))

    def add(self, rel, snips, head='', encoding=None):
        rel = self._rel(rel)
        text, defs = _render([(k, _concrete(x, self.tok)) for k, x in snips])
        shift = head.count('\n')
        self.spec['files'][rel] = head + text
        self.spec['defs'][rel] = [dict(d, line=d['line'] + shift) for d in defs]
        if encoding:
            self.spec.setdefault('enc', {})[rel] = encoding
        return self

    def stub(self, rel, text):
        rel = self._rel(rel)
        self.spec['files'][rel] = text
        self.spec['defs'][rel] = []
        return self

    def raw(self, rel, text):
        # .gitignore content: entries that name a pool identifier follow the renaming
        self.spec['files'][self._rel(rel)] = '\n'.join(self._rel(l) for l in text.split('\n'))
        return self

    def skeleton(self, files, idents, rich=True, shift=0):
        kinds = DEFK + NOISEK
        for i, rel in enumerate(files):
            if rich:
                ks = kinds[(i + shift) % len(files)::len(files)]
                self.add(rel, [(k, idents[(i + j + shift) % len(idents)]) for j, k in enumerate(ks)])
            else:
                self.add(rel, [('assign', 'hq')])
        return self

    def hidden(self, rel, idents, shift=0):
        """A file with a top-level and a nested definition of every identifier."""
        snips = []
        for j, x in enumerate(idents):
            snips.append((TOPK[(j + shift) % 3], x))          # def / class / assign
            snips.append((NESTK[(j + shift) % 3], x))         # method / cattr / local
        return self.add(rel, snips)


def _j(*parts):
    return '/'.join(p for p in parts if p)


GIT_KINDS = [
    # name, lines, [(path components of the named thing, is_file)]
    ('rel-dir', ['build'], [(['build'], False)]),
    ('rel-dir-slash', ['build/'], [(['build'], False)]),
    ('anch-dir', ['/gen'], [(['gen'], False)]),
    ('anch-dir-slash', ['/gen/'], [(['gen'], False)]),
    ('nested-dir', ['a/b'], [(['a', 'b'], False)]),
    ('nested-anch-dir', ['/a/b'], [(['a', 'b'], False)]),
    ('rel-file', ['mkeep.py'], [(['mkeep.py'], True)]),
    ('anch-file', ['/mkeep.py'], [(['mkeep.py'], True)]),
    ('nested-file', ['a/mkeep.py'], [(['a', 'mkeep.py'], True)]),
    ('comment', ['#cmt'], [(['#cmt'], False)]),
    ('negation', ['!neg'], [(['neg'], False), (['!neg'], False)]),
    ('glob', ['*.tmp', 'gl?b', 'g[l]ob'], [(['tmp'], False)]),
    ('blank-and-comments', ['', '# build', 'build', '', '#gen'], [(['build'], False), (['gen'], False)]),
    ('multi', ['build', '/gen', 'mkeep.py', 'a/b'],
     [(['build'], False), (['gen'], False), (['mkeep.py'], True), (['a', 'b'], False)]),
]
GIT_QUICK_X = ['rel-dir', 'anch-dir', 'nested-dir', 'rel-file']
GIT_LEVELS = ['', 'pkg', 'pkg/sub']


def _bases(g):
    b = [('same', g), ('deeper', _j(g, 'k')), ('unrelated', 'ns')]
    if g:
        b.append(('above', os.path.dirname(g)))
        b.append(('prefix-sibling', g + 'x'))
    return b


def _place_targets(t, base, targets, idents, shift=0):
    for pp, is_file in targets:
        if is_file:
            t.hidden(_j(base, *pp), idents, shift)
        else:
            t.hidden(_j(base, *(pp + ['hid.py'])), idents, shift)


def _families(tier):
    quick = tier == 'quick'
    idents = POOL if quick else POOL_T
    Tree.default_pool = idents
    _tok_counter[0] = 0
    fams = []

    def tree_a(prefix, name, li, loc, **kw):
        t = Tree('%sA:%s@%s' % (prefix, name, loc or '.'), **kw)
        t.skeleton(SKEL7, idents, shift=li)
        t.hidden(_j(loc, name, 'hid.py'), idents, li)
        t.hidden(_j(loc, name, 'lib', 'inner.py'), idents, li + 1)
        t.add(_j(loc, name, idents[li % len(idents)] + '.py'), [('assign', 'hq')])
        if name in IGN5:   # a *file* of that name is not a folder to ignore
            t.add(_j(loc, name + '.py'), [('def', idents[li % len(idents)])])
        return t.spec

    # A: built-in ignored directory names and near misses x placement
    places_a = [(name, li, loc) for name in IGN5 + NEAR
                for li, loc in enumerate(['', 'pkg', 'pkg/sub', 'ns'])]
    fams.append(('A ignored-dir-name x place',
                 [tree_a('', name, li, loc, qset='full') for name, li, loc in places_a]))

    # G: one .gitignore: level x pattern kind, the named thing placed at every relative position
    trees = []
    for g in GIT_LEVELS:
        for gi, (kname, lines, targets) in enumerate(GIT_KINDS):
            t = Tree('G:%s@%s' % (kname, g or '.'), qset='full')
            t.skeleton(SKEL5, idents, shift=gi)
            t.raw(_j(g, '.gitignore'), '\n'.join(lines) + '\n')
            for bname, base in _bases(g):
                _place_targets(t, base, targets, idents, gi)
            trees.append(t.spec)
    fams.append(('G gitignore level x pattern x target place', trees))

    # D: one definition: kind x file, everything else free of pool identifiers
    trees = []
    dk = DEFK + NOISEK
    for fi, rel in enumerate(SKEL7):
        for ki, kind in enumerate(dk):
            for x in (idents[(fi + ki) % len(idents)],) if quick else idents[:2]:
                t = Tree('D:%s:%s@%s' % (kind, x, rel), qset='lite', orders=['asc'])
                t.skeleton(SKEL7, idents, rich=False)
                t.add(rel, [('assign', 'hq'), (kind, x), ('n_use', 'hq')])
                trees.append(t.spec)
    fams.append(('D definition kind x file', trees))

    # W: pruning positions: every subset of {3 ignored, 3 kept (+1 gitignored)} sibling folders
    trees = []
    sibs = ['.tox', 'Akeep', '__pycache__', '_keep', 'venv', 'wkeep'] + ([] if quick else ['build'])
    for parent in ['', 'pkg']:
        for mask in range(1, 2 ** len(sibs)):
            chosen = [s for k, s in enumerate(sibs) if mask >> k & 1]
            t = Tree('W:%s@%s' % (','.join(chosen), parent or '.'), qset='lite')
            t.skeleton(SKEL2, idents)
            if not quick:
                t.raw('.gitignore', 'build\n')
            for k, s in enumerate(chosen):
                t.hidden(_j(parent, s, 'c.py'), idents, k)
            trees.append(t.spec)
    fams.append(('W subsets of pruned/kept sibling folders', trees))

    # M: module/package kind x place x ignore wrapper, named by a pool identifier
    trees = []
    mkinds = ['file.py', 'file.pyi', 'pkg', 'pkg.pyi', 'stubs-folder', 'namespace']
    wrappers = ['none', 'venv', 'gitignored-dir', 'gitignore-names-it']
    for mi, mk in enumerate(mkinds):
        for li, loc in enumerate(['', 'pkg', 'pkg/sub', 'ns']):
            for wi, w in enumerate(wrappers):
                x = idents[(mi + li) % len(idents)]
                t = Tree('M:%s:%s@%s/%s' % (mk, x, loc or '.', w), qset='lite')
                t.skeleton(SKEL5, idents, rich=False)
                d = loc
                if w == 'venv':
                    d = _j(loc, 'venv')
                elif w == 'gitignored-dir':
                    d = _j(loc, 'build')
                    t.raw('.gitignore', 'build\n')
                rel = {'file.py': _j(d, x + '.py'), 'file.pyi': _j(d, x + '.pyi'),
                       'pkg': _j(d, x, '__init__.py'), 'pkg.pyi': _j(d, x, '__init__.pyi'),
                       'stubs-folder': _j(d, x + '-stubs', '__init__.pyi'),
                       'namespace': _j(d, x, 'inner.py')}[mk]
                if w == 'gitignore-names-it':
                    t.raw('.gitignore', rel.split('/')[len(d.split('/')) if d else 0] + '\n')
                if rel.endswith('.pyi'):
                    t.stub(rel, 'hm: int\n')
                else:
                    t.add(rel, [('assign', 'hm')])
                trees.append(t.spec)
    fams.append(('M module kind x place x ignore wrapper', trees))

    # X: cross product  built-in ignored dir x place  x  .gitignore level x pattern kind
    trees = []
    gk = [k for k in GIT_KINDS if (k[0] in GIT_QUICK_X or not quick)]
    for ni, name in enumerate(IGN5):
        for li, loc in enumerate(['', 'pkg', 'pkg/sub', 'ns']):
            for g in GIT_LEVELS:
                for gi, (kname, lines, targets) in enumerate(gk):
                    t = Tree('X:%s@%s+%s@%s' % (name, loc or '.', kname, g or '.'), qset='lite')
                    t.skeleton(SKEL5, idents, shift=ni + gi)
                    t.hidden(_j(loc, name, 'hid.py'), idents, li)
                    t.raw(_j(g, '.gitignore'), '\n'.join(lines) + '\n')
                    _place_targets(t, g, targets, idents, gi)
                    _place_targets(t, _j(g, 'k'), targets, idents, gi + 1)
                    trees.append(t.spec)
    fams.append(('X ignored-dir x place x gitignore level x pattern', trees))

    # G2: two .gitignore files at two levels at once
    trees = []
    g2 = [k for k in GIT_KINDS if k[0] in ('rel-dir', 'anch-dir', 'nested-dir', 'rel-file', 'anch-file')]
    if quick:
        g2 = g2[:3]
    for (k1, l1, t1), (k2, l2, t2) in itertools.product(g2, g2):
        for g in GIT_LEVELS[1:]:
            t = Tree('G2:%s@.+%s@%s' % (k1, k2, g), qset='lite')
            t.skeleton(SKEL5, idents)
            t.raw('.gitignore', '\n'.join(l1) + '\n')
            t.raw(_j(g, '.gitignore'), '\n'.join(l2) + '\n')
            for bname, base in _bases(g):
                _place_targets(t, base, t1 + [x for x in t2 if x not in t1], idents)
            trees.append(t.spec)
    fams.append(('G2 two gitignore files', trees))

    # N: the definition is spelled like the module/package that contains it:
    #    definition kind x container kind x place
    trees = []
    containers = [('file', loc) for loc in ['', 'pkg', 'pkg/sub', 'ns']] + \
                 [('package', loc) for loc in ['', 'pkg', 'ns']] + \
                 [('stub', loc) for loc in ['', 'pkg']]
    for ci, (ck, loc) in enumerate(containers):
        for ki, kind in enumerate(DEFK):
            if ck == 'stub' and kind not in ('def', 'class', 'assign', 'ann', 'method', 'cattr'):
                continue
            x = idents[(ci + ki) % len(idents)]
            rel = {'file': _j(loc, x + '.py'), 'package': _j(loc, x, '__init__.py'),
                   'stub': _j(loc, x + '.pyi')}[ck]
            t = Tree('N:%s:%s:%s@%s' % (ck, kind, x, loc or '.'), qset='full', orders=['asc'],
                     idents=[x])
            t.skeleton(SKEL5, idents, rich=False)
            t.add(rel, [('assign', 'hq'), (kind, x), ('n_use', 'hq')])
            t.add(_j(loc, 'other.py'), [(kind, x)])        # same definition in a file named otherwise
            trees.append(t.spec)
    fams.append(('N definition named like its own module/package: kind x container x place', trees))

    # U: identifiers that start / end with a non-ASCII letter, and a latin-1 encoded source file
    trees = []
    t = Tree('U:utf8', qset='full', idents=POOL_U)
    t.skeleton(SKEL7, POOL_U)
    t.hidden('venv/hid.py', POOL_U)
    t.hidden('ns/lib/vis.py', POOL_U, 1)
    t.add('pkg/%s.py' % POOL_U[0], [('assign', 'hq')])
    trees.append(t.spec)
    for li, loc in enumerate(['', 'pkg', 'ns']):
        for wrap in ('', 'venv'):
            t = Tree('U:latin1@%s/%s' % (loc or '.', wrap or 'visible'), qset='full', idents=POOL_L1)
            t.skeleton(SKEL5, POOL_L1, rich=False)
            snips = [(k, POOL_L1[(j + li) % 2]) for j, k in enumerate(['def', 'method', 'class', 'local'])]
            t.add(_j(loc, wrap, 'lat.py'), snips, head=LATIN1_HEAD, encoding='latin-1')
            t.add(_j(loc, 'utf.py'), [('assign', POOL_L1[li % 2]), ('cattr', POOL_L1[(li + 1) % 2])])
            trees.append(t.spec)
    for ki, kind in enumerate(DEFK + NOISEK):
        x = POOL_U[ki % len(POOL_U)]
        t = Tree('U:D:%s:%s' % (kind, x), qset='lite', orders=['asc'], idents=[x])
        t.skeleton(SKEL2, POOL_U, rich=False)
        t.add(SKEL7[ki % 7] if SKEL7[ki % 7] not in SKEL2 else 'pkg/mod.py',
              [('assign', 'hq'), (kind, x), ('n_use', 'hq')])
        trees.append(t.spec)
    fams.append(('U non-ASCII identifiers (first/last letter), latin-1 source file', trees))

    # Z (thorough): everything at once, trees of up to 30 files
    if not quick:
        trees = []
        places = ['', 'pkg', 'pkg/sub', 'ns']
        multi = [k for k in GIT_KINDS if k[0] == 'multi'][0]
        for g in GIT_LEVELS:
            for rot in range(4):
                t = Tree('Z:%s/rot%d' % (g or '.', rot), qset='full')
                t.skeleton(SKEL7, idents, shift=rot)
                for k, name in enumerate(IGN5 + NEAR[:4]):
                    t.hidden(_j(places[(k + rot) % 4], name, 'hid.py'), idents, k)
                t.raw(_j(g, '.gitignore'), '\n'.join(multi[1]) + '\n')
                _place_targets(t, g, multi[2], idents, rot)
                _place_targets(t, _j(g, 'k'), multi[2], idents, rot + 1)
                other = GIT_LEVELS[(GIT_LEVELS.index(g) + 1) % 3]
                t.raw(_j(other, '.gitignore'), '# second file\n/only_here\n')
                t.hidden(_j(other, 'only_here', 'hid.py'), idents, rot)
                t.hidden(_j(other, 'k', 'only_here', 'hid.py'), idents, rot)
                trees.append(t.spec)
        fams.append(('Z all ignore kinds at once (<=30 files)', trees))

    # L: file counts around the documented parse limit
    trees = []
    for n_match in ([29, 31] if quick else [1, 29, 30, 31, 40]):
        for n_noise in ([0, 35] if quick else [0, 35, 70]):
            for n_hidden in [0, 35]:
                trees.append({'id': 'L:%d/%d/%d' % (n_match, n_noise, n_hidden), 'limits':
                              [n_match, n_noise, n_hidden], 'tok': _next_token()})
    fams.append(('L parse limit: matching x noise x ignored-matching files', trees))

    # H: histories in another order: complete_search before search, and search again afterwards
    trees = []
    for g in GIT_LEVELS:
        for kname in ('rel-dir', 'rel-file', 'multi'):
            lines, targets = [(k[1], k[2]) for k in GIT_KINDS if k[0] == kname][0]
            for qorder in ('reverse', 'triple'):
                t = Tree('H:%s:%s@%s' % (qorder, kname, g or '.'), qset='full', qorder=qorder)
                t.skeleton(SKEL5, idents)
                t.raw(_j(g, '.gitignore'), '\n'.join(lines) + '\n')
                for bname, base in _bases(g):
                    _place_targets(t, base, targets, idents)
                trees.append(t.spec)
    fams.append(('H call order: complete_search then search; search, complete_search, search', trees))

    # S: the default (environment) sys.path instead of an empty one, native listing order
    fams.append(('S default sys.path, native directory order',
                 [tree_a('S', name, li, loc, syspath='default', orders=['native'], qset='nonempty')
                  for name, li, loc in places_a[::5 if quick else 1]]))
    return fams, idents


# ------------------------------------------------------------------ reference model

def _ref_ignored(rel, files):
    """Why the file `rel` lies in an ignored place (None if it does not).

    Built-in folder names anywhere on the way; literal .gitignore entries: an entry containing
    a slash (other than a trailing one) is anchored at the .gitignore's folder, any other entry
    names a file or folder at any depth below it.  Blank, '#', '!' and glob lines name nothing.
    """
    parts = rel.split('/')
    if any(p in IGN5 for p in parts[:-1]):
        return 'builtin-dir'
    for g, text in files.items():
        if os.path.basename(g) != '.gitignore':
            continue
        gdir = g.split('/')[:-1]
        if parts[:len(gdir)] != gdir or len(parts) <= len(gdir):
            continue
        below = parts[len(gdir):]
        for line in text.split('\n'):
            if not line or line[0] in '#!' or any(c in line for c in '*?['):
                continue
            pat = line.rstrip('/')
            if '/' in pat:
                pp = pat.lstrip('/').split('/')
                hit = below[:len(pp)] == pp
                last = len(pp) == len(below)
            else:
                hit = pat in below
                last = hit and below.index(pat) == len(below) - 1
            if hit:
                return 'gitignore-file' if last else 'gitignore-dir'
    return None


def _inventory(spec):
    """-> (visible defs, ignored defs, visible modules {name: [(kind, rel-or-dotted)]})."""
    files = spec['files']
    pyfiles = [r for r in files if r.endswith(('.py', '.pyi'))]
    why = {r: _ref_ignored(r, files) for r in pyfiles}
    vis, ign = [], []
    for rel in pyfiles:
        recs = spec['defs'].get(rel, [])
        for d in recs:
            if d['type'] == 'import':
                continue
            # attribute lookup `module.name` yields the last binding: only names bound once at
            # module level are asked for in dotted form
            once = sum(1 for e in recs if e['name'] == d['name'] and e['top']) == 1
            (ign if why[rel] else vis).append(dict(d, rel=rel, once=once))
    mods = {}
    initdirs = set()
    for rel in pyfiles:
        d, base = os.path.split(rel)
        stem = base.rsplit('.', 1)[0]
        if stem == '__init__':
            initdirs.add(d)
            name = os.path.basename(d)
            if name.endswith('-stubs'):
                name = name[:-len('-stubs')]
        else:
            name = stem
        if not why[rel] and name:
            mods.setdefault(name, []).append(('module', rel))
    # folders without __init__ that hold visible python files are namespace packages
    seen = set()
    for rel in pyfiles:
        if why[rel]:
            continue
        d = os.path.dirname(rel)
        while d and d not in seen:
            seen.add(d)
            if d not in initdirs and not os.path.basename(d).endswith('-stubs'):
                mods.setdefault(os.path.basename(d), []).append(('namespace', d.replace('/', '.')))
            d = os.path.dirname(d)
    return vis, ign, mods, why


# ------------------------------------------------------------------ queries

def _qstr(q):
    return (q['type'] + ' ' if q['type'] else '') + '.'.join(q['path'])


def _queries(spec, idents, vis):
    qset = spec.get('qset', 'full')
    qs = []

    both = {'reverse': ('complete_search', 'search'),
            'triple': ('search', 'complete_search', 'search')}.get(
                spec.get('qorder'), ('search', 'complete_search'))

    def add(path, typ=None, scopes=(False, True), modes=both, req=None):
        for a in scopes:
            for m in modes:
                qs.append({'mode': m, 'all_scopes': a, 'type': typ, 'path': path, 'req': req})

    # every string asked about a tree starts with the tree's token (or is empty)
    T = TOK_LEN
    if qset == 'full':
        strings = sorted({''} | {x[:k] for x in idents for k in range(T, len(x) + 1)})
    elif qset == 'nonempty':
        strings = sorted({x[:k] for x in idents for k in (T + 2, len(x))})
    else:
        strings = sorted({''} | {x[:k] for x in idents for k in (T, T + 1, len(x))})
    for s in strings:
        add([s])
    for x in idents if qset == 'full' else idents[:1]:
        add([x], 'class')
        add([x], 'def')
    if qset != 'nonempty':
        add([idents[0][:T + 2]], 'def', modes=('complete_search',))
    # dotted and typed-dotted forms derived from the inventory of visible files
    done = set()
    for d in vis:
        rel = d['rel']
        if rel.endswith('.pyi'):
            continue
        parts = rel[:-3].split('/')
        if parts[-1] == '__init__':
            parts = parts[:-1]
        if not parts or not all(p.isidentifier() for p in parts):
            continue
        forms = []
        if qset == 'lite' or (d['top'] and not d['once']):
            continue
        if d['top']:
            forms.append((parts[-1:] + [d['name']], None))
            forms.append((parts + [d['name']], None))
            if d['type'] in ('function', 'class'):
                forms.append((parts[-1:] + [d['name']], {'function': 'def', 'class': 'class'}[d['type']]))
        elif d['holder']:
            forms.append(([d['holder'], d['name']], None))
            forms.append((parts[-1:] + [d['holder'], d['name']], None))
        for path, typ in forms:
            key = (tuple(path), typ)
            if key in done or len(path) < 2:
                continue
            done.add(key)
            if len(done) > 8:
                break
            add(path, typ, scopes=(False,), req=[[rel, d['line'], d['col'], d['name']]])
    return qs


class _Listing:
    """What os.scandir returns, with the entries in an order chosen by the explorer."""
    def __init__(self, real, top, reverse):
        with real(top) as it:
            self._entries = sorted(it, key=lambda e: e.name, reverse=reverse)
        self._it = iter(self._entries)

    def __iter__(self):
        return self

    def __next__(self):
        return next(self._it)

    def __enter__(self):
        return self

    def __exit__(self, *a):
        return False

    def close(self):
        pass


class _dir_order:
    def __init__(self, order):
        self.order = order

    def __enter__(self):
        self.real = os.scandir
        if self.order != 'native':
            real, rev = self.real, self.order == 'desc'
            os.scandir = lambda top='.': _Listing(real, top, rev)

    def __exit__(self, *a):
        os.scandir = self.real
        return False


def _expected(q, vis, mods):
    """Required results for a one-name query: [('def', rel, line, col, name) | ('module', rel)
    | ('namespace', dotted)]."""
    if q['req'] is not None:
        return [('def',) + tuple(r) for r in q['req']]
    s = q['path'][0]
    complete = q['mode'] == 'complete_search'
    want = {'class': 'class', 'def': 'function', None: None}[q['type']]
    out = []
    for d in vis:
        if not (q['all_scopes'] or d['top']):
            continue
        if not (d['name'].startswith(s) if complete else d['name'] == s):
            continue
        if want and d['type'] != want:
            continue
        out.append(('def', d['rel'], d['line'], d['col'], d['name']))
    if want is None:
        out += [(k, where) for k, where in mods.get(s, [])]
    return out


def _run_query(project, q):
    fn = project.search if q['mode'] == 'search' else project.complete_search
    res = []
    for n in fn(_qstr(q), all_scopes=q['all_scopes']):
        mp = n.module_path
        res.append((n.name, n.type, None if mp is None else str(mp), n.line, n.column, n.full_name))
    return res


def _check(q, res, root, vis, mods, why):
    """-> list of (site, detail)"""
    fails = []
    mode = q['mode']
    got_defs = set()
    got_mods = set()
    got_ns = set()
    pre = root + os.sep
    for name, typ, mp, line, col, full in res:
        if mp is None:
            if typ == 'namespace':
                got_ns.add(full)
            continue
        if not mp.startswith(pre):
            continue
        rel = mp[len(pre):].replace(os.sep, '/')
        got_defs.add((rel, line, col, name))
        if typ == 'module':
            got_mods.add(rel)
        w = why.get(rel) or _ref_ignored(rel, {})
        if w and len(q['path']) <= 2:
            fails.append(('ignored-%s-reported%s@%s' % (w, ':module' if typ == 'module' else '', mode),
                          {'reported': [name, typ, rel, line, col], 'ignored_because': w}))
    exp = _expected(q, vis, mods)
    for e in exp:
        if e[0] == 'def' and tuple(e[1:]) not in got_defs:
            fails.append(('missed-definition%s@%s' % ('-dotted' if len(q['path']) > 1 else '', mode),
                          {'missing': list(e[1:])}))
        elif e[0] == 'module' and e[1] not in got_mods:
            fails.append(('missed-module@%s' % mode, {'missing': e[1]}))
        elif e[0] == 'namespace' and e[1] not in got_ns:
            fails.append(('missed-namespace-package@%s' % mode, {'missing': e[1]}))
    return fails, len(exp)


def _write_tree(root, files, enc=None):
    for rel, text in files.items():
        p = os.path.join(root, *rel.split('/'))
        os.makedirs(os.path.dirname(p), exist_ok=True)
        with open(p, 'w', encoding=(enc or {}).get(rel, 'utf-8'), newline='') as f:
            f.write(text)


_counter = [0]


def _fresh_dir(tag):
    _counter[0] += 1
    d = os.path.join(boot.scratch_root(), 'c19-%d' % os.getpid(), '%s%d' % (tag, _counter[0]))
    os.makedirs(d)
    return d


def _project(jedi, env, root, spec):
    kw = {} if spec.get('syspath') == 'default' else {'sys_path': []}
    project = jedi.Project(root, **kw)
    project._environment = env       # Project.search builds its own Script: pin the private env
    return project


def _explore_tree(spec, idents, single=None):
    jedi = boot.boot()
    env = boot.environment()
    base = _fresh_dir('t')
    root = os.path.join(base, 'r')
    out = {'fails': [], 'q': 0, 'states': 0, 'req': 0, 'forb': 0, 'classes': set(), 'hits': {}}
    try:
        _write_tree(root, spec['files'], spec.get('enc'))
        vis, ign, mods, why = _inventory(spec)
        queries = _queries(spec, idents, vis)
        for w in set(why.values()):
            out['hits']['files:' + str(w)] = sum(1 for v in why.values() if v == w)
        for order in spec.get('orders', ['asc', 'desc']):
            out['states'] += 1
            for q in queries:
                if single is not None and [order, _qstr(q), q['mode'], q['all_scopes']] != single:
                    continue
                out['q'] += 1
                try:
                    with _dir_order(order):
                        res = _run_query(_project(jedi, env, root, spec), q)
                except BaseException as e:
                    if isinstance(e, (KeyboardInterrupt, SystemExit)):
                        raise
                    fails, nexp = [(canon.exc_site(e), {'traceback': canon.short_tb(e)})], 0
                    res = []
                else:
                    fails, nexp = _check(q, res, root, vis, mods, why)
                # vacuity accounting: ignored definitions this query would have matched
                nforb = 0
                if len(q['path']) == 1:
                    nforb = len(_expected(dict(q, req=None), ign, {}))
                out['req'] += nexp
                out['forb'] += nforb
                out['classes'].add((spec['id'].split(':')[0], q['mode'], q['all_scopes'],
                                    q['type'], min(len(q['path']), 3),
                                    (len(q['path'][-1]) > 0) + (len(q['path'][-1]) > TOK_LEN),
                                    min(nexp, 3), min(nforb, 3), min(len(res), 3)))
                for site, detail in fails:
                    out['fails'].append({'site': site, 'order': order, 'query': _qstr(q),
                                         'mode': q['mode'], 'all_scopes': q['all_scopes'],
                                         'detail': detail})
    finally:
        shutil.rmtree(base, ignore_errors=True)
    out['classes'] = sorted(map(repr, out['classes']))
    return out


def _explore_limits(spec):
    jedi = boot.boot()
    env = boot.environment()
    n_match, n_noise, n_hidden = spec['limits']
    base = _fresh_dir('l')
    root = os.path.join(base, 'r')
    out = {'fails': [], 'q': 0, 'states': 0, 'req': 0, 'forb': 0, 'classes': set(), 'hits': {}}
    try:
        name = _concrete('zeta', spec['tok'])
        files = {}
        for i in range(n_match):
            files['many/d%d/m%d.py' % (i % 3, i)] = 'def %s(): pass\n' % name
        for i in range(n_noise):
            files['many/d%d/n%d.py' % (i % 3, i)] = 'hq%d = %d\n' % (i, i)
        for i in range(n_hidden):
            files['venv/v%d.py' % i] = 'def %s(): pass\n' % name
            files['many/.tox/v%d.py' % i] = 'def %s(): pass\n' % name
        _write_tree(root, files)
        need = min(n_match, PARSE_LIMIT)
        for order in ['asc', 'desc', 'native']:
            out['states'] += 1
            for mode, s in [('search', name), ('complete_search', name[:-2])]:
                for a in (False, True):
                    out['q'] += 1
                    q = {'mode': mode, 'all_scopes': a, 'type': None, 'path': [s]}
                    try:
                        with _dir_order(order):
                            res = _run_query(_project(jedi, env, root, spec), q)
                    except BaseException as e:
                        if isinstance(e, (KeyboardInterrupt, SystemExit)):
                            raise
                        out['fails'].append({'site': canon.exc_site(e), 'order': order, 'query': s,
                                             'mode': mode, 'all_scopes': a,
                                             'detail': {'traceback': canon.short_tb(e)}})
                        continue
                    found = {r[2] for r in res if r[2] and r[0] == name and r[1] == 'function'}
                    vis = {f for f in found if os.sep + 'many' + os.sep + 'd' in f}
                    hid = found - vis
                    out['req'] += need
                    out['forb'] += 2 * n_hidden
                    out['classes'].add(('L', mode, a, n_match > PARSE_LIMIT, n_noise > 0,
                                        n_hidden > 0, len(vis) >= PARSE_LIMIT))
                    if len(vis) < need:
                        out['fails'].append({'site': 'missed-definition-below-parse-limit@' + mode,
                                             'order': order, 'query': s, 'mode': mode,
                                             'all_scopes': a,
                                             'detail': {'files_with_definition': n_match,
                                                        'files_reported': len(vis),
                                                        'required_at_least': need}})
                    if hid:
                        out['fails'].append({'site': 'ignored-builtin-dir-reported@' + mode,
                                             'order': order, 'query': s, 'mode': mode,
                                             'all_scopes': a, 'detail': {'reported': sorted(hid)[:3]}})
    finally:
        shutil.rmtree(base, ignore_errors=True)
    out['classes'] = sorted(map(repr, out['classes']))
    return out


def _buffer_queries(idents):
    qs = []
    strings = sorted({''} | {x[:k] for x in idents for k in range(TOK_LEN, len(x) + 1)})
    for s in strings:
        for typ in (None, 'class', 'def'):
            if typ and len(s) not in (TOK_LEN + 1, len(idents[0])):
                continue
            for a in (False, True):
                for mode in ('search', 'complete_search'):
                    qs.append({'mode': mode, 'all_scopes': a, 'type': typ, 'path': [s]})
    return qs


def _explore_buffers(task):
    """Script.search / complete_search against filtering get_names, one buffer per text."""
    jedi = boot.boot()
    env = boot.environment()
    base = _fresh_dir('b')
    out = {'fails': [], 'q': 0, 'states': 0, 'req': 0, 'forb': 0, 'classes': set(), 'hits': {}}
    project = jedi.Project(base, sys_path=[], smart_sys_path=False)
    try:
        for k, (text, idents) in enumerate(task['items']):
            out['states'] += 1
            script = jedi.Script(text, path=os.path.join(base, 'buf%d.py' % k), environment=env,
                                 project=project)
            for q in _buffer_queries(idents):
                s = _qstr(q)
                out['q'] += 1
                want = {'class': 'class', 'def': 'function', None: None}[q['type']]
                low = q['path'][0].lower()
                try:
                    fn = script.search if q['mode'] == 'search' else script.complete_search
                    got = [[n.name, n.type, n.line, n.column] for n in fn(s, all_scopes=q['all_scopes'])]
                    ref = []
                    for n in script.get_names(all_scopes=q['all_scopes']):
                        nm = n.name.lower()
                        if (nm.startswith(low) if q['mode'] == 'complete_search' else nm == low) \
                                and (want is None or n.type == want):
                            ref.append([n.name, n.type, n.line, n.column])
                except BaseException as e:
                    if isinstance(e, (KeyboardInterrupt, SystemExit)):
                        raise
                    out['fails'].append({'site': canon.exc_site(e), 'order': k, 'query': s,
                                         'mode': q['mode'], 'all_scopes': q['all_scopes'],
                                         'detail': {'text': text, 'traceback': canon.short_tb(e)}})
                    continue
                out['req'] += len(ref)
                out['classes'].add(('B', q['mode'], q['all_scopes'], q['type'], min(len(ref), 3)))
                if got != ref:
                    out['fails'].append({'site': 'script-search-differs-from-get_names@' + q['mode'],
                                         'order': k, 'query': s, 'mode': q['mode'],
                                         'all_scopes': q['all_scopes'],
                                         'detail': {'text': text, 'search': got,
                                                    'filtered_get_names': ref}})
    finally:
        shutil.rmtree(base, ignore_errors=True)
    out['classes'] = sorted(map(repr, out['classes']))
    return out


def _init():
    boot.boot()
    boot.environment()


def _work(task):
    """One task = one tree = one history of calls.  task['only'] (replays): the whole history
    is re-executed and the recorded call reported; with task['single'] just that one call."""
    only = task.get('only')
    if 'items' in task:
        out = _explore_buffers(task)
    elif 'limits' in task['spec']:
        out = _explore_limits(task['spec'])
    else:
        out = _explore_tree(task['spec'], task['idents'], only if task.get('single') else None)
    if only is not None:
        out['fails'] = [f for f in out['fails']
                        if [f['order'], f['query'], f['mode'], f['all_scopes']] == only]
    return out


def _single_call_holds(site, task):
    """Does the recorded call, made alone in a fresh process, give a correct answer?"""
    d = tempfile.mkdtemp(prefix='jv-c19s-', dir=os.environ.get('VERIF_SCRATCH', '/var/tmp'))
    try:
        path = os.path.join(d, 'single.json')
        with open(path, 'w') as f:
            json.dump({'site': site, 'case': {'task': dict(task, single=True, classify=False)}}, f)
        env = dict(os.environ)
        env.pop('JV_SCRATCH', None)
        p = subprocess.run([sys.executable, '-B', '-m', 'jv.runner', ID, '--replay', path, '--quiet'],
                           env=env, capture_output=True, text=True, timeout=900)
        return p.returncode == 0
    finally:
        shutil.rmtree(d, ignore_errors=True)


def _history_of(task):
    """The calls of the task's tree in order, up to the recorded one (for the reader)."""
    spec = task['spec']
    vis = _inventory(spec)[0]
    calls = []
    for order in spec.get('orders', ['asc', 'desc']):
        for q in _queries(spec, task['idents'], vis):
            key = [order, _qstr(q), q['mode'], q['all_scopes']]
            calls.append('%s(%r, all_scopes=%s) [listing %s]' % (q['mode'], _qstr(q), q['all_scopes'], order))
            if key == task['only']:
                return calls
    return calls


def run(ctx):
    fams, idents = _families(ctx.tier)
    # buffers: one instance of every distinct generated text (distinct up to the tree's token)
    texts = {}
    for name, specs in fams:
        for s in specs:
            for rel, text in s.get('files', {}).items():
                if rel.endswith('.py'):
                    norm = text.replace(s['tok'], '###')
                    texts.setdefault(hashlib.sha1(norm.encode()).hexdigest(), [text, s['idents']])
    chunk = 8
    levels = [(name, [{'spec': s, 'idents': s.get('idents')} for s in specs]) for name, specs in fams]
    items = [texts[k] for k in sorted(texts)]
    levels.append(('B Script.search == filter(get_names) on every distinct generated text',
                   [{'items': items[i:i + chunk], 'first': i} for i in range(0, len(items), chunk)]))
    dev = os.environ.get('JV_C19_FAMS')          # development aid only: run a subset of families
    if dev:
        levels = [lv for lv in levels if lv[0].split()[0] in dev.split(',')]
        ctx.note('JV_C19_FAMS set: only families %s are run' % dev)
    tot = {'q': 0, 'states': 0, 'req': 0, 'forb': 0}
    classes = set()
    hits = {}
    done = []
    exhaustive = not dev
    max_files = 0
    # One pool for all families (simplest family first within every worker's shard): the
    # per-worker cost of loading typeshed's builtins is paid once.
    tasks = []
    for name, ts in levels:
        for t in ts:
            tasks.append(dict(t, level=name))
    pres = pool.run(tasks, 'jv.props.c19:_work', init='jv.props.c19:_init',
                    seed=ctx.seed, deadline=ctx.deadline, tag='c19')
    ctx.absorb(pres, 'C19')
    skipped = set(pres.skipped)
    per_level = {}
    for i, t in enumerate(tasks):
        cnt = per_level.setdefault(t['level'], [0, 0])
        cnt[0] += 1
        tid = t['spec']['id'] if 'spec' in t else 'B:%d' % t['first']
        if 'spec' in t and 'files' in t['spec']:
            max_files = max(max_files, len(t['spec']['files']))
        if i in pres.crashed:
            ctx.violation('WorkerDied(exit=%s)' % pres.crashed[i], tid, {}, {'task': t})
            continue
        r = pres.results.get(i)
        if r is None:
            if i in skipped:
                cnt[1] += 1
            continue
        for k in tot:
            tot[k] += r[k]
        classes.update(r['classes'])
        for k, v in r['hits'].items():
            hits[k] = hits.get(k, 0) + v
        fam = tid.split(':')[0]
        hits['trees:' + fam] = hits.get('trees:' + fam, 0) + 1
        for f in r['fails']:
            only = [f['order'], f['query'], f['mode'], f['all_scopes']]
            if 'items' in t:
                # a buffer is identified by its text, not by its position in the chunk
                text, ids = t['items'][f['order']]
                iid = 'B:%s|%s|%s|%s' % (hashlib.sha1(text.encode()).hexdigest()[:12],
                                         f['mode'], f['query'], f['all_scopes'])
                case = {'task': {'items': [[text, ids]], 'first': 0, 'only': [0] + only[1:]}}
            else:
                iid = '%s|%s|%s|%s|%s' % (tid, f['order'], f['mode'], f['query'], f['all_scopes'])
                case = {'task': dict(t, only=only)}
            ctx.violation(f['site'], iid, f['detail'], case)
    _classify(ctx)
    for name, ts in levels:
        n, nskip = per_level.get(name, [0, 0])
        if nskip:
            exhaustive = False
            ctx.note('level %s: %d of %d not explored (time cap)' % (name, nskip, n))
        else:
            done.append('%s: %d' % (name, n))
    sample = fams[1][1][0]
    ctx.coverage.update({
        'states': tot['states'], 'transitions': tot['q'], 'evaluations': tot['q'],
        'distinct_nontrivial': len(classes),
        'rule': 'state = (generated tree, directory-listing order) or one buffer text; transition '
                '= one search/complete_search call with every result read; distinct_nontrivial = '
                'distinct (family, method, all_scopes, typed?, dotted length, string length class, '
                '#required results, #ignored definitions the string matches, #results) classes '
                '(counts capped at 3)',
        'required_results_checked': tot['req'],
        'ignored_definitions_that_matched_a_query': tot['forb'],
        'levels_completed': done, 'exhaustive': exhaustive,
        'max_files_per_tree': max_files, 'identifier_pool': idents,
        'hits': dict(sorted(hits.items())),
        'samples': [{'id': sample['id'], 'files': sample['files']}],
    })
    ctx.assumptions += [
        'configuration `stubs`; Project(root, sys_path=[]) except in family S (environment sys.path)',
        'directory-listing order is chosen by the explorer by replacing os.scandir in the harness '
        'process (ascending, descending; native in families L and S)',
        'reference ignore rules: folders named venv/.venv/.tox/.mypy_cache/__pycache__ below the '
        'project root; literal .gitignore entries with git anchoring (entry with an inner or '
        'leading slash = relative to the .gitignore folder, otherwise any depth below it); blank, '
        '#, ! and glob lines ignore nothing; glob lines never match anything present in a tree',
        'completeness is demanded for exact-case spellings only (jedi matches case-insensitively); '
        'for complete_search modules/packages are demanded only when the string is their whole name',
        'every tree stays below the documented limits (30 parsed / 2000 opened files) except family '
        'L, which demands min(#files, 30) files with a hit',
    ]


DEPENDS = 'answer-depends-on-earlier-searches@'


def _classify(ctx, per_site=2):
    """Every answer was checked at the end of its tree's history of calls.  For the first
    failures of every site the recorded call is repeated alone in a fresh process: if it is
    answered correctly there, the failure is one of history and is reported as such."""
    seen = {}
    todo = []
    for v in ctx.violations:
        task = v['case'].get('task', {})
        if 'spec' not in task or 'files' not in task['spec'] or task.get('only') is None:
            continue
        inputs = seen.setdefault(v['site'], [])
        if v['input'] not in inputs and len(inputs) < per_site:
            inputs.append(v['input'])
            todo.append(v)
    if not todo:
        return
    from concurrent.futures import ThreadPoolExecutor
    with ThreadPoolExecutor(max_workers=min(4, pool.NPROC)) as ex:
        holds = list(ex.map(lambda v: _single_call_holds(v['site'], v['case']['task']), todo))
    moved = {(v['site'], v['input']) for v, ok in zip(todo, holds) if ok}
    for v in ctx.violations:
        if (v['site'], v['input']) in moved:
            task = dict(v['case']['task'], classify=True)
            v['detail'] = dict(v['detail'], alone_in_a_fresh_process='correct', was=v['site'],
                               history=_history_of(task))
            v['site'] = DEPENDS + v['site'].split('@')[-1]
            v['input'] += '|after-its-tree-history'
            v['case'] = {'task': task}
    for site, inp in sorted(moved):
        ctx.note('answered correctly alone in a fresh process, wrongly after the earlier calls of '
                 'its tree: %s' % inp)


def replay(case):
    _init()
    task = case['task']
    r = _work(task)
    tid = task.get('spec', {}).get('id', 'B')
    out = [(f['site'], tid, f['detail']) for f in r['fails']]
    if task.get('classify') and out:
        # recorded as a failure of history: it must fail here, after the history, and hold alone
        if _single_call_holds(out[0][0], task):
            out = [(DEPENDS + site.split('@')[-1], tid, detail) for site, tid, detail in out]
    return out
