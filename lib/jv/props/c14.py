"""C14 — a crash of the helper process is contained and recovered from.

Engine E3 (faults): a pipe-level injector is installed on the real
`jedi.inference.compiled.subprocess` module by attribute replacement (`pickle_dump`,
`pickle_load`, `_GeneralizedPopen` as seen from that module — no source hooks).  A *plan* is a
scenario (three queries that talk to the helper a learnt number of times R), the query that is
disturbed and 1..3 faults: fault 1 fires at request k of the disturbed query, fault i+1 at
request k of the helper incarnation that replaces the one fault i killed (request 0 of an
incarnation is the version handshake), i.e. in the following query; two undisturbed queries
follow the last fault.  *Warm* plans run after the three scenario queries ran undisturbed on the
same Environment, *cold* plans disturb the very first query of a new Environment (handshake,
get_sys_path).  Phases: `pre` (helper SIGKILLed and known dead before the request is written),
`post` (helper SIGSTOPped, request flushed, helper SIGKILLed: it never answers),
`trunc1|trunchalf|truncm1` (the real reply is read completely, the helper is killed, jedi's
reader receives only the first b bytes followed by EOF through a real pipe), `raiseKI|raiseSE`
(the request's function is replaced by the existing `functions._test_raise_error` with
KeyboardInterrupt / SystemExit: the helper dies on its own, with / without a traceback on
stderr).  The injector never reaps a child it killed (`waitid(..., WNOWAIT)`): reaping is jedi's
job and is what the zombie oracle observes.

Engine E2 (histories, release clause): events {C create Script+query, Qi second query on live
Script i, R create Script whose first request raises helper-side (helper survives), Ei such a
request on live Script i, Di drop Script i, G gc.collect(), X crash}; a small reference model
(ids in the helper, pending-deletion list flushed at the next `run`, sticky crash flag per
incarnation) predicts `len(Listener._inference_states)`, read back with an `eval` request over
the existing protocol.

No verdict depends on wall time: a blocking read is legal only if a request is outstanding on
that incarnation or the peer is dead (asserted in the injector); the select() watchdog only
raises a harness error.
"""
import gc
import itertools
import os
import re
import select
import signal
import threading
import weakref

from .. import boot, canon, pool

ID = 'C14'
BUDGET = {'quick': 300, 'thorough': 1500}

WATCHDOG_S = 120.0

# name -> (code, method).  No get_signatures: its results live in jedi's 3 s wall-clock cache
# (jedi.cache.signature_time_cache), which would make "released after gc" depend on time.
QUERIES = {
    'cos': ('import math\nmath.cos', 'infer'),
    'pi': ('import math\nmath.pi', 'infer'),
    'opi': ('import _opcode\n_opcode.stack_effect', 'infer'),
    'opc': ('import _opcode\n_opcode.', 'complete'),
    'struct': ('import _struct\n_struct.', 'complete'),
    'xx': ('import xxsubtype\nxxsubtype.', 'complete'),
    'zgoto': ('import zlib\nzlib.compress', 'goto'),
    'lit': ('x = "abc".upper()\nx.cent', 'complete'),
    'help': ('import math\nmath.floor', 'help'),
}
SCENARIOS = {
    's0': ['cos', 'opi', 'pi'],
    's1': ['struct', 'zgoto', 'opc'],
    's2': ['xx', 'lit', 'help'],
}
PHASES = ['pre', 'post', 'trunc1', 'trunchalf', 'truncm1', 'raiseKI', 'raiseSE']
LEARN_LEN = 6


class _WouldHang(BaseException):
    pass


class _Watchdog(BaseException):
    pass


class _HarnessBug(BaseException):
    pass


class _LearnFailure(Exception):
    """An undisturbed query failed while learning R: nothing to do with the harness."""
    def __init__(self, scn, qname, out):
        Exception.__init__(self, scn, qname, out)
        self.scn, self.qname, self.out = scn, qname, out

    def item(self):
        out = self.out
        return {'id': 'learn:%s' % self.scn, 'fired': [], 'outcomes': [out[1]], 'steps': 1,
                'obs': 'learn>' + out[1],
                'viol': [['undisturbed-query-failed:' + out[1],
                          {'where': 'undisturbed run of scenario %s, query %s' % (self.scn,
                                                                                  self.qname),
                           'exception': out[1], 'raised_in': out[2], 'traceback': out[3]}]],
                'case': {'kind': 'chain', 'scn': self.scn, 'cold': False, 'plans': []}}


# ------------------------------------------------------------------------------------------
# process observation (no reaping)

def _proc_state(pid):
    """-> state letter of pid if it is (still) our child, else None."""
    try:
        with open('/proc/%d/stat' % pid) as f:
            s = f.read()
    except OSError:
        return None
    rest = s[s.rindex(')') + 2:].split()
    if int(rest[1]) != os.getpid():
        return None          # pid re-used by somebody else
    return rest[0]


def _alive(pid):
    st = _proc_state(pid)
    return st is not None and st not in 'ZX'


def _fds():
    out = []
    for f in os.listdir('/proc/self/fd'):
        try:
            out.append((int(f), os.readlink('/proc/self/fd/' + f)))
        except OSError:
            pass        # the fd of the listing itself
    return sorted(out)


def _threads():
    return [t for t in threading.enumerate() if t is not threading.main_thread()]


# ------------------------------------------------------------------------------------------
# the injector

class _Inc:
    def __init__(self, n, popen):
        self.n = n
        self.popen = popen
        self.pid = popen.pid
        self.nreq = 0
        self.outstanding = 0
        self.killed = False
        self.trunc = None
        self.fault = None        # (k, phase) armed for this incarnation


class Injector:
    """Installed once per process; `begin()` starts a fresh session (one Environment)."""

    def __init__(self):
        import jedi.inference.compiled.subprocess as sp
        self.sp = sp
        self.orig_dump = sp.pickle_dump
        self.orig_load = sp.pickle_load
        self.orig_popen = sp._GeneralizedPopen
        sp.pickle_dump = self._dump
        sp.pickle_load = self._load
        sp._GeneralizedPopen = self._popen
        self.incs = []
        self.begin()

    # -- session ---------------------------------------------------------------------------
    def begin(self):
        """A new session = a new Environment."""
        self.incs = []
        self.by_stdin = {}
        self.by_stdout = {}
        self.step = -1
        self.step_req = 0
        self.step_log = []       # [(has id, function name or None, id)]
        self.probe = False
        self.notes = []          # protocol observations
        self.disarm()

    def arm(self, faults):
        """faults[0] = (k, phase) fires at request k of the next query; faults[i+1] at request k
        of the incarnation that replaces the one killed by faults[i] (request 0 = handshake)."""
        self.first = (self.step + 1, faults[0][0], faults[0][1])
        self.later = [tuple(f) for f in faults[1:]]
        self.fired = []          # [(incarnation n, request index in it, phase, function name)]
        self.arm_next = False

    def disarm(self):
        left = []
        if getattr(self, 'first', None) is not None:
            left.append(self.first[1:])
        left += getattr(self, 'later', [])
        for i in self.incs:
            if i.fault is not None:
                left.append(i.fault)
                i.fault = None
        self.first = None
        self.later = []
        self.fired = []
        self.arm_next = False
        return left

    def step_begin(self):
        self.step += 1
        self.step_req = 0
        self.step_log = []

    # -- wrappers --------------------------------------------------------------------------
    def _popen(self, *args, **kwargs):
        if kwargs.get('env') is None:
            # helpers start ~10x per second: let them cache byte code, in the run's scratch
            env = dict(os.environ)
            env.pop('PYTHONDONTWRITEBYTECODE', None)
            env['PYTHONPYCACHEPREFIX'] = os.path.join(boot.scratch_root(), 'c14-pyc')
            kwargs['env'] = env
        p = self.orig_popen(*args, **kwargs)
        inc = _Inc(len(self.incs) + 1, p)
        self.incs.append(inc)
        self.by_stdin[id(p.stdin)] = inc
        self.by_stdout[id(p.stdout)] = inc
        if self.arm_next and self.later:
            inc.fault = self.later.pop(0)
        self.arm_next = False
        return p

    def _kill_known_dead(self, inc):
        os.kill(inc.pid, signal.SIGKILL)
        os.waitid(os.P_PID, inc.pid, os.WEXITED | os.WNOWAIT)    # dead, NOT reaped
        inc.killed = True

    def _due(self, inc, k_inc):
        if self.probe:
            return None
        if self.first is not None and self.first[0] == self.step \
                and self.first[1] == self.step_req:
            ph = self.first[2]
            self.first = None
            inc.fault = None
            return ph
        if inc.fault is not None and inc.fault[0] == k_inc:
            ph = inc.fault[1]
            inc.fault = None
            return ph
        return None

    def _dump(self, data, file, protocol):
        inc = self.by_stdin.get(id(file))
        if inc is None:
            raise _HarnessBug('pickle_dump on an unknown pipe')
        k_inc = inc.nreq
        phase = self._due(inc, k_inc)
        if not self.probe:
            inc.nreq += 1
            fn = data[1]
            self.step_log.append((data[0] is not None, getattr(fn, '__name__', None), data[0]))
        if inc.outstanding and _alive(inc.pid) and not self.probe:
            self.notes.append('request-while-reply-outstanding')
        if phase is not None:
            self.fired.append((inc.n, k_inc, phase, getattr(data[1], '__name__', None)))
            self.arm_next = True
        if not self.probe:
            self.step_req += 1
        if phase == 'pre':
            self._kill_known_dead(inc)
        elif phase == 'post':
            import pickle
            n = len(pickle.dumps(data, protocol))
            if n > 32768:
                raise _HarnessBug('request of %d bytes does not fit a pipe buffer' % n)
            os.kill(inc.pid, signal.SIGSTOP)
            os.waitid(os.P_PID, inc.pid, os.WSTOPPED | os.WNOWAIT)
            try:
                self.orig_dump(data, file, protocol)
            finally:
                self._kill_known_dead(inc)
            inc.outstanding = 1
            return
        elif phase in ('trunc1', 'trunchalf', 'truncm1'):
            inc.trunc = phase
        elif phase in ('raiseKI', 'raiseSE'):
            exc = KeyboardInterrupt if phase == 'raiseKI' else SystemExit
            args = (exc,) if data[0] is not None else (None, exc)
            data = (data[0], self.sp.functions._test_raise_error, args, {})
        self.orig_dump(data, file, protocol)
        inc.outstanding = 1

    def _load(self, file):
        inc = self.by_stdout.get(id(file))
        if inc is None:
            raise _HarnessBug('pickle_load on an unknown pipe')
        if not inc.outstanding and _alive(inc.pid):
            # nobody will ever write: this read would block for ever
            self.notes.append('would-hang')
            raise _WouldHang('read from a live helper that has no request to answer')
        if not inc.killed:
            r, _, _ = select.select([file.fileno()], [], [], WATCHDOG_S)
            if not r:
                raise _Watchdog('helper %d silent for %ss' % (inc.pid, WATCHDOG_S))
        if inc.trunc is not None:
            phase, inc.trunc = inc.trunc, None
            return self._load_truncated(inc, file, phase)
        try:
            res = self.orig_load(file)
        except EOFError:
            self._await_exit(inc)
            raise
        inc.outstanding = 0
        return res

    def _await_exit(self, inc):
        # EOF on stdout: the helper has closed it, i.e. it is exiting.  Wait (bounded) until it
        # is dead so that every later observation is deterministic.  Does not reap.
        import time
        for _ in range(int(WATCHDOG_S * 100)):
            st = _proc_state(inc.pid)
            if st is None or st in 'ZX':
                return
            time.sleep(0.01)
        raise _Watchdog('helper %d closed stdout but does not exit' % inc.pid)

    def _load_truncated(self, inc, file, phase):
        from jedi._compatibility import Unpickler

        class Tee:
            def __init__(self, f):
                self.f = f
                self.buf = bytearray()

            def read(self, n=-1):
                d = self.f.read(n)
                self.buf += d
                return d

            def readline(self):
                d = self.f.readline()
                self.buf += d
                return d

            def readinto(self, b):
                n = self.f.readinto(b)
                self.buf += bytes(b[:n])
                return n

        tee = Tee(file)
        Unpickler(tee).load()                 # the complete, real reply
        reply = bytes(tee.buf)
        self._kill_known_dead(inc)
        b = {'trunc1': 1, 'trunchalf': len(reply) // 2, 'truncm1': len(reply) - 1}[phase]
        rfd, wfd = os.pipe()

        def feed():                           # a reply can exceed the capacity of a pipe
            try:
                with open(wfd, 'wb') as w:
                    w.write(reply[:b])
            except OSError:
                pass

        t = threading.Thread(target=feed)
        t.start()
        self.last_trunc = (b, len(reply))
        try:
            with open(rfd, 'rb') as reader:   # same reader type as Popen's stdout
                return self.orig_load(reader)
        finally:
            t.join()

    # -- observation -----------------------------------------------------------------------
    def helper_count(self, sub):
        """len(Listener._inference_states) of a live helper, over the existing protocol."""
        self.probe = True
        try:
            return sub._send(None, eval, ('len(self._inference_states)',))
        finally:
            self.probe = False

    def live_pids(self):
        return [i.pid for i in self.incs if _alive(i.pid)]


_inj = None
_state = {}


def _injector():
    global _inj
    if _inj is None:
        boot.boot()
        _inj = Injector()
    return _inj


# ------------------------------------------------------------------------------------------
# queries

def _root():
    d = os.path.join(boot.scratch_root(), 'c14proj-%d' % os.getpid())
    os.makedirs(d, exist_ok=True)
    return d


def _new_script(env, qname):
    import jedi
    code, method = QUERIES[qname]
    _state['n'] = _state.get('n', 0) + 1
    if 'project' not in _state:
        _state['project'] = jedi.Project(_root(), smart_sys_path=False)
    path = os.path.join(_root(), 'q%d_%s.py' % (_state['n'], qname))
    return jedi.Script(code, path=path, environment=env, project=_state['project'])


def _ask(script, qname, method=None):
    code, m = QUERIES[qname]
    lines = code.split('\n')
    res = list(getattr(script, method or m)(len(lines), len(lines[-1])))
    out = []
    for r in canon.cap(res, 4, 2):
        out.append([type(r).__name__, r.name, r.type, r.module_name, r.full_name, r.description,
                    r.docstring()[:160]])
    return [len(res), out]


def _query(env, qname):
    """One query = new Script + call + touching the results.  -> ('ok', answers) |
    ('exc', exception type name, site, short traceback)"""
    import jedi
    try:
        s = _new_script(env, qname)
        ans = _ask(s, qname)
        return ('ok', ans)
    except (_WouldHang,) as e:
        return ('exc', 'WOULD-HANG', 'would-hang@pickle_load', str(e))
    except (KeyboardInterrupt, SystemExit, _Watchdog, _HarnessBug):
        raise
    except BaseException as e:
        kind = type(e).__name__
        if type(e) is jedi.InternalError:
            kind = 'InternalError'
        return ('exc', kind, canon.exc_site(e), canon.short_tb(e, 4))


# ------------------------------------------------------------------------------------------
# per-step resource oracle

class Resources:
    def __init__(self):
        gc.collect()
        gc.collect()
        self.base_fds = _fds()
        self.base_threads = len(_threads())

    def check(self, inj, where, viol, final=False):
        if final:
            # the finalizer has sent SIGKILL: death is asynchronous, give it time (bounded)
            import time
            for _ in range(1000):
                if not inj.live_pids():
                    break
                time.sleep(0.01)
        # 1. zombies among the recorded helper pids, then anything else that is reapable
        for inc in inj.incs:
            if _proc_state(inc.pid) == 'Z':
                viol.append(('zombie-helper', {'where': where, 'incarnation': inc.n}))
        try:
            pid, status = os.waitpid(-1, os.WNOHANG)
        except ChildProcessError:
            pid = 0
        if pid:
            viol.append(('unreaped-child', {'where': where, 'status': status}))
        live = inj.live_pids()
        if final and live:
            viol.append(('helper-survives-environment', {'where': where, 'n': len(live)}))
        if len(live) > 1:
            viol.append(('more-than-one-live-helper', {'where': where, 'n': len(live)}))
        # 2. file descriptors: baseline + 3 pipe ends per live helper
        fds = _fds()
        want = len(self.base_fds) + 3 * len(live)
        if len(fds) != want:
            extra = [l for l in fds if l not in self.base_fds]
            viol.append(('fd-leak' if len(fds) > want else 'fd-missing',
                         {'where': where, 'open': len(fds), 'expected': want,
                          'not_in_baseline': [e[1].split(':')[0] for e in extra][:8]}))
        # 3. stderr reader threads: one per live helper.  The reader of a dead helper ends by
        # itself at EOF; give it the time to see it (bounded), then count.
        dead_err = [i.popen.stderr for i in inj.incs if not _alive(i.pid)]
        for t in _threads():
            a = getattr(t, '_args', None)
            if a and any(a[0] is f for f in dead_err):
                t.join(10)
        th = _threads()
        if len(th) != self.base_threads + len(live):
            viol.append(('stderr-thread-left-alive' if len(th) > self.base_threads + len(live)
                         else 'stderr-thread-missing',
                         {'where': where, 'threads': len(th), 'live_helpers': len(live)}))


# ------------------------------------------------------------------------------------------
# E3: fault plans

def _seq(scn, length):
    qs = SCENARIOS[scn]
    return [qs[i % len(qs)] for i in range(length)]


def _fresh_env():
    from jedi.api.environment import SameEnvironment
    inj = _injector()
    gc.collect()
    res = Resources()
    env = SameEnvironment()
    inj.begin()
    return env, res


def _undisturbed(scn, length):
    """Run the scenario on a fresh environment without faults -> (R per step, function names per
    step, answers per step)."""
    inj = _injector()
    env, _ = _fresh_env()
    rs, logs, answers = [], [], []
    for q in _seq(scn, length):
        inj.step_begin()
        out = _query(env, q)
        gc.collect()
        if out[0] != 'ok':
            del env
            gc.collect()
            raise _LearnFailure(scn, q, out)
        rs.append(inj.step_req)
        logs.append([l[1] for l in inj.step_log])
        answers.append(out[1])
    del env
    gc.collect()
    return rs, logs, answers


def _reference(scn):
    key = 'ref:' + scn
    if key not in _state:
        if not _state.get('warm:' + scn):
            _undisturbed(scn, 3)           # first use in a process: fill jedi's own caches
            _state['warm:' + scn] = True
        a = _undisturbed(scn, LEARN_LEN)
        b = _undisturbed(scn, LEARN_LEN)
        if a != b:
            raise _HarnessBug('undisturbed run of %s is not repeatable: %r vs %r'
                              % (scn, a[0], b[0]))
        rs, logs, answers = a
        per_q = {}
        for q, ans in zip(_seq(scn, LEARN_LEN), answers):
            if per_q.setdefault(q, ans) != ans:
                raise _HarnessBug('answers of %s depend on its position' % q)
        _state[key] = {'R': rs, 'logs': logs, 'answers': per_q}
        gc.collect()
        gc.freeze()
    return _state[key]


def plan_id(scn, cold, p):
    return '%s|%s|%s|%s' % (scn, 'cold' if cold else 'warm', SCENARIOS[scn][p['q']],
                            ','.join('%s@%d' % (ph, k) for k, ph in p['faults']))


def _dedup(viol):
    seen = {}
    for site, det in viol:
        seen.setdefault(site, det)
    return [[s, d] for s, d in seen.items()]


def _exec_plan(env, res, scn, p, ref):
    """The disturbed query, one further disturbed query per additional fault (each on the helper
    incarnation that replaced the previous one), then two undisturbed queries."""
    inj = _injector()
    faults = [tuple(f) for f in p['faults']]
    names = [SCENARIOS[scn][(p['q'] + j) % 3] for j in range(len(faults) + 2)]
    viol = []
    outcomes = []
    failures = 0
    inj.arm(faults)
    for step, q in enumerate(names):
        inj.step_begin()
        nfired = len(inj.fired)
        out = _query(env, q)
        gc.collect()
        hit = inj.fired[nfired:]
        where = 'after query %d (%s)' % (step, q)
        if out[0] == 'ok':
            same = out[1] == ref['answers'][q]
            outcomes.append('ok' if same or not hit else 'ok-different')
            if not hit and not same:
                viol.append(('later-query-differs', {'where': where, 'expected': ref['answers'][q],
                                                    'observed': out[1]}))
        else:
            failures += 1
            outcomes.append(out[1])
            det = {'where': where, 'exception': out[1], 'raised_in': out[2],
                   'traceback': out[3], 'faults_fired_in_this_query': [list(h) for h in hit]}
            if out[1] == 'WOULD-HANG':
                viol.append(('would-hang@pickle_load', det))
            elif not hit:
                # no helper died during this query, yet it fails: a second failure for one crash
                viol.append(('undisturbed-query-failed:' + out[1], det))
            elif out[1] != 'InternalError':
                if out[1] == 'InvalidPythonEnvironment' and any(h[1] == 0 for h in hit):
                    viol.append(('handshake-crash-raised:InvalidPythonEnvironment', det))
                else:
                    viol.append(('disturbed-query-raised:' + out[2], det))
        for n in inj.notes:
            if n != 'would-hang':
                viol.append((n, {'where': where}))
        del inj.notes[:]
        res.check(inj, where, viol)
    fired = [list(f) for f in inj.fired]
    unfired = inj.disarm()
    if failures > len(fired):
        viol.append(('more-failures-than-crashes', {'failures': failures, 'crashes': len(fired),
                                                   'outcomes': outcomes}))
    if not fired and not viol:
        raise _HarnessBug('fault %r of plan %s never fired (request counts drifted)'
                          % (unfired, plan_id(scn, False, p)))
    return {'viol': _dedup(viol), 'fired': fired, 'outcomes': outcomes, 'steps': len(names),
            'unfired': len(unfired),
            'obs': '%s>%s' % ('+'.join('%s/%s' % (f[2], f[3]) for f in fired), ','.join(outcomes))}


def _warm_up(env, res, scn, ref, viol):
    """The three scenario queries, undisturbed; judged like every undisturbed query."""
    inj = _injector()
    for q in SCENARIOS[scn]:
        inj.step_begin()
        out = _query(env, q)
        gc.collect()
        where = 'after warm-up query %s' % q
        if out[0] != 'ok':
            viol.append(('undisturbed-query-failed:' + out[1],
                         {'where': where, 'exception': out[1], 'raised_in': out[2],
                          'traceback': out[3]}))
        elif out[1] != ref['answers'][q]:
            viol.append(('later-query-differs', {'where': where, 'expected': ref['answers'][q],
                                                'observed': out[1]}))
        res.check(inj, where, viol)


def _drop_env(holder, res, viol):
    holder.clear()
    gc.collect()
    res.check(_injector(), 'after dropping the Environment', viol, final=True)
    _injector().begin()


def _solo_plan(scn, cold, p, ref):
    """p = None: only the warm-up and the drop of the Environment."""
    env, res = _fresh_env()
    holder = [env]
    del env
    viol = []
    if not cold:
        _warm_up(holder[0], res, scn, ref, viol)
    if p is not None and not viol:
        r = _exec_plan(holder[0], res, scn, p, ref)
        viol += [tuple(v) for v in r['viol']]
    else:
        r = {'fired': [], 'outcomes': [], 'steps': 3, 'obs': 'warm-up'}
    _drop_env(holder, res, viol)
    r['viol'] = _dedup(viol)
    return r


def _run_chain(t):
    """Plans executed back to back on one Environment (cold plans: one Environment each).  A plan
    that alarms is repeated alone on a fresh Environment; the alarm is reported with the smallest
    case that shows it."""
    scn, cold = t['scn'], t.get('cold', False)
    ref = _reference(scn)
    if 'R' in t and list(t['R']) != ref['R']:
        raise _HarnessBug('request counts differ between processes: %r vs %r' % (t['R'], ref['R']))
    results = []
    holder, res = [], None
    plans = t['plans']
    if not plans:
        r = _solo_plan(scn, cold, None, ref)
        r['id'] = 'warm-up:' + scn
        r['case'] = {'kind': 'chain', 'scn': scn, 'cold': cold, 'plans': []}
        return {'plans': [r]}
    for j, p in enumerate(plans):
        if cold or len(plans) == 1:
            r = _solo_plan(scn, cold, p, ref)
            r['case'] = {'kind': 'chain', 'scn': scn, 'cold': cold, 'plans': [p]}
        else:
            if not holder:
                env, res = _fresh_env()
                holder.append(env)
                del env
                viol = []
                _warm_up(holder[0], res, scn, ref, viol)
                if viol:
                    _drop_env(holder, res, viol)
                    results.append({'id': 'warm-up:' + scn, 'viol': _dedup(viol), 'fired': [],
                                    'outcomes': [], 'steps': 3, 'obs': 'warm-up',
                                    'case': {'kind': 'chain', 'scn': scn, 'cold': cold,
                                             'plans': []}})
                    break
            r = _exec_plan(holder[0], res, scn, p, ref)
            if r['viol']:
                viol = [tuple(v) for v in r['viol']]
                _drop_env(holder, res, viol)
                r2 = _solo_plan(scn, cold, p, ref)
                if r2['viol']:
                    r = r2
                    r['case'] = {'kind': 'chain', 'scn': scn, 'cold': cold, 'plans': [p]}
                else:
                    r['viol'] = _dedup(viol)
                    r['case'] = {'kind': 'chain', 'scn': scn, 'cold': cold, 'plans': plans[:j + 1]}
        r['id'] = plan_id(scn, cold, p)
        results.append(r)
    if holder:
        viol = []
        _drop_env(holder, res, viol)
        if viol:
            results.append({'id': 'chain-end:' + plan_id(scn, cold, plans[-1]),
                            'viol': _dedup(viol), 'fired': [], 'outcomes': [], 'steps': 0,
                            'obs': 'chain-end',
                            'case': {'kind': 'chain', 'scn': scn, 'cold': cold, 'plans': plans}})
    return {'plans': results}


# ------------------------------------------------------------------------------------------
# E2: histories with the reference model (release clause)

class Model:
    """What the helper must hold, from the events alone (plus two observed facts per event:
    which discarded Scripts have been finalised, and whether a query attempted a request)."""

    def __init__(self):
        self.incs = []       # dict(states=set(), pending=[], dead=False, noticed=False)
        self.cur = None

    def attach(self):
        """A new Script asks the environment for its helper."""
        if self.cur is None or self.incs[self.cur]['noticed']:
            self.incs.append({'states': set(), 'pending': [], 'dead': False, 'noticed': False})
            self.cur = len(self.incs) - 1
        return self.cur

    def request(self, inc, sid):
        """Script `sid` (bound to incarnation inc) sends a request -> expected outcome.  The
        helper holds a state for the id as soon as a request for it has reached a live helper,
        whether the function then returns or raises."""
        i = self.incs[inc]
        if i['noticed']:
            return 'InternalError'
        if i['dead']:
            i['noticed'] = True
            return 'InternalError'
        while i['pending']:
            i['states'].discard(i['pending'].pop())
        i['states'].add(sid)
        return 'ok'

    def finalized(self, inc, sid, used):
        i = self.incs[inc]
        if used and not i['noticed']:
            i['pending'].append(sid)

    def crash(self):
        if self.cur is not None:
            self.incs[self.cur]['dead'] = True

    def unnoticed(self):
        return any(i['dead'] and not i['noticed'] for i in self.incs)

    def expected_count(self):
        if self.cur is None or self.incs[self.cur]['dead']:
            return None
        return len(self.incs[self.cur]['states'])


HQ = 'cos'          # C: infer on a compiled function (6 requests)
HQ2 = 'help'        # Qi: another method on the same Script


class _HistRunner:
    def __init__(self):
        self.env, self.res = _fresh_env()
        self.model = Model()
        self.live = {}       # slot -> dict(script, sid, inc, used)
        self.dropped = []    # dict(ref, sid, inc, used)
        self.ncmp = 0

    def event(self, ev, where, viol):
        inj = _injector()
        model, live = self.model, self.live
        inj.step_begin()
        ref = _reference('s0')['answers'][HQ]
        expect = out = None
        if ev == 'C':
            slot = min(s for s in range(3) if s not in live)
            inc = model.attach()
            try:
                s = _new_script(self.env, HQ)
            except Exception as e:
                raise _HarnessBug('Script() failed in a history: %r' % (e,))
            isp = s._inference_state.compiled_subprocess
            rec = live[slot] = {'script': s, 'sid': isp._inference_state_id, 'inc': inc,
                                'used': True}
            expect = model.request(inc, rec['sid'])
            out = _query_live(s, HQ, None)
            del s, isp
            if out[0] == 'ok' and out[1] != ref:
                viol.append(('history-query-differs', {'where': where}))
        elif ev == 'R' or ev[0] == 'E':
            # a request that makes the helper-side function raise (the helper survives):
            # R = as the FIRST request of a new Script, Ei = as a later request of Script i
            if ev == 'R':
                slot = min(s for s in range(3) if s not in live)
                inc = model.attach()
                try:
                    s = _new_script(self.env, HQ)
                except Exception as e:
                    raise _HarnessBug('Script() failed in a history: %r' % (e,))
                isp = s._inference_state.compiled_subprocess
                rec = live[slot] = {'script': s, 'sid': isp._inference_state_id, 'inc': inc,
                                    'used': True}
                del s, isp
            else:
                rec = live[int(ev[1])]
            expect = model.request(rec['inc'], rec['sid'])
            if expect == 'ok':
                expect = 'KeyError'
            out = _raise_live(rec['script'])
        elif ev[0] == 'Q':
            rec = live[int(ev[1])]
            out = _query_live(rec['script'], HQ, HQ2)
            attempted = any(l[0] for l in inj.step_log) or out[0] != 'ok'
            expect = 'ok'
            if attempted:
                expect = model.request(rec['inc'], rec['sid'])
            if out[0] == 'ok' and not model.incs[rec['inc']]['dead'] \
                    and _state.setdefault('hq2', out[1]) != out[1]:
                viol.append(('history-query-differs', {'where': where}))
        elif ev[0] == 'D':
            rec = live.pop(int(ev[1]))
            isp = rec['script']._inference_state.compiled_subprocess
            self.dropped.append({'ref': weakref.ref(isp), 'sid': rec['sid'], 'inc': rec['inc'],
                                 'used': rec['used']})
            del isp
            rec.clear()
        elif ev == 'G':
            gc.collect()
        elif ev == 'X':
            for i in inj.incs:
                if _alive(i.pid):
                    inj._kill_known_dead(i)
            model.crash()
        rec = None
        # observed finalisations drive the model's pending list
        for dr in list(self.dropped):
            if dr['ref']() is None:
                model.finalized(dr['inc'], dr['sid'], dr['used'])
                self.dropped.remove(dr)
            elif ev == 'G':
                viol.append(('discarded-script-survives-gc', {'where': where}))
        if out is not None:
            got = 'ok' if out[0] == 'ok' else out[1]
            if got != expect:
                viol.append(('history-outcome:%s-expected-%s' % (got, expect),
                             {'where': where, 'detail': list(out[1:]) if out[0] != 'ok' else None}))
        # read the helper-side count back
        want = model.expected_count()
        sub = self.env._subprocess
        observed = None
        if want is not None and sub is not None and not sub.is_crashed and inj.live_pids():
            observed = inj.helper_count(sub)
            self.ncmp += 1
            pend = list(getattr(sub, '_inference_state_deletion_queue', []))
            mp = model.incs[model.cur]['pending']
            if observed != want:
                viol.append(('helper-state-count', {'where': where, 'model': want,
                                                    'helper': observed,
                                                    'live_scripts': len(live)}))
            elif sorted(pend) != sorted(mp):
                viol.append(('deletion-queue', {'where': where, 'queue_len': len(pend),
                                                'model_len': len(mp)}))
        elif want is not None and not inj.live_pids():
            viol.append(('helper-died-on-its-own', {'where': where}))
        sub = None
        for nn in inj.notes:
            viol.append((nn, {'where': where}))
        del inj.notes[:]
        if not model.unnoticed():
            # (a helper killed by X stays a zombie until jedi notices at its next request)
            self.res.check(inj, where, viol)
        return observed

    def history(self, events):
        viol = []
        trace = []
        txt = ' '.join(events)
        for n, ev in enumerate(events):
            trace.append(self.event(ev, 'after event %d (%s) of %s' % (n, ev, txt), viol))
        # back to a quiescent state: no live Script, everything collected, and a healthy
        # helper (a throw-away Script notices a crash nobody has noticed yet, the next one gets
        # the replacement); these clean-up events are judged like all others
        cw = 'clean-up after %s' % txt
        for slot in sorted(self.live):
            self.event('D%d' % slot, cw, viol)
        self.event('G', cw, viol)
        for _ in range(3):
            m = self.model
            if m.cur is not None and not m.incs[m.cur]['dead']:
                break
            self.event('C', cw, viol)
            self.event('D0', cw, viol)
            self.event('G', cw, viol)
        return {'id': 'hist:' + ''.join(events), 'viol': _dedup(viol), 'steps': len(events),
                'obs': ','.join('-' if t is None else str(t) for t in trace)}

    def close(self, viol):
        self.live.clear()
        del self.dropped[:]
        self.env = None
        gc.collect()
        self.res.check(_injector(), 'after dropping the Environment', viol, final=True)
        _injector().begin()


def _solo_history(events):
    hr = _HistRunner()
    r = hr.history(events)
    viol = [tuple(v) for v in r['viol']]
    hr.close(viol)
    r['viol'] = _dedup(viol)
    r['compared'] = hr.ncmp
    return r


def _run_hchain(t):
    """Histories executed back to back on one Environment with one continuous model: the first
    starts from a fresh Environment, the others from the quiescent state the previous one left
    (no live Script).  An alarming history is repeated alone from a fresh Environment."""
    hists = t['hists']
    results = []
    hr = None
    ncmp = 0
    for j, events in enumerate(hists):
        if len(hists) == 1:
            r = _solo_history(events)
            ncmp += r['compared']
            r['case'] = {'kind': 'hchain', 'hists': [events]}
        else:
            if hr is None:
                hr = _HistRunner()
            r = hr.history(events)
            if r['viol']:
                viol = [tuple(v) for v in r['viol']]
                ncmp += hr.ncmp
                hr.close(viol)
                hr = None
                r2 = _solo_history(events)
                ncmp += r2['compared']
                if r2['viol']:
                    r = r2
                    r['case'] = {'kind': 'hchain', 'hists': [events]}
                else:
                    r['viol'] = _dedup(viol)
                    r['case'] = {'kind': 'hchain', 'hists': hists[:j + 1]}
        results.append(r)
    if hr is not None:
        viol = []
        ncmp += hr.ncmp
        hr.close(viol)
        if viol:
            results.append({'id': 'hchain-end:' + ''.join(hists[-1]), 'viol': _dedup(viol),
                            'steps': 0, 'obs': 'chain-end',
                            'case': {'kind': 'hchain', 'hists': hists}})
    return {'hists': results, 'compared': ncmp}


def _raise_live(script):
    """One request whose function raises inside the helper (existing test hook)."""
    return _query_live(script, None, None)


def _query_live(script, qname, method):
    import jedi
    try:
        if qname is None:
            script._inference_state.compiled_subprocess._test_raise_error(KeyError)
            return ('ok', None)
        return ('ok', _ask(script, qname, method))
    except _WouldHang as e:
        return ('exc', 'WOULD-HANG', 'would-hang@pickle_load', str(e))
    except (KeyboardInterrupt, SystemExit, _Watchdog, _HarnessBug):
        raise
    except BaseException as e:
        kind = 'InternalError' if type(e) is jedi.InternalError else type(e).__name__
        return ('exc', kind, canon.exc_site(e), canon.short_tb(e, 4))


def _run_linear(t):
    """n create/drop pairs on one environment: the helper never holds more than live+1 states."""
    inj = _injector()
    viol = []
    env, res = _fresh_env()
    keep = t.get('keep', 0)
    held = []
    worst = 0
    ncmp = 0
    for n in range(t['n']):
        inj.step_begin()
        s = _new_script(env, HQ)
        if t.get('raise'):
            # the only request of this Script raises helper-side; the helper survives
            out = _raise_live(s)
            if out[0] == 'ok' or out[1] != 'KeyError':
                viol.append(('history-outcome:%s-expected-KeyError'
                             % ('ok' if out[0] == 'ok' else out[1]), {'pair': n}))
                break
            out = ('ok',)
        else:
            out = _query_live(s, HQ, None)
        if out[0] != 'ok':
            viol.append(('history-outcome:%s-expected-ok' % out[1],
                         {'pair': n, 'detail': list(out[1:])}))
            break
        held.append(s)
        del s
        for when in ('created', 'dropped'):
            if when == 'dropped':
                while len(held) > keep:
                    held.pop(0)
                gc.collect()
            c = inj.helper_count(env._subprocess)
            ncmp += 1
            worst = max(worst, c - len(held))
            if c > len(held) + 1:
                viol.append(('helper-state-count-linear', {'pair': n, 'when': when, 'helper': c,
                                                           'live': len(held)}))
        if viol:
            break
    del held[:]
    del env
    gc.collect()
    res.check(inj, 'end of linear history', viol, final=True)
    inj.begin()
    return {'id': 'linear:%d:keep%d%s' % (t['n'], keep, ':raise' if t.get('raise') else ''),
            'viol': _dedup(viol),
            'steps': 2 * t['n'], 'compared': ncmp, 'obs': 'max(count-live)=%d' % worst}


# ------------------------------------------------------------------------------------------
# worker entry points

def _init():
    gc.disable()
    boot.boot()
    from jedi import settings
    cd = os.path.join(boot.scratch_root(), 'cache-c14-%d' % os.getpid())
    os.makedirs(cd, exist_ok=True)
    settings.cache_directory = cd
    _state.pop('project', None)
    _injector()
    # scenarios are learnt on demand (_reference): forked workers inherit what the parent
    # learnt — every chain re-validates it (warm-up answers, and every armed fault must fire);
    # a replay process learns only the scenario of its case
    gc.collect()
    gc.freeze()       # the warm heap (typeshed trees) is not garbage: keep gc.collect() cheap


TASK_WATCHDOG_S = 1800


def _alarm(signum, frame):
    raise _Watchdog('task did not finish within %d s' % TASK_WATCHDOG_S)


def _work(task):
    # whole-task watchdog: a harness that blocks (it never should) becomes a harness error
    signal.signal(signal.SIGALRM, _alarm)
    signal.alarm(TASK_WATCHDOG_S)
    try:
        kind = task['kind']
        if kind == 'chain':
            return _run_chain(task)
        if kind == 'hchain':
            return _run_hchain(task)
        if kind == 'linear':
            return _run_linear(task)
        raise _HarnessBug('unknown task kind %r' % kind)
    except _LearnFailure as e:
        return {'plans': [e.item()]}
    finally:
        signal.alarm(0)


# ------------------------------------------------------------------------------------------
# enumeration

def _histories(depth, alpha='CQDGX', need_raise=False, maxlive=3):
    """All event sequences of exactly `depth` events over the alphabet (every shorter sequence
    is a prefix of one of them and is judged after each event).  X is enabled only where a helper
    is alive in a run from a fresh Environment (abstract helper state none/alive/
    dead-unnoticed): killing nothing is a no-op.  need_raise: only sequences with an R/E event."""
    out = []

    def rec(live, helper, seq):
        if len(seq) == depth:
            if not need_raise or any(e[0] in 'RE' for e in seq):
                out.append(list(seq))
            return
        evs = []
        if len(live) < maxlive:
            evs += [e for e in 'CR' if e in alpha]
        for kind in 'QED':
            if kind in alpha:
                evs += ['%s%d' % (kind, s) for s in sorted(live)]
        evs.append('G')
        if helper == 'alive' and 'X' in alpha:
            evs.append('X')
        for ev in evs:
            nl, nh = set(live), helper
            if ev in ('C', 'R'):
                nl.add(min(s for s in range(3) if s not in live))
                nh = 'none' if helper == 'dead' else 'alive'
            elif ev[0] == 'D':
                nl.discard(int(ev[1]))
            elif ev[0] in 'QE' and helper == 'dead':
                nh = 'none'
            elif ev == 'X':
                nh = 'dead'
            rec(nl, nh, seq + [ev])
    rec(set(), 'none', [])
    return out


CHAIN = 12


def _chunks(lst, n):
    return [lst[i:i + n] for i in range(0, len(lst), n)]


def _levels(tier, refs):
    """-> [(level name, [task])] simplest first.  Warm request counts: R[3 + q]; cold: R[0]."""
    levels = []

    def warm1(scn, qs):
        R = refs[scn]['R']
        return [{'q': q, 'faults': [[k, ph]]} for q in qs for k in range(R[3 + q]) for ph in PHASES]

    def cold1(scn, ks=None):
        R = refs[scn]['R']
        return [{'q': 0, 'faults': [[k, ph]]} for k in (range(R[0]) if ks is None else ks)
                for ph in PHASES]

    def warm2(scn, qs):
        # second fault: every request of the incarnation started by the following query
        # (handshake + its requests without the deletion of the predecessor = R of that query)
        R = refs[scn]['R']
        return [{'q': q, 'faults': [[k, ph], [k2, ph2]]}
                for q in qs for k in range(R[3 + q]) for ph in PHASES
                for k2 in range(R[3 + (q + 1) % 3]) for ph2 in PHASES]

    def diag3(scn, qs):
        # the same phase on three consecutive incarnations, at "the same" request: request k of
        # a warm query (0 = deletion of the predecessor) is request k of a fresh incarnation
        # (0 = handshake)
        R = refs[scn]['R']
        return [{'q': q, 'faults': [[k, ph], [min(k, R[3 + (q + 1) % 3] - 1), ph],
                                    [min(k, R[3 + (q + 2) % 3] - 1), ph]]}
                for q in qs for k in range(R[3 + q]) for ph in PHASES]

    def chains(scn, plans, cold=False):
        return [{'kind': 'chain', 'scn': scn, 'cold': cold, 'plans': c, 'R': refs[scn]['R']}
                for c in _chunks(plans, 4 if cold else CHAIN)]

    if tier == 'quick':
        levels.append(('1 crash, warm: s0 all 3 queries (every k x phase)',
                       chains('s0', warm1('s0', [0, 1, 2]))))
        levels.append(('1 crash, cold start: s0 handshake, get_sys_path, first query request',
                       chains('s0', cold1('s0', [0, 1, 2]), True)))
        R0 = refs['s0']['R'][3]
        levels.append(('3 consecutive crashes (diagonal): s0 cos, k in {0, 1, last}',
                       chains('s0', [p for p in diag3('s0', [0])
                                     if p['faults'][0][0] in (0, 1, R0 - 1)])))
    else:
        levels.append(('1 crash, warm: s0,s1,s2 all queries',
                       chains('s0', warm1('s0', [0, 1, 2])) + chains('s1', warm1('s1', [0, 1, 2]))
                       + chains('s2', warm1('s2', [0, 1, 2]))))
        levels.append(('1 crash, cold start: s0,s1,s2 all k',
                       chains('s0', cold1('s0'), True) + chains('s1', cold1('s1'), True)
                       + chains('s2', cold1('s2'), True)))
        levels.append(('2 crashes: s0 cos->opi (all k1 x phase1 x k2 x phase2)',
                       chains('s0', warm2('s0', [0]))))
        levels.append(('3 consecutive crashes (diagonal): s0, s1 all queries',
                       chains('s0', diag3('s0', [0, 1, 2])) + chains('s1', diag3('s1', [0, 1, 2]))))
    def hlevel(name, hs):
        levels.append(('%s: %d sequences, all their prefixes' % (name, len(hs)),
                       [{'kind': 'hchain', 'hists': c} for c in _chunks(hs, 2 * CHAIN)]))

    if tier == 'quick':
        hlevel('histories depth 5 over C,Q,D,G,X', _histories(5))
        hlevel('histories depth 5 over C,R,E,D,G with a raising request, <=2 live Scripts',
               _histories(5, 'CREDG', True, 2))
        hlevel('histories depth 4 over R,E,D,G,X with a raising request',
               _histories(4, 'REDGX', True))
    else:
        hlevel('histories depth 6 over C,Q,D,G,X', _histories(6))
        hlevel('histories depth 5 over C,R,Q,E,D,G,X with a raising request',
               _histories(5, 'CRQEDGX', True))
    levels.append(('linear create/drop x200, create-raise-drop x50',
                   [{'kind': 'linear', 'n': 200, 'keep': 0},
                    {'kind': 'linear', 'n': 200, 'keep': 2},
                    {'kind': 'linear', 'n': 50, 'keep': 0, 'raise': True},
                    {'kind': 'linear', 'n': 50, 'keep': 1, 'raise': True}]))
    return levels


def run(ctx):
    gc.disable()
    boot.boot()
    # learn R and the undisturbed answers in the parent; the forked workers inherit exactly
    # this warm state and must reproduce it
    _state.clear()
    _injector()
    scns = ['s0'] if ctx.tier == 'quick' else sorted(SCENARIOS)
    try:
        refs = {scn: _reference(scn) for scn in scns}
    except _LearnFailure as e:
        it = e.item()
        for site, det in it['viol']:
            ctx.violation(site, it['id'], det, {'task': it['case']})
        ctx.coverage.update({'states': 1, 'transitions': 1, 'evaluations': 1,
                             'distinct_nontrivial': 0, 'exhaustive': False,
                             'rule': 'the undisturbed learning run already failed',
                             'samples': [{'id': it['id'], 'observation': it['obs']}]})
        return
    gc.collect()
    gc.freeze()
    if _threads():
        ctx.harness_error('threads left in the parent before forking: %r' % _threads())
    levels = _levels(ctx.tier, refs)
    # levels are interleaved proportionally (each stays in its own simplest-first order), so
    # that a time cap cuts every level at the same fraction instead of dropping the last ones
    tasks = sorted(((j + 0.5) / len(ts), li, name, t) for li, (name, ts) in enumerate(levels)
                   for j, t in enumerate(ts))
    tasks = [(name, t) for _, _, name, t in tasks]
    pres = pool.run([t for _, t in tasks], 'jv.props.c14:_work', init='jv.props.c14:_init',
                    seed=ctx.seed, deadline=ctx.deadline, tag='c14')
    ctx.absorb(pres, 'c14')
    states = transitions = 0
    compared = unfired = 0
    obs = set()
    phase_hits, event_hits, outcome_hist, fn_hits = {}, {}, {}, {}
    per_level = {}
    samples = []
    for i, (name, t) in enumerate(tasks):
        lv = per_level.setdefault(name, {'units': 0, 'done': 0})
        units = len(t.get('plans') or t.get('hists') or [0])
        lv['units'] += units
        if i in pres.crashed:
            ctx.violation('WorkerDied(exit=%s)' % pres.crashed[i], 'task:%d' % i, {'task': t},
                          {'task': t})
            continue
        r = pres.results.get(i)
        if r is None:
            continue
        lv['done'] += units
        compared += r.get('compared', 0)
        items = r.get('plans') or r.get('hists') or [r]
        for it in items:
            if it['steps']:
                states += 1
            transitions += it['steps']
            if t['kind'] == 'chain':
                obs.add(re.sub(r'@\d+', '', it['obs']))
                for f in it['fired']:
                    phase_hits[f[2]] = phase_hits.get(f[2], 0) + 1
                    fn_hits[str(f[3])] = fn_hits.get(str(f[3]), 0) + 1
                for o in it['outcomes']:
                    outcome_hist[o] = outcome_hist.get(o, 0) + 1
                unfired += it.get('unfired', 0)
            else:
                obs.add(it['obs'])
            if len(samples) < 8 and (states % 97 == 1):
                samples.append({'id': it['id'], 'observation': it['obs']})
            for site, det in it['viol']:
                ctx.violation(site, it['id'], det, {'task': it.get('case', t)})
        if t['kind'] == 'hchain':
            for h in t['hists']:
                for ev in h:
                    event_hits[ev[0]] = event_hits.get(ev[0], 0) + 1
    done_levels = []
    exhaustive = not pres.skipped and not pres.fatal and not pres.harness_errors
    for name, lv in per_level.items():
        if lv['done'] == lv['units']:
            done_levels.append('%s: %d' % (name, lv['units']))
        else:
            exhaustive = False
            ctx.note('level "%s": %d of %d not explored (time cap)'
                     % (name, lv['units'] - lv['done'], lv['units']))
    for ph in PHASES:
        if not phase_hits.get(ph):
            ctx.note('vacuity: phase %s never fired' % ph)
    ctx.coverage.update({
        'states': states, 'transitions': transitions, 'evaluations': transitions,
        'traces_validated_against_impl': transitions,
        'model_vs_helper_comparisons': compared,
        'distinct_nontrivial': len(obs),
        'rule': 'state = one fault plan or one event history (linear histories count as one); '
                'transition = one query (new Script + call + result attributes) or one history '
                'event, each followed by the zombie/fd/thread oracle; distinct_nontrivial = '
                'distinct (fired phases with the helper function they hit, per-query outcomes) '
                'vectors for plans plus distinct helper-count traces for histories',
        'levels_completed': done_levels, 'exhaustive': exhaustive,
        'requests_per_query_undisturbed(cold q0, q1, q2, warm q0, q1, q2)':
            {s: refs[s]['R'] for s in sorted(refs)},
        'phase_hits': phase_hits, 'helper_function_hits': fn_hits, 'event_hits': event_hits,
        'later_faults_not_fired': unfired,
        'query_outcomes': outcome_hist, 'samples': samples,
        'alphabet': {'phases': PHASES,
                     'events': ['C', 'R', 'Q0-2', 'E0-2', 'D0-2', 'G', 'X'],
                     'scenarios': SCENARIOS},
    })
    ctx.assumptions += [
        'configuration `stubs`; private SameEnvironment objects only; automatic gc is disabled '
        'and gc.collect() runs after every query so that the number of requests per query (R) '
        'is a function of the history alone (checked: the first fault of every plan must fire, '
        'later faults that find no request to hit are counted in later_faults_not_fired)',
        'warm plans run back to back (%d per Environment, after the three scenario queries ran '
        'undisturbed), cold plans and every alarming plan on an Environment of their own; '
        'histories likewise (%d per Environment, one continuous reference model; each starts '
        'from a state without live Scripts)' % (CHAIN, 2 * CHAIN),
        'the injector replaces pickle_dump / pickle_load / _GeneralizedPopen in the namespace of '
        'jedi.inference.compiled.subprocess (parent side only); helpers are real processes, '
        'killed by pid with SIGKILL and left un-reaped (waitid WNOWAIT) for jedi to reap',
        'phase post = SIGSTOP, write request, SIGKILL (the helper answers nothing); truncated '
        'replies are delivered through a real pipe as the first b bytes + EOF, b in {1, len//2, '
        'len-1}; "helper raises" = the request function is replaced by functions.'
        '_test_raise_error(KeyboardInterrupt | SystemExit), i.e. exceptions that end the helper; '
        'an ordinary Exception raised by a helper function does not end the helper: no fault '
        'phase, but a release-clause event (R/E: functions._test_raise_error(KeyError), expected '
        'to surface as KeyError; the helper holds the state of that Script from then on)',
        'no-hang is decided structurally: every pickle_load happens with one unanswered request '
        'outstanding on that incarnation or with the peer dead; the %ds select() watchdog only '
        'yields a harness error' % int(WATCHDOG_S),
        'Scripts created before a crash stay bound to the dead helper (sticky is_crashed): the '
        'property promises recovery to *later* Scripts only; in histories a query on such a '
        'Script is expected to raise InternalError',
        'get_signatures is not used: its results are kept by a 3 s wall-clock cache '
        '(jedi.cache.signature_time_cache) which pins the inference state of a dropped Script',
        'the history model reads two facts it cannot derive from events: which discarded Scripts '
        'have been finalised (weakref) and whether a repeated query attempted a helper request',
    ]


def replay(case):
    _init()
    r = _work(case['task'])
    out = []
    for it in r.get('plans') or r.get('hists') or [r]:
        for site, det in it['viol']:
            out.append((site, it['id'], det))
    return out
