"""C09 — changes to project files on disk are always seen.

Engine E2 (histories, DESIGN §2.2/§4 C09).  A generated project

    main.py (the buffer)   import m / import n / import pkg / from pkg import sub /
                           from pkg.sub import name / from star import *
    m.py                   version A | B (same size as A) | C (different size)
    star.py                from m import *          (star import chain into m)
    pkg/__init__.py        from . import sub as relsub; from .sub import name as rel  (relative)
    pkg/sub.py             from m import shared as name   (version A | B, same size)
    lib/conf.py            `import conf` resolves here: root/lib is a later search-path entry
                           (Project(root, added_sys_path=[root/lib])); `shadow+` creates a different
                           conf.py in the root (earlier entry), `shadow-` removes it again;
                           `m2p_keep`/`p2m_keep` put a package next to the module m.py / a module
                           file next to the package and leave the other in place (the *winner*
                           of the lookup changes, or must not change, while the old file stays)

    shp/ + shp-stubs/      an untyped package with a sub-package `units` and its PEP 561 stub-only
                           tree; `shp-stubs/units/` exists at first without `__init__.pyi`;
                           `+stubs_init`/`-stubs_init` add/remove that file, `+stubs_mod`/
                           `-stubs_mod` add/remove `shp-stubs/units/extra.pyi`
    pkg/alpha.py, beta.py  sub-modules of the regular package pkg that pkg/__init__.py never mentions;
                           `-alpha`/`+alpha`/`+beta`/`-beta` remove/add them with __init__.py
                           untouched; observed through the package's folder listing (`from pkg
                           import ` and `pkg.` completion, `pkg.beta.fb`, goto on `alpha`)
    app/pkg1/mod.py        a second buffer next to app/pkg1/sibling.py, analysed WITHOUT project=
                           (jedi.api.project.get_default_project decides the root: no project
                           marker exists above it); `+selfinit`/`-selfinit` add/remove
                           app/pkg1/__init__.py, which moves that root
    m.py also defines `func(...)` and `K.__init__(...)` with a different parameter list in every
    version; `get_signatures` is asked inside `m.func()`, `func()`, `K()`, `m.K()`,
    `sub.subfunc()`, `pkg.relsub.subfunc()`.

is driven through every history of file-system events of bounded depth.  After *every* event a
new `Script` is built (same process — unless the event was `restart`, which continues in a new
process with the same `settings.cache_directory`) and complete/infer/goto are asked through each
import form.  Every observation is compared with the observation of a **fresh interpreter with
an empty cache directory** analysing a copy of the same files (memoised on the file-system
snapshot).

Ownership of nondeterminism (DESIGN §2.3): the explorer owns the file clock.  After every
write/delete/rename the touched files *and their directories* are stamped with `os.utime` from a
virtual clock (`advance` = +1 s per event, the default; deviations: `~s` same tick, `~o` the
file carries an old mtime while the directory advances).  Pickles written by a step are stamped
with the step's virtual time.  The wall clock of jedi's time-limited caches (`jedi.cache.time`,
e.g. the 3 s call-signature cache) is owned as well: 0 s pass between two Scripts by default
(adversarial), the answer `~w` lets 4 s pass before the next Script.  Every history lives in its own directory (project and cache directory nothing has seen before).
Histories run inside a long-lived worker with the worker's long-lived helper subprocess (cheap;
what an editor session analysing many projects does); the process after a `restart` is a child
forked from the worker *before* the history began, with a helper subprocess of its own.
A difference without a clock explanation is judged again from the pristine parent process
(forked segments, new helpers - exactly what replay() does) before it is reported, so that a
reported history is replayable alone; one that needs the worker's earlier histories is reported
as `after-other-histories:<site>` together with them.

Classification of a difference at the last step of a history (DESIGN §2.7):
  stale@mtime-not-advanced      some file's content differs from what it was at an earlier parse
                                and its mtime is not newer than that parse (parso validates by
                                mtime only) — only possible with a clock deviation
  stale@dir-mtime-not-advanced  only a directory listing is in that situation (importlib's
                                FileFinder in the helper validates listings by directory mtime)
  stale@<import form>           everything else, in particular *every* difference on a history
                                without clock deviation
  <ExcType>@<jedi function>     a query raised where the fresh process answered

Levels (simplest first; a level's maximal histories have exactly the stated depth, every shorter
history is one of their prefixes and is judged on the way):
  quick     full alphabet (30 events) depth<=1 with <=1 deviation (file clock ~s/~o on the 15
            writing events of the original alphabet, wall clock ~w on every event); depth<=2
            with <=1 file-clock deviation; restart-free 6-event core depth<=3 without deviation
  thorough  + depth<=2 with the wall-clock answer; 8-event core depth<=3, full alphabet
            depth<=3, core depth<=4 and <=5 without deviation
Histories with a clock deviation exist to show that the two clock explanations are the *only*
staleness there is; their failing members are enumerated explicitly in known_findings.json.
As soon as a level ends with a difference that has no clock explanation, deeper levels are not
explored (the shortest counterexamples are the report).

Development aids (never set by bin/check): JV_C09_DEV_ORACLE_CACHE=<file> keeps the oracle table
of one jedi tree between runs; JV_C09_DEV_MAX_LEVEL=<n> stops after the first n levels.
"""
import hashlib
import json
import os
import shutil
import subprocess
import sys
import time
import traceback

from .. import boot, canon, pool

ID = 'C09'
BUDGET = {'quick': 1800, 'thorough': 3600}

T0 = 2000000000          # virtual file clock origin (in the future: parso never expires it)
OLD = T0 - 1000          # mtime of a file "moved into place" (~o)

# ------------------------------------------------------------------------------------------
# generated project
# ------------------------------------------------------------------------------------------
M_VER = {
    'A': "def zfa(x):\n    return 10\nshared = 10\nclass K:\n    ka = 1\n"
         "    def __init__(self, p): pass\ndef func(a, b): pass\n",
    'B': "def zfb(x):\n    return ''\nshared = ''\nclass K:\n    kb = 2\n"
         "    def __init__(self, q): pass\ndef func(c, d): pass\n",
    'C': "# version C\nimport os\ndef zfc(x, y):\n    return [x]\nshared = [1]\nclass K:\n"
         "    kc = 3.0\n    def __init__(self, p, r=1): pass\nextra = K(0)\n"
         "def func(a, *, key=None): pass\n",
}
assert len(M_VER['A']) == len(M_VER['B']) != len(M_VER['C'])
SUB_VER = {
    'A': "from m import shared as name\nimport m\ndef subfn():\n    return m.shared\nsub_v = 10\n"
         "from m import func as subfunc\n",
    'B': "from m import shared as name\nimport m\ndef subfm():\n    return m.shared\nsub_v = ''\n"
         "from m import func as subfunc\n",
}
assert len(SUB_VER['A']) == len(SUB_VER['B'])
STUB = "shared: bytes\ndef fstub(x: int) -> bytes: ...\nclass K:\n    ks: bytes\n"
INIT = "from . import sub as relsub\nfrom .sub import name as rel\n"
STAR = "from m import *\ns_own = 1.0\n"
CONF_LIB = "cv = 10\ndef in_lib(): pass\n"          # lib/ is a later search-path entry
CONF_ROOT = "cv = ''\ndef in_root(): pass\n"        # shadows it from the project root
# an untyped runtime package and its PEP 561 stub-only tree next to it; the stub folder of the
# sub-package exists, at first without __init__.pyi
SHP = {
    'shp/__init__.py': "",
    'shp/units/__init__.py': "def unit(s):\n    return lookup(s)\n",
    'shp/units/extra.py': "def label(s):\n    return fmt(s)\n",
    'shp/units/tables.py': "SI = load()\n",
    'shp-stubs/__init__.pyi': "",
    'shp-stubs/units/tables.pyi': "SI: dict\n",
}
# sub-modules of the regular package pkg that its __init__.py never mentions: alpha exists from
# the start, beta does not; `-alpha`/`+alpha`/`+beta`/`-beta` remove/add them, __init__.py untouched
ALPHA = ('pkg/alpha.py', "fa = 10\n")
BETA = ('pkg/beta.py', "fb = ''\n")
# a second edited file, analysed WITHOUT project=: app/pkg1/mod.py next to app/pkg1/sibling.py; no
# project marker anywhere above it, so get_default_project() takes the first folder upwards
# without __init__.py; `+selfinit`/`-selfinit` add/remove app/pkg1/__init__.py
SIBLING = ('app/pkg1/sibling.py', "def f():\n    return 1.0\n")
SELFINIT = ('app/pkg1/__init__.py', "")
MOD = (
    "import pkg1.sibling\n"        # 1
    "from . import sibling\n"      # 2
    "pkg1.sibling.f\n"             # 3
    "sibling.f\n"                  # 4
    "from pkg1 import \n"          # 5
)
PROBES_MOD = [
    ('default-project', 'goto', 1, 13), ('default-project', 'infer', 3, 14),
    ('default-project', 'gotof', 3, 14), ('default-project', 'goto', 2, 16),
    ('default-project', 'infer', 4, 9), ('default-project', 'gotof', 4, 9),
    ('default-project', 'complete', 5, 17),
]
STUBS_INIT = ('shp-stubs/units/__init__.pyi', "def unit(s: object) -> bytes: ...\n")
STUBS_MOD = ('shp-stubs/units/extra.pyi', "def label(s: object) -> str: ...\n")

MAIN = (
    "import m\n"                    # 1
    "import n\n"                    # 2
    "import pkg\n"                  # 3
    "from pkg import sub\n"         # 4
    "from pkg.sub import name\n"    # 5
    "from star import *\n"          # 6
    "m.shared\n"                    # 7
    "m.K\n"                         # 8
    "n.shared\n"                    # 9
    "sub.sub_v\n"                   # 10
    "sub.name\n"                    # 11
    "name\n"                        # 12
    "shared\n"                      # 13
    "s_own\n"                       # 14
    "pkg.rel\n"                     # 15
    "pkg.relsub.sub_v\n"            # 16
    "pkg.sub.name\n"                # 17
    "K\n"                           # 18
    "m.\n"                          # 19
    "n.\n"                          # 20
    "sub.\n"                        # 21
    "pkg.\n"                        # 22
    "zf\n"                          # 23
    "from pkg import \n"            # 24
    "from m import \n"              # 25
    "import \n"                     # 26
    "m.K.kb\n"                      # 27
    "K.kc\n"                        # 28
    "import conf\n"                 # 29
    "conf.cv\n"                     # 30
    "conf.\n"                       # 31
    "m.func()\n"                    # 32   get_signatures inside the brackets
    "func()\n"                      # 33
    "K()\n"                         # 34
    "m.K()\n"                       # 35
    "sub.subfunc()\n"               # 36
    "pkg.relsub.subfunc()\n"        # 37
    "from shp.units import unit\n"              # 38
    "from shp.units.extra import label\n"       # 39
    "from shp.units.tables import SI\n"         # 40
    "ru = unit(1)\n"                # 41
    "rl = label(1)\n"               # 42
    "ru\n"                          # 43
    "rl\n"                          # 44
    "SI\n"                          # 45
    "import pkg.beta\n"             # 46
    "pkg.beta.fb\n"                 # 47
    "from pkg import alpha\n"       # 48
    "alpha.fa\n"                    # 49
    "pkg.alpha.fa\n"                # 50
)
PROJECT_NAMES = ('m', 'n', 'pkg', 'star', 'main', 'sub', 'conf', 'lib', 'shp', 'app')

# (form, method, line, column)
PROBES = [
    ('import-m', 'goto', 1, 7), ('import-m', 'infer', 1, 7),
    ('import-m', 'infer', 7, 8), ('import-m', 'goto', 7, 8), ('import-m', 'gotof', 7, 8),
    ('import-m', 'infer', 8, 3), ('import-m', 'complete', 19, 2), ('import-m', 'infer', 27, 6),
    ('import-n', 'goto', 2, 7), ('import-n', 'infer', 9, 8), ('import-n', 'complete', 20, 2),
    ('from-pkg-import-sub', 'goto', 4, 16), ('from-pkg-import-sub', 'infer', 4, 16),
    ('from-pkg-import-sub', 'infer', 10, 9), ('from-pkg-import-sub', 'gotof', 11, 8),
    ('from-pkg-import-sub', 'complete', 21, 4),
    ('from-pkg.sub-import-name', 'goto', 5, 20), ('from-pkg.sub-import-name', 'infer', 12, 4),
    ('from-pkg.sub-import-name', 'gotof', 12, 4),
    ('from-star-import', 'infer', 13, 6), ('from-star-import', 'gotof', 13, 6),
    ('from-star-import', 'infer', 14, 5), ('from-star-import', 'infer', 18, 1),
    ('from-star-import', 'complete', 23, 2), ('from-star-import', 'gotof', 28, 4),
    ('relative-in-pkg', 'goto', 3, 7), ('relative-in-pkg', 'infer', 15, 7),
    ('relative-in-pkg', 'gotof', 15, 7), ('relative-in-pkg', 'infer', 16, 16),
    ('relative-in-pkg', 'infer', 17, 12), ('relative-in-pkg', 'complete', 22, 4),
    ('module-listing', 'complete', 24, 16), ('module-listing', 'complete', 25, 14),
    ('module-listing', 'complete', 26, 7),
    ('import-conf', 'goto', 29, 8), ('import-conf', 'infer', 30, 7), ('import-conf', 'gotof', 30, 7),
    ('import-conf', 'complete', 31, 5),
    ('import-m', 'sigs', 32, 7), ('import-m', 'sigs', 35, 4),
    ('from-star-import', 'sigs', 33, 5), ('from-star-import', 'sigs', 34, 2),
    ('from-pkg-import-sub', 'sigs', 36, 12), ('relative-in-pkg', 'sigs', 37, 19),
    ('stub-tree', 'goto', 38, 23), ('stub-tree', 'goto', 39, 29), ('stub-tree', 'infer', 43, 2),
    ('stub-tree', 'infer', 44, 2), ('stub-tree', 'infer', 45, 2), ('stub-tree', 'gotof', 45, 2),
    ('package-listing', 'goto', 46, 12), ('package-listing', 'infer', 47, 10),
    ('package-listing', 'goto', 48, 18), ('package-listing', 'infer', 48, 18),
    ('package-listing', 'infer', 49, 7), ('package-listing', 'infer', 50, 11),
    ('package-listing', 'gotof', 50, 6),
]
ALL_PROBES = [p_ + ('main.py',) for p_ in PROBES] + [p_ + ('app/pkg1/mod.py',) for p_ in PROBES_MOD]
BUFFERS = {'main.py': MAIN, 'app/pkg1/mod.py': MOD}

# ------------------------------------------------------------------------------------------
# pure model of the file system under the event alphabet
# ------------------------------------------------------------------------------------------
FULL = ['wA', 'wB', 'wC', 'del', 'm2p', 'p2m', '+init', '-init', '+pyi', '-pyi', 'ren', 'unren',
        'touch', 'restart', 'sB', 'sA', 'shadow+', 'shadow-', 'm2p_keep', 'p2m_keep',
        '+stubs_init', '-stubs_init', '+stubs_mod', '-stubs_mod',
        '-alpha', '+alpha', '+beta', '-beta', '+selfinit', '-selfinit']
# file clock advances only for these (no ~s / ~o); `restart` takes no answer at all
NO_ANSWER = ('restart', 'shadow+', 'shadow-', 'm2p_keep', 'p2m_keep',
             '+stubs_init', '-stubs_init', '+stubs_mod', '-stubs_mod',
             '-alpha', '+alpha', '+beta', '-beta', '+selfinit', '-selfinit')
ADD_REMOVE = {'alpha': ALPHA, 'beta': BETA, 'selfinit': SELFINIT}
CORE = ['wB', 'wC', 'del', 'm2p', 'p2m', '+pyi', 'ren', 'restart']
CORE6 = ['wB', 'wC', 'del', 'm2p', '+pyi', 'm2p_keep']     # quick tier's depth-3 level (no restart)
ANSWERS = ('', '~s', '~o')        # advance (default) | same tick | older file mtime
WALL = '~w'       # wall clock (jedi.cache.time): > 3 s pass before the next Script (default: 0 s)


class FS:
    """files: relpath -> [content, mtime]; dirs: relpath ('' = root) -> mtime."""

    def __init__(self):
        self.tick = T0
        self.files = {}
        self.dirs = {'': T0, 'pkg': T0, 'lib': T0, 'shp': T0, 'shp/units': T0, 'shp-stubs': T0,
                     'shp-stubs/units': T0, 'app': T0, 'app/pkg1': T0}
        for p, c in (('m.py', M_VER['A']), ('star.py', STAR), ('pkg/__init__.py', INIT),
                     ('pkg/sub.py', SUB_VER['A']), ('lib/conf.py', CONF_LIB), ALPHA, SIBLING) + tuple(SHP.items()):
            self.files[p] = [c, T0]
        self.log = []          # real-FS operations of the last event

    # -- derived state
    def m_kind(self):
        if 'm.py' in self.files:
            return 'both' if 'm' in self.dirs else 'mod'
        if 'm' in self.dirs:
            return 'pkg'
        return None

    def m_src(self):
        """The file Python's import system would pick for `m` (a package shadows a module)."""
        k = self.m_kind()
        return {'mod': 'm.py', 'pkg': 'm/__init__.py', 'both': 'm/__init__.py', None: None}[k]

    def enabled(self, ev, prev=None):
        k = self.m_kind()
        src = self.m_src()
        if ev in ('wA', 'wB', 'wC'):
            return src is None or self.files[src][0] != M_VER[ev[1]]
        if ev in ('del', 'touch'):
            return k is not None
        if ev in ('m2p', 'm2p_keep'):
            return k == 'mod'
        if ev in ('p2m', 'p2m_keep'):
            return k == 'pkg'
        if ev[1:] in ADD_REMOVE:
            return (ADD_REMOVE[ev[1:]][0] in self.files) == (ev[0] == '-')
        if ev in ('+stubs_init', '-stubs_init'):
            return (STUBS_INIT[0] in self.files) == (ev[0] == '-')
        if ev in ('+stubs_mod', '-stubs_mod'):
            return (STUBS_MOD[0] in self.files) == (ev[0] == '-')
        if ev == 'shadow+':
            return 'conf.py' not in self.files
        if ev == 'shadow-':
            return 'conf.py' in self.files
        if ev == '+init':
            return 'pkg/__init__.py' not in self.files
        if ev == '-init':
            return 'pkg/__init__.py' in self.files
        if ev == '+pyi':
            return 'm.pyi' not in self.files
        if ev == '-pyi':
            return 'm.pyi' in self.files
        if ev == 'ren':
            return k == 'mod' and 'n.py' not in self.files
        if ev == 'unren':
            return k is None and 'n.py' in self.files
        if ev == 'restart':
            return prev != 'restart'
        if ev == 'sB':
            return self.files['pkg/sub.py'][0] == SUB_VER['A']
        if ev == 'sA':
            return self.files['pkg/sub.py'][0] == SUB_VER['B']
        raise ValueError(ev)

    # -- primitive operations (recorded so the driver can mirror them on disk)
    def _write(self, p, content):
        self.files[p] = [content, None]
        self.log.append(('write', p, content))
        self._wrote.append(p)
        self._dirty.add(os.path.dirname(p))

    def _remove(self, p):
        del self.files[p]
        self.log.append(('remove', p))
        self._dirty.add(os.path.dirname(p))

    def _rename(self, a, b):
        self.files[b] = self.files.pop(a)
        self.log.append(('rename', a, b))
        self._wrote.append(b)
        self._dirty.update((os.path.dirname(a), os.path.dirname(b)))

    def _mkdir(self, d):
        self.dirs[d] = None
        self.log.append(('mkdir', d))
        self._dirty.update((d, os.path.dirname(d)))

    def _rmdir(self, d):
        del self.dirs[d]
        self.log.append(('rmdir', d))
        self._dirty.add(os.path.dirname(d))

    def apply(self, event):
        """event = name + answer suffix.  Returns the list of on-disk operations, the last of
        them being ('utime', path, t) stamps."""
        ev, ans = split_event(event)
        self.log = []
        self._wrote = []
        self._dirty = set()
        if ev == 'restart':
            return self.log
        src = self.m_src()
        if ev in ('wA', 'wB', 'wC'):
            self._write(src or 'm.py', M_VER[ev[1]])
        elif ev == 'del':
            self._remove(src)
            if src != 'm.py':
                self._rmdir('m')
        elif ev == 'm2p':
            content = self.files['m.py'][0]
            self._mkdir('m')
            self._write('m/__init__.py', content)
            self._remove('m.py')
        elif ev == 'p2m':
            content = self.files['m/__init__.py'][0]
            self._remove('m/__init__.py')
            self._rmdir('m')
            self._write('m.py', content)
        elif ev == 'm2p_keep':      # the package appears next to the module, which stays
            self._mkdir('m')
            self._write('m/__init__.py', M_VER[_next_ver(self.files['m.py'][0])])
        elif ev == 'p2m_keep':      # a module file appears next to the package, which stays
            self._write('m.py', M_VER[_next_ver(self.files['m/__init__.py'][0])])
        elif ev[1:] in ADD_REMOVE:  # a file appears / disappears, nothing else is touched
            if ev[0] == '+':
                self._write(*ADD_REMOVE[ev[1:]])
            else:
                self._remove(ADD_REMOVE[ev[1:]][0])
        elif ev == '+stubs_init':   # the stub folder of the sub-package becomes a stub package
            self._write(*STUBS_INIT)
        elif ev == '-stubs_init':
            self._remove(STUBS_INIT[0])
        elif ev == '+stubs_mod':    # a stub module appears in the stub folder
            self._write(*STUBS_MOD)
        elif ev == '-stubs_mod':
            self._remove(STUBS_MOD[0])
        elif ev == 'shadow+':       # same-named module in an earlier search-path entry
            self._write('conf.py', CONF_ROOT)
        elif ev == 'shadow-':
            self._remove('conf.py')
        elif ev == '+init':
            self._write('pkg/__init__.py', INIT)
        elif ev == '-init':
            self._remove('pkg/__init__.py')
        elif ev == '+pyi':
            self._write('m.pyi', STUB)
        elif ev == '-pyi':
            self._remove('m.pyi')
        elif ev == 'ren':
            self._rename('m.py', 'n.py')
        elif ev == 'unren':
            self._rename('n.py', 'm.py')
        elif ev == 'touch':
            self._wrote.append(src)
            self._dirty.add(os.path.dirname(src))
        elif ev in ('sA', 'sB'):
            self._write('pkg/sub.py', SUB_VER[ev[1]])
        else:
            raise ValueError(ev)
        # the clock answer
        if ans != '~s':
            self.tick += 1
        for p in self._wrote:
            t = OLD if ans == '~o' else self.tick
            self.files[p][1] = t
            self.log.append(('utime', p, t))
        for d in sorted(self._dirty):
            if d in self.dirs:
                self.dirs[d] = self.tick
                self.log.append(('utime', d, self.tick))
        return self.log

    def snapshot(self):
        """The observable part a fresh process can see: paths and contents."""
        return sorted([p, c] for p, (c, _t) in self.files.items()) + \
            sorted([d + '/', None] for d in self.dirs if d)

    def record(self):
        """What the poison model needs of one step."""
        return {'tick': self.tick,
                'files': {p: (c, t) for p, (c, t) in self.files.items()},
                'dirs': {d: (t, tuple(sorted(self._entries(d)))) for d, t in self.dirs.items()}}

    def _entries(self, d):
        pre = d + '/' if d else ''
        out = set()
        for p in list(self.files) + [x for x in self.dirs if x]:
            if p.startswith(pre) and p != d:
                out.add(p[len(pre):].split('/')[0])
        return out


def _next_ver(content):
    v = [k for k in 'ABC' if M_VER[k] == content][0]
    return {'A': 'B', 'B': 'C', 'C': 'A'}[v]


def split_event(event):
    for ans in ('~s', '~o', WALL):
        if event.endswith(ans):
            return event[:-2], ans
    return event, ''


def snap_key(snapshot):
    return hashlib.sha256(json.dumps(snapshot).encode()).hexdigest()[:20]


def walk(events):
    """-> list of (FS record, snapshot) for steps 0..len(events), segment index per step."""
    fs = FS()
    steps = [(fs.record(), fs.snapshot(), 0)]
    seg = 0
    for e in events:
        fs.apply(e)
        if split_event(e)[0] == 'restart':
            seg += 1
        steps.append((fs.record(), fs.snapshot(), seg))
    return steps


def poison(steps):
    """Clock-deviation explanation for a difference at the last step (see module docstring).
    -> 'file' | 'dir' | None"""
    rec, _snap, seg = steps[-1]
    for prev, _s, _g in steps[:-1]:
        for p, (c, t) in rec['files'].items():
            if p in prev['files'] and prev['files'][p][0] != c and prev['tick'] >= t:
                return 'file'
    for prev, _s, g in steps[:-1]:
        if g != seg:
            continue        # the helper (and its directory listings) died with the restart
        for d, (t, entries) in rec['dirs'].items():
            if d in prev['dirs'] and prev['dirs'][d][1] != entries and prev['dirs'][d][0] == t:
                return 'dir'
    return None


def enumerate_histories(alphabet, depth, max_dev, wall=False):
    """All enabled histories of exactly `depth` events (shorter ones are their prefixes; some
    event is enabled in every state) with at most max_dev non-default clock answers (file clock
    ~s/~o; with wall=True also the wall-clock answer ~w)."""
    out = []

    def rec(prefix, devs):
        if len(prefix) == depth:
            out.append(list(prefix))
            return
        fs = FS()
        for e in prefix:
            fs.apply(e)
        prev = split_event(prefix[-1])[0] if prefix else None
        for ev in alphabet:
            if not fs.enabled(ev, prev):
                continue
            for ans in ANSWERS + ((WALL,) if wall else ()):
                if ans and devs >= max_dev:
                    continue
                if ans == WALL and ev == 'restart' or ans in ('~s', '~o') and ev in NO_ANSWER:
                    continue
                rec(prefix + [ev + ans], devs + (1 if ans else 0))
    rec([], 0)
    return out


def hid(events):
    return 'h:' + '.'.join(events)


# ------------------------------------------------------------------------------------------
# driver: mirror the model on disk, ask the battery
# ------------------------------------------------------------------------------------------
def _disk_apply(root, ops):
    for op in ops:
        kind, p = op[0], os.path.join(root, op[1]) if op[1] else root
        if kind == 'write':
            with open(p, 'w', newline='') as f:
                f.write(op[2])
        elif kind == 'remove':
            os.unlink(p)
        elif kind == 'rename':
            os.rename(p, os.path.join(root, op[2]))
        elif kind == 'mkdir':
            os.mkdir(p)
        elif kind == 'rmdir':
            os.rmdir(p)
    for op in ops:
        if op[0] == 'utime':
            p = os.path.join(root, op[1]) if op[1] else root
            os.utime(p, (op[2], op[2]))


def _disk_create(root, fs):
    os.makedirs(root)
    for d in sorted(fs.dirs):
        if d:
            os.makedirs(os.path.join(root, d))
    for p, (c, _t) in fs.files.items():
        with open(os.path.join(root, p), 'w', newline='') as f:
            f.write(c)
    for p, (_c, t) in fs.files.items():
        os.utime(os.path.join(root, p), (t, t))
    for d, t in fs.dirs.items():
        os.utime(os.path.join(root, d) if d else root, (t, t))


def _disk_check(root, fs):
    """Harness self-check: the disk is exactly the model, and every mtime is owned."""
    seen_f, seen_d = {}, {}
    for dp, dns, fns in os.walk(root):
        rel = os.path.relpath(dp, root)
        rel = '' if rel == '.' else rel
        seen_d[rel] = int(os.stat(dp).st_mtime)
        for fn in fns:
            p = os.path.join(dp, fn)
            with open(p, newline='') as f:
                seen_f[(rel + '/' if rel else '') + fn] = [f.read(), int(os.stat(p).st_mtime)]
    if seen_f != {p: [c, t] for p, (c, t) in fs.files.items()} or seen_d != fs.dirs:
        raise AssertionError('disk differs from model: %r %r vs %r %r'
                             % (seen_f, seen_d, fs.files, fs.dirs))


def _stamp_pickles(cache_dir, tick):
    """Pickles written by this step carry the step's virtual time."""
    for dp, _dns, fns in os.walk(cache_dir):
        for fn in fns:
            p = os.path.join(dp, fn)
            if os.stat(p).st_mtime < OLD - 1000:       # still has a wall-clock stamp
                os.utime(p, (tick, tick))


def _canon_name(d, root):
    return [d.name, d.type, canon.relpath(d.module_path, root), d.line, d.column, d.full_name,
            d.description]


def _battery(jedi, env, project, root):
    """-> list (one entry per probe) of JSON observations.  A new Script per call; the Project
    and the Environment are the caller's and live as long as the process (what an editor
    plugin does)."""
    obs = []
    scripts = {}
    for form, method, line, col, buf in ALL_PROBES:
        try:
            script = scripts.get(buf)
            if script is None:
                if buf == 'main.py':
                    script = jedi.Script(MAIN, path=os.path.join(root, buf), environment=env,
                                         project=project)
                else:       # no project=: jedi detects the default project of the file's folder
                    script = jedi.Script(BUFFERS[buf], path=os.path.join(root, buf),
                                         environment=env)
                scripts[buf] = script

            if method == 'complete':
                res = script.complete(line, col)
                names = sorted([c.name, c.type] for c in res)
                if line == 26 and buf == 'main.py':
                    names = [x for x in names if x[0] in PROJECT_NAMES]
                o = names
            elif method == 'infer':
                o = sorted(_canon_name(d, root) for d in script.infer(line, col))
            elif method == 'goto':
                o = sorted(_canon_name(d, root) for d in script.goto(line, col))
            elif method == 'sigs':
                o = sorted([x.name, [p_.to_string() for p_ in x.params], x.index,
                            list(x.bracket_start)] for x in script.get_signatures(line, col))
            else:
                o = sorted(_canon_name(d, root) for d in script.goto(
                    line, col, follow_imports=True))
        except BaseException as e:
            if isinstance(e, (KeyboardInterrupt, SystemExit)):
                raise
            o = ['EXC', canon.exc_site(e), canon.short_tb(e, 3)]
        obs.append(o)
    return json.loads(json.dumps(obs))


def _project(jedi, root):
    """Two search-path entries of the project: the root, then root/lib."""
    return jedi.Project(root, added_sys_path=[os.path.join(root, 'lib')])


class _VClock:
    """Replaces the `time` module inside jedi.cache: the explorer owns how much time passes
    between two Scripts (0 s by default - adversarial for time-limited caches; `~w`: 4 s, more
    than settings.call_signatures_validity)."""
    def __init__(self):
        self.now = float(T0)

    def time(self):
        return self.now


VCLOCK = _VClock()


def _own_wall_clock():
    import jedi.cache
    jedi.cache.time = VCLOCK


def _new_env():
    from jedi.api.environment import SameEnvironment
    return SameEnvironment()


def _kill_env(env):
    try:
        sp = env._subprocess
        if sp is not None:
            sp._kill()
    except Exception:
        pass


WARM_FILES = {
    'wu_m.py': M_VER['C'] + M_VER['A'] + M_VER['B'],
    'wu_m.pyi': STUB,
    'wu_star.py': "from wu_m import *\ns_own = 1.0\n",
    'wu_pkg/__init__.py': "from . import wu_sub as relsub\nfrom .wu_sub import name as rel\n",
    'wu_pkg/wu_sub.py': SUB_VER['A'].replace('from m ', 'from wu_m ').replace('import m\n',
                                                                              'import wu_m as m\n'),
}
_warm = False


def _init():
    """Pool-worker / replay initialisation: import jedi, parse the typeshed stubs the battery
    needs (into parso's in-memory cache) through a project whose module names are disjoint from
    the explored project's, and leave no helper process behind.  Histories fork from here."""
    global _warm
    if _warm:
        return
    scratch = boot.scratch_root()
    # helper subprocesses compile jedi once per run (a scratch worktree has no byte-code)
    os.environ['PYTHONPYCACHEPREFIX'] = os.path.join(scratch, 'pyc')
    os.environ.pop('PYTHONDONTWRITEBYTECODE', None)
    jedi = boot.boot()
    _own_wall_clock()
    root = os.path.join(scratch, 'c09-warm-%d' % os.getpid())
    for p, c in WARM_FILES.items():
        os.makedirs(os.path.dirname(os.path.join(root, p)), exist_ok=True)
        with open(os.path.join(root, p), 'w') as f:
            f.write(c)
    text = MAIN
    for a, b in (('pkg', 'wu_pkg'), ('sub', 'wu_sub'), ('star', 'wu_star'), ('conf', 'wu_conf'), ('shp', 'wu_shp'),
                 ('import m', 'import wu_m as m'),
                 ('from m ', 'from wu_m ')):
        text = text.replace(a, b)
    env = _new_env()
    try:
        script = jedi.Script(text, path=os.path.join(root, 'wu_main.py'), environment=env,
                             project=jedi.Project(root))
        for i, line in enumerate(text.split('\n'), 1):
            for fn in (script.infer, script.goto, script.complete):
                try:
                    fn(i, len(line))
                except Exception:
                    pass
    finally:
        _kill_env(env)
        del env
    shutil.rmtree(root, ignore_errors=True)
    import gc
    gc.collect()
    gc.freeze()       # forked children do not copy the warm heap when their GC runs
    _warm = True


def _run_steps(jedi, env, hdir, events, first_step, last_step):
    """Steps first_step..last_step of the history in this process (step 0 = the initial project;
    step k>0 applies events[k-1]).  -> list of observations."""
    from jedi import settings
    root = os.path.join(hdir, 'proj')
    cache_dir = os.path.join(hdir, 'cache')
    os.makedirs(cache_dir, exist_ok=True)
    settings.cache_directory = cache_dir
    fs = FS()
    for e in events[:max(first_step - 1, 0)]:
        fs.apply(e)
    out = []
    project = _project(jedi, root)
    for k in range(first_step, last_step + 1):
        if k == 0:
            _disk_create(root, fs)
        else:
            _disk_apply(root, fs.apply(events[k - 1]))
        _disk_check(root, fs)
        if k > 0 and split_event(events[k - 1])[1] == WALL:
            VCLOCK.now += 4.0
        obs = _battery(jedi, env, project, root)
        _stamp_pickles(cache_dir, fs.tick)
        out.append(obs)
    return out


def _segment_child(hdir, events, first_step, last_step, out_path):
    """Runs in a forked child with a helper subprocess of its own (a `restart` event is the
    process boundary itself)."""
    jedi = boot.boot()
    env = _new_env()
    try:
        out = _run_steps(jedi, env, hdir, events, first_step, last_step)
    finally:
        _kill_env(env)
    with open(out_path, 'w') as f:
        json.dump(out, f)


_SHARED = {'env': None, 'ran': []}


def run_history_shared(events, tag):
    """A history without `restart`, executed in this (long-lived worker) process with the
    worker's long-lived helper subprocess, in a directory nothing has seen before.  Cheap (no
    fork, no interpreter start); whatever differs from the oracle here without a clock
    explanation is re-examined by run_history() from a pristine process before it is reported."""
    _init()
    jedi = boot.boot()
    from jedi import settings
    assert not any(split_event(e)[0] == 'restart' for e in events)
    hdir = os.path.join(boot.scratch_root(), 'c09-s-%d-%s' % (os.getpid(), tag))
    shutil.rmtree(hdir, ignore_errors=True)
    os.makedirs(hdir)
    if _SHARED['env'] is None:
        _SHARED['env'] = _new_env()
    saved = settings.cache_directory
    try:
        return _run_steps(jedi, _SHARED['env'], hdir, events, 0, len(events))
    finally:
        settings.cache_directory = saved
        _SHARED['ran'].append(list(events))
        boot.prune_parser_cache()
        if not os.environ.get('JV_KEEP_SCRATCH'):
            shutil.rmtree(hdir, ignore_errors=True)


def run_history(events, tag):
    """-> list of observations for steps 0..len(events); raises RuntimeError on a dead child."""
    _init()
    hdir = os.path.join(boot.scratch_root(), 'c09-h-%d-%s' % (os.getpid(), tag))
    shutil.rmtree(hdir, ignore_errors=True)
    os.makedirs(hdir)
    # segments: [first_step, last_step]; a restart event at index i (step i+1) starts a segment
    bounds = [0] + [i + 1 for i, e in enumerate(events) if split_event(e)[0] == 'restart']
    segs = [(b, (bounds[j + 1] - 1) if j + 1 < len(bounds) else len(events))
            for j, b in enumerate(bounds)]
    obs = []
    try:
        for j, (a, b) in enumerate(segs):
            out_path = os.path.join(hdir, 'out-%d.json' % j)
            sys.stdout.flush()
            sys.stderr.flush()
            pid = os.fork()
            if pid == 0:
                rc = 0
                try:
                    _segment_child(hdir, events, a, b, out_path)
                except BaseException:
                    rc = 7
                    try:
                        with open(out_path + '.err', 'w') as f:
                            f.write(traceback.format_exc())
                    except Exception:
                        pass
                os._exit(rc)
            _pid, status = os.waitpid(pid, 0)
            if status != 0:
                err = ''
                if os.path.exists(out_path + '.err'):
                    with open(out_path + '.err') as f:
                        err = f.read()
                raise RuntimeError('segment %d of %s died (status %s): %s'
                                   % (j, hid(events), status, err))
            with open(out_path) as f:
                obs.extend(json.load(f))
    finally:
        if not os.environ.get('JV_KEEP_SCRATCH'):
            shutil.rmtree(hdir, ignore_errors=True)
    assert len(obs) == len(events) + 1
    return obs


def run_history_mixed(events, tag):
    """A history with `restart` events in a long-lived worker: the children that will play the
    processes after each restart are forked *first* (from a worker that has never seen the
    history's directories; they wait on a pipe), then the first segment runs in the worker
    itself with its long-lived helper, then the children run one after the other, each with
    a helper subprocess of its own."""
    _init()
    jedi = boot.boot()
    from jedi import settings
    hdir = os.path.join(boot.scratch_root(), 'c09-m-%d-%s' % (os.getpid(), tag))
    shutil.rmtree(hdir, ignore_errors=True)
    os.makedirs(hdir)
    bounds = [0] + [i + 1 for i, e in enumerate(events) if split_event(e)[0] == 'restart']
    segs = [(b, (bounds[j + 1] - 1) if j + 1 < len(bounds) else len(events))
            for j, b in enumerate(bounds)]
    if _SHARED['env'] is None:
        _SHARED['env'] = _new_env()
        _SHARED['env'].get_sys_path()        # the helper exists before anything is forked
    kids = []
    sys.stdout.flush()
    sys.stderr.flush()
    for j, (a, b) in enumerate(segs[1:], 1):
        r, w = os.pipe()
        out_path = os.path.join(hdir, 'out-%d.json' % j)
        pid = os.fork()
        if pid == 0:
            rc = 0
            try:
                os.close(w)
                for _r, w2, _p, _o in kids:
                    os.close(w2)
                go = os.read(r, 1)
                if go == b'g':
                    _segment_child(hdir, events, a, b, out_path)
            except BaseException:
                rc = 7
                try:
                    with open(out_path + '.err', 'w') as f:
                        f.write(traceback.format_exc())
                except Exception:
                    pass
            os._exit(rc)
        os.close(r)
        kids.append((None, w, pid, out_path))
    saved = settings.cache_directory
    obs = []
    try:
        try:
            obs.extend(_run_steps(jedi, _SHARED['env'], hdir, events, 0, segs[0][1]))
        finally:
            settings.cache_directory = saved
            _SHARED['ran'].append(list(events))
            boot.prune_parser_cache()
        for j, (_r, w, pid, out_path) in enumerate(kids, 1):
            os.write(w, b'g')
            os.close(w)
            kids[j - 1] = (None, None, pid, out_path)
            _pid, status = os.waitpid(pid, 0)
            kids[j - 1] = (None, None, None, out_path)
            if status != 0:
                err = ''
                if os.path.exists(out_path + '.err'):
                    with open(out_path + '.err') as f:
                        err = f.read()
                raise RuntimeError('segment %d of %s died (status %s): %s'
                                   % (j, hid(events), status, err))
            with open(out_path) as f:
                obs.extend(json.load(f))
    finally:
        for _r, w, pid, _o in kids:          # anything still waiting is released and reaped
            if w is not None:
                try:
                    os.write(w, b'x')
                    os.close(w)
                except OSError:
                    pass
            if pid is not None:
                try:
                    os.waitpid(pid, 0)
                except OSError:
                    pass
        if not os.environ.get('JV_KEEP_SCRATCH'):
            shutil.rmtree(hdir, ignore_errors=True)
    assert len(obs) == len(events) + 1
    return obs


# ------------------------------------------------------------------------------------------
# oracle: a fresh interpreter, empty cache directory, a copy of the same files
# ------------------------------------------------------------------------------------------
def _oracle_main(in_path, out_path):
    """Entry of the fresh process (python -m jv.props.c09 --oracle in out)."""
    with open(in_path) as f:
        job = json.load(f)
    jedi = boot.boot()
    from jedi import settings
    cache_dir = job['cache']
    assert not os.path.exists(cache_dir) or not os.listdir(cache_dir), 'cache must be empty'
    os.makedirs(cache_dir, exist_ok=True)
    settings.cache_directory = cache_dir
    root = job['root']
    os.makedirs(root)
    for p, c in job['snapshot']:
        full = os.path.join(root, p)
        if c is None:
            os.makedirs(full, exist_ok=True)
            continue
        os.makedirs(os.path.dirname(full), exist_ok=True)
        with open(full, 'w', newline='') as f:
            f.write(c)
    for dp, _dns, fns in os.walk(root):
        for fn in fns:
            os.utime(os.path.join(dp, fn), (T0, T0))
        os.utime(dp, (T0, T0))
    env = _new_env()
    try:
        obs = _battery(jedi, env, _project(jedi, root), root)
    finally:
        _kill_env(env)
    with open(out_path, 'w') as f:
        json.dump(obs, f)


def fresh_oracle(snapshot, tag):
    d = os.path.join(boot.scratch_root(), 'c09-o-%d-%s' % (os.getpid(), tag))
    shutil.rmtree(d, ignore_errors=True)
    os.makedirs(d)
    try:
        with open(os.path.join(d, 'in.json'), 'w') as f:
            json.dump({'snapshot': snapshot, 'root': os.path.join(d, 'proj'),
                       'cache': os.path.join(d, 'cache')}, f)
        env = dict(os.environ)
        env['JV_SCRATCH'] = d          # private cache-<pid> of boot.boot() is never used
        env['PYTHONPYCACHEPREFIX'] = os.path.join(boot.scratch_root(), 'pyc')
        env.pop('PYTHONDONTWRITEBYTECODE', None)
        p = subprocess.run([sys.executable, '-m', 'jv.props.c09', '--oracle',
                            os.path.join(d, 'in.json'), os.path.join(d, 'out.json')],
                           env=env, capture_output=True, text=True, timeout=600)
        if p.returncode != 0:
            raise RuntimeError('oracle process failed: %s' % p.stderr[-1500:])
        with open(os.path.join(d, 'out.json')) as f:
            return json.load(f)
    finally:
        shutil.rmtree(d, ignore_errors=True)


def _oracle_task(task):
    return fresh_oracle(task['snapshot'], task['key'])


# ------------------------------------------------------------------------------------------
# judging
# ------------------------------------------------------------------------------------------
def judge(events, obs, expected):
    """Difference of the last step's observation from the oracle's -> None | (site, detail)."""
    if obs == expected:
        return None
    diffs = [i for i in range(len(ALL_PROBES)) if obs[i] != expected[i]]
    steps = walk(events)
    why = poison(steps)
    first = ALL_PROBES[diffs[0]]
    o = obs[diffs[0]]
    if len(o) == 3 and o[0] == 'EXC':
        site = o[1]               # an exception the fresh process does not raise
    elif why == 'file':
        site = 'stale@mtime-not-advanced'
    elif why == 'dir':
        site = 'stale@dir-mtime-not-advanced'
    else:
        site = 'stale@' + first[0]
    detail = {
        'history': events,
        'files_now': {p: c for p, c in steps[-1][1] if c is not None},
        'differing_probes': [list(ALL_PROBES[i]) for i in diffs][:12],
        'first_probe': {'probe': list(first), 'source_line': BUFFERS[first[4]].split('\n')[first[2] - 1],
                        'observed': obs[diffs[0]], 'expected_fresh_process': expected[diffs[0]]},
        'clock_explanation': why,
    }
    return site, detail


CLOCK_SITES = ('stale@mtime-not-advanced', 'stale@dir-mtime-not-advanced')
_ORACLE = {}          # snapshot key -> observation; filled by run() before the pool forks


def _work(task):
    """One maximal history: execute, compare every step with the oracle table."""
    events = task['events']
    shared = not any(split_event(e)[0] == 'restart' for e in events)
    preceding = [list(h) for h in _SHARED['ran']]
    try:
        if shared:
            obs = run_history_shared(events, str(task['n']))
        else:
            obs = run_history_mixed(events, str(task['n']))
    except RuntimeError as e:
        return {'died': str(e)[-1500:]}
    steps = walk(events)
    out = []
    for k in range(len(events) + 1):
        key = snap_key(steps[k][1])
        exp = _ORACLE[key]
        j = judge(events[:k], obs[k], exp)
        out.append({'k': k, 'digest': snap_key(obs[k]), 'snap': key,
                    'bad': None if j is None else [j[0], j[1]],
                    'nonempty': sum(1 for o in obs[k] if o)})
    res = {'steps': out, 'shared': shared}
    if shared and any(o['bad'] and o['bad'][0] not in CLOCK_SITES for o in out):
        res['preceding'] = preceding        # what this worker had analysed before
    return res


def _confirm_isolated(events):
    """Judge the last step of `events` again, executed from this pristine process in forked
    segments with helpers of their own (exactly what replay() does).  -> None | (site, detail)"""
    obs = run_history(events, 'confirm')
    exp = _ORACLE[snap_key(walk(events)[-1][1])]
    return judge(events, obs[-1], exp)


def _families(tier):
    """(level name, alphabet, exact depth of the maximal histories, max clock deviations, wall-clock
    answer explored?); simplest first.  Every history of smaller depth is a prefix of one of these."""
    quick = [('full30/depth<=1/dev<=1+wall', FULL, 1, 1, True),
             ('full30/depth<=2/dev<=1', FULL, 2, 1, False),
             ('core6/depth<=3/dev=0', CORE6, 3, 0, False)]
    if tier == 'quick':
        return quick
    # File-clock deviations stay at depth <= 2 in both tiers, so that the explicit list of inputs
    # of the two clock findings in known_findings.json is the same for quick and thorough.
    return quick + [('full30/depth<=2/dev<=1+wall', FULL, 2, 1, True),
                    ('core8/depth<=3/dev=0', CORE, 3, 0, False),
                    ('full30/depth<=3/dev=0', FULL, 3, 0, False),
                    ('core8/depth<=4/dev=0', CORE, 4, 0, False),
                    ('core8/depth<=5/dev=0', CORE, 5, 0, False)]


def _oracles_for(ctx, snaps, table):
    """Extend `table` (snapshot key -> fresh-process observation) to cover `snaps`."""
    todo = sorted(k for k in snaps if k not in table)
    otasks = [{'key': k, 'snapshot': snaps[k]} for k in todo]
    pres = pool.run(otasks, 'jv.props.c09:_oracle_task', seed=ctx.seed, deadline=ctx.deadline,
                    tag='c09o')
    ctx.absorb(pres, 'oracle')
    for i, k in enumerate(todo):
        if i in pres.results:
            table[k] = pres.results[i]
    return all(k in table for k in snaps)


def run(ctx):
    global _ORACLE
    cpu0 = os.times()
    plans = []
    seen_hist = set()
    fams = _families(ctx.tier)
    if os.environ.get('JV_C09_DEV_MAX_LEVEL'):      # development aid only
        fams = fams[:int(os.environ['JV_C09_DEV_MAX_LEVEL'])]
        ctx.note('DEV: only the first %d levels' % len(fams))
    for name, alpha, depth, dev, wall in fams:
        hs = []
        for h in enumerate_histories(alpha, depth, dev, wall):
            if tuple(h) not in seen_hist:
                seen_hist.add(tuple(h))
                hs.append(h)
        plans.append((name, hs))
    # Development aid only (never set by bin/check): keep oracle observations of one jedi tree
    # between runs.  Unset, every run asks fresh processes for every snapshot.
    dev_cache = os.environ.get('JV_C09_DEV_ORACLE_CACHE')
    table = {}
    if dev_cache and os.path.exists(dev_cache):
        with open(dev_cache) as f:
            table = json.load(f).get(os.path.realpath(boot.REPO), {})
        ctx.note('DEV: %d oracle observations taken from %s' % (len(table), dev_cache))
    n_from_dev_cache = len(table)
    used_keys = set()

    prefixes = {}        # prefix id -> digest of the observation (all runs must agree)
    preceding = {}       # prefix id -> histories its worker had run before (shared mode)
    verdicts = {}        # prefix id -> (site, detail) of the first run that judged it
    divergent = []
    event_hits = {}
    transitions = 0
    done_levels = []
    exhaustive = True
    obs_classes = set()
    n_dev = 0
    runs = 0
    stop = None
    for name, hs in plans:
        if stop:
            exhaustive = False
            ctx.note('level %s not explored: %s' % (name, stop))
            continue
        if ctx.time_left() < 10:
            exhaustive = False
            ctx.note('level %s not started (time cap)' % name)
            continue
        # oracle: a fresh process per file-system snapshot not seen before
        snaps = {}
        for h in hs:
            for _rec, snap, _seg in walk(h):
                snaps.setdefault(snap_key(snap), snap)
        if not _oracles_for(ctx, snaps, table):
            if ctx.time_left() < 10:
                exhaustive = False
                ctx.note('level %s: oracle table not finished (time cap)' % name)
            else:
                ctx.harness_error('level %s: oracle table incomplete' % name)
            break
        used_keys.update(snaps)
        if dev_cache:
            allt = {}
            if os.path.exists(dev_cache):
                with open(dev_cache) as f:
                    allt = json.load(f)
            allt[os.path.realpath(boot.REPO)] = table
            with open(dev_cache, 'w') as f:
                json.dump(allt, f)
        _ORACLE = table
        _init()     # warm up once; the pool's workers are forked from this process
        tasks = [{'events': h, 'n': i} for i, h in enumerate(hs)]
        pres = pool.run(tasks, 'jv.props.c09:_work', init='jv.props.c09:_init', seed=ctx.seed,
                        deadline=ctx.deadline, tag='c09')
        ctx.absorb(pres, name)
        for i, t in enumerate(tasks):
            if i in pres.crashed:
                ctx.harness_error('%s: worker died on %s' % (name, hid(t['events'])))
                continue
            r = pres.results.get(i)
            if r is None:
                continue
            if 'died' in r:
                ctx.violation('ProcessDied@history', hid(t['events']),
                              {'history': t['events'], 'error': r['died']},
                              {'events': t['events']})
                continue
            runs += 1
            for e in t['events']:
                event_hits[e] = event_hits.get(e, 0) + 1
            for s in r['steps']:
                transitions += len(ALL_PROBES)
                pid_ = hid(t['events'][:s['k']])
                obs_classes.add((s['snap'], s['digest']))
                if pid_ in prefixes:
                    if prefixes[pid_] != s['digest']:
                        divergent.append(pid_)
                    continue
                prefixes[pid_] = s['digest']
                if any(split_event(e)[1] for e in t['events'][:s['k']]):
                    n_dev += 1
                if s['nonempty'] < 5:
                    ctx.note('vacuity warning: %s answers only %d of %d probes'
                             % (pid_, s['nonempty'], len(ALL_PROBES)))
                if s['bad']:
                    verdicts[pid_] = s['bad']
                    preceding[pid_] = r.get('preceding') or []
        if pres.skipped:
            exhaustive = False
            ctx.note('level %s: %d of %d histories not explored (time cap)'
                     % (name, len(pres.skipped), len(tasks)))
        else:
            done_levels.append('%s: %d maximal histories' % (name, len(tasks)))
        ctx.note('level %s done at %.0f s: %d histories judged so far, %d differ from the oracle'
                 % (name, time.time() - ctx.t0, len(prefixes), len(verdicts)))
        unexplained = sorted(p_ for p_, v in verdicts.items() if v[0] not in CLOCK_SITES)
        if unexplained or any(v['site'].startswith('ProcessDied') for v in ctx.violations):
            stop = ('counterexamples without a clock explanation exist at level %s (e.g. %s); '
                    'the shortest ones are reported' % (name, (unexplained or ['a dead process'])[0]))
    # Differences without a clock explanation were seen in long-lived workers: before they are
    # reported, the simplest ones of every site are judged again from this pristine process.
    simplest = sorted(verdicts, key=lambda x: (x.count('.'), x.count('~'), x))
    emitted = set()
    for site in sorted({verdicts[p_][0] for p_ in simplest} - set(CLOCK_SITES)):
        tried = 0
        for pid_ in [p_ for p_ in simplest if verdicts[p_][0] == site]:
            if tried >= 4 or pid_ in emitted:
                break
            tried += 1
            detail = verdicts[pid_][1]
            try:
                j = _confirm_isolated(detail['history'])
            except RuntimeError as e:
                j = ('ProcessDied@history', {'history': detail['history'], 'error': str(e)[-800:]})
            emitted.add(pid_)
            if j is not None:
                ctx.violation(j[0], pid_, j[1], {'events': detail['history']})
                if j[0] == site:
                    break
            else:
                detail = dict(detail, note='not reproduced by this history alone in a new process: '
                              'state left by histories the worker analysed before (other '
                              'directories) leaks into this one')
                ctx.violation('after-other-histories:' + site, pid_, detail,
                              {'events': detail['history'], 'preceding': preceding.get(pid_, [])})
    for pid_ in simplest:
        if pid_ not in emitted:
            site, detail = verdicts[pid_]
            ctx.violation(site, pid_, detail, {'events': detail['history']})
    if divergent:
        msg = ('re-walking a history prefix gave a different observation for %d prefixes, e.g. %s'
               % (len(divergent), divergent[:3]))
        if verdicts:
            ctx.note(msg)      # a consequence of the violations reported above
        else:
            ctx.harness_error(msg)
    cpu1 = os.times()
    ctx.coverage.update({
        'cpu_s': round(sum(cpu1[:4]) - sum(cpu0[:4]), 1),
        'states': len(prefixes), 'transitions': transitions, 'evaluations': transitions,
        'distinct_nontrivial': len(obs_classes),
        'rule': 'state = distinct history (event sequence incl. clock answers) whose last step '
                'was judged; transition = one complete/infer/goto evaluation after an event; '
                'distinct_nontrivial = distinct (file-system snapshot, observation vector) pairs '
                'seen in the histories',
        'histories_executed': runs, 'histories_with_clock_deviation': n_dev,
        'distinct_fs_snapshots': len(used_keys),
        'fresh_process_oracles': len(used_keys),
        'dev_oracle_cache_entries_reused': n_from_dev_cache,
        'distinct_oracle_observations': len({snap_key(table[k]) for k in used_keys}),
        'levels_completed': done_levels, 'exhaustive': exhaustive,
        'event_hits': dict(sorted(event_hits.items())),
        'events_never_enabled': sorted(set(FULL) - {split_event(e)[0] for e in event_hits}),
        'probes': [list(p) for p in ALL_PROBES],
        'samples': [{'history': h, 'snapshot_paths': [p for p, _c in walk(h)[-1][1]]}
                    for _n, hs in plans for h in hs[len(hs) // 2:len(hs) // 2 + 1]],
    })
    ctx.assumptions += [
        'configuration `stubs`; default Project(root) (smart_sys_path), one private SameEnvironment '
        '(helper subprocess) per worker / per forked process segment; Project(root, added_sys_path=[root/lib])',
        'oracle = a new interpreter (subprocess) with an empty settings.cache_directory analysing a '
        'copy of the snapshot in another directory; results are compared with paths made relative '
        'to the project root',
        'histories without restart run in a long-lived worker process (one helper per worker) in '
        'directories never seen before; "new process" of a restart event = a process forked from '
        'the worker (which never saw the history\'s directories) with a new helper subprocess; '
        'settings.cache_directory is shared by all segments of a history and private to it; '
        'differences without a clock explanation are re-judged from the pristine parent before '
        'being reported',
        'wall clock of jedi.cache (time-limited caches): virtual, 0 s between Scripts, ~w = 4 s',
        'file clock: virtual, origin %d, +1 s per event on written files and the directories whose '
        'entries changed or that contain a written file; ~s = no advance; ~o = file mtime %d, '
        'directories advance; pickles are stamped with the virtual time of the step that wrote them'
        % (T0, OLD),
        'histories containing an event that is disabled in its state (e.g. delete of a missing '
        'module, two restarts in a row, rewriting the identical version) are equal to a shorter '
        'history and are not enumerated',
    ]


def replay(case):
    events = case['events']
    _init()
    expected = fresh_oracle(walk(events)[-1][1], 'replay')
    if case.get('preceding'):
        # the case needs what its worker had analysed before: one long-lived process
        for i, h in enumerate(case['preceding']):
            run_history_shared(h, 'pre%d' % i)
        obs = run_history_shared(events, 'replay')
        _kill_env(_SHARED['env'])
        j = judge(events, obs[-1], expected)
        if j is None:
            return []
        return [('after-other-histories:' + j[0], hid(events), j[1])]
    obs = run_history(events, 'replay')
    j = judge(events, obs[-1], expected)
    if j is None:
        return []
    return [(j[0], hid(events), j[1])]


if __name__ == '__main__':
    if len(sys.argv) == 4 and sys.argv[1] == '--oracle':
        _oracle_main(sys.argv[2], sys.argv[3])
    else:
        sys.exit('usage: python -m jv.props.c09 --oracle in.json out.json')
