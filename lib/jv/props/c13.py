"""C13 — Interpreter reflects the live objects; safe mode runs no user descriptors.

Engine E1 (smallscope).  Enumerated (see jv/c13_cat.py):
  * class shapes: every feature of {property, non-data descriptor, data descriptor, __slots__,
    metaclass property, __getattr__(+__dir__), __getattribute__, __getitem__, __iter__+__next__,
    __call__, __len__, __bool__} alone and in all pairs, on the class / a base / the metaclass,
    x variant {file, exec, dyn(type()-created)} (+ instance-dict shadowing of the descriptors),
    plus builtin-container subclasses overriding __getitem__/__iter__/__len__;
  * roots {instance, class, the same two reached through a list and through a SimpleNamespace}
    x all step sequences (attribute / [0] / ()) up to the tier's length, all protocol-using
    expressions and statements (for, unpacking, if/while/not/and/or, len, iter, next, ...)
    x query battery (complete, infer, goto, help, get_references, get_signatures, get_names,
    get_context, search ... + result attributes) x {safe, unsafe};
  * container graph: dict/list/tuple nested two deep, instances, SimpleNamespace holding builtin
    values, functions, classes, instances of type()-created classes: every attribute/index
    path up to the tier's length.
Oracle:
  safe   -> no counter of a property getter, __get__, __getitem__, __iter__, __next__, __call__,
            __len__, __bool__ moves during any query (the innermost jedi frame is recorded);
  both   -> names completed after `<plain path>.` are a superset of dir(live object);
            infer on a path of plain attributes / builtin-container items names the class of the
            object CPython finds there (plainness decided by inspect.getattr_static).
"""
import inspect
import os
import sys
import types

from .. import boot, canon, pool
from .. import c13_cat as cat

ID = 'C13'
BUDGET = {'quick': 300, 'thorough': 2400}

JUDGED = cat.JUDGED_KINDS

# --------------------------------------------------------------------------------------------
# extra graphs: builtin-container subclasses (type(obj) is not a builtin container any more)
# --------------------------------------------------------------------------------------------
SUBCLASS_SOURCE = cat.PRELUDE + '''

class LSub(list):
    def __getitem__(self, index):
        _hit('__getitem__/LSub')
        return list.__getitem__(self, index)

    def __iter__(self):
        _hit('__iter__/LSub')
        return list.__iter__(self)

    def __len__(self):
        _hit('__len__/LSub')
        return list.__len__(self)


class TSub(tuple):
    def __getitem__(self, index):
        _hit('__getitem__/TSub')
        return tuple.__getitem__(self, index)

    def __iter__(self):
        _hit('__iter__/TSub')
        return tuple.__iter__(self)

    def __len__(self):
        _hit('__len__/TSub')
        return tuple.__len__(self)


class DSub(dict):
    def __getitem__(self, index):
        _hit('__getitem__/DSub')
        return dict.__getitem__(self, index)

    def __iter__(self):
        _hit('__iter__/DSub')
        return dict.__iter__(self)

    def __len__(self):
        _hit('__len__/DSub')
        return dict.__len__(self)

    def __bool__(self):
        _hit('__bool__/DSub')
        return True


class SSub(str):
    def __getitem__(self, index):
        _hit('__getitem__/SSub')
        return str.__getitem__(self, index)

    def __iter__(self):
        _hit('__iter__/SSub')
        return str.__iter__(self)

    def __len__(self):
        _hit('__len__/SSub')
        return str.__len__(self)


lsub = LSub([Leaf(), 's'])
tsub = TSub((Leaf(), 's'))
dsub = DSub({'k': Leaf(), 0: 's'})
ssub = SSub('ab')
box = [lsub, tsub, dsub, ssub]
unk = None
'''


# --------------------------------------------------------------------------------------------
# expressions
# --------------------------------------------------------------------------------------------
FEATURE_ATTRS = {'P': ['prop'], 'ND': ['nd'], 'DD': ['dd'], 'SL': ['sl'], 'MP': ['mp'],
                 'GA': ['dyn', '__getattr__'], 'GAT': ['__getattribute__'],
                 'GI': ['__getitem__'], 'IT': ['__iter__', '__next__'], 'CA': ['__call__'],
                 'LE': ['__len__'], 'BO': ['__bool__']}
COMMON_ATTRS = ['plain', 'ia', 'meth', 'mut', 'pcont', 'icont', 'baseattr', '__class__',
                '__dict__', 'nonexist_']

WRAPS = [('next', 'next({T})'), ('iter', 'iter({T})'), ('list', 'list({T})'),
         ('list0', 'list({T})[0]'), ('tuple', 'tuple({T})'), ('len', 'len({T})'),
         ('bool', 'bool({T})'), ('not', '(not {T})'), ('and', '({T} and 1)'), ('or', '({T} or 1)'),
         ('ifexp', "(1 if {T} else '')"), ('comp', '[x_ for x_ in {T}][0]'),
         ('star', '[*{T}][0]'), ('sorted', 'sorted({T})'), ('reversed', 'reversed({T})'),
         ('enumerate', 'enumerate({T})'), ('zip', 'zip({T})'), ('dict', 'dict({T})'),
         ('set', 'set({T})'), ('min', 'min({T})'), ('any', 'any({T})'), ('in', '(1 in {T})'),
         ('type', 'type({T})'), ('idxk', "{T}['k']"), ('idxu', '{T}[unk2_]'), ('idxn', '{T}[-1]'),
         ('slice', '{T}[0:1]'), ('call1', '{T}(1)'), ('callcall', '{T}()()'),
         ('neg', '(-{T})'), ('eq', '({T} == {T})'), ('add', '({T} + {T})'),
         ('isinst', 'isinstance({T}, int)'), ('str', 'str({T})'), ('repr', 'repr({T})'),
         ('fstr', "f'{{{T}}}'"), ('dictkey', '{{1: 2}}[{T}]'), ('listidx', '[1, ""][{T}]')]

STMTS = [('for', 'for v_ in {T}:\n    pass\n'),
         ('for2', 'for v_, w_ in {T}:\n    pass\n'),
         ('unpack', 'v_, w_ = {T}\n'),
         ('starunpack', 'v_, *w_ = {T}\n'),
         ('if', 'if {T}:\n    v_ = 1\nelse:\n    v_ = ""\n'),
         ('ifnot', 'if not {T}:\n    v_ = 1\nelse:\n    v_ = ""\n'),
         ('iflen', 'if len({T}):\n    v_ = 1\nelse:\n    v_ = ""\n'),
         ('while', 'while {T}:\n    v_ = 1\n    break\n'),
         ('starargs', 'def f_(*a):\n    return a\nv_ = f_(*{T})\n'),
         ('kwargs', 'def g_(**k):\n    return k\nv_ = g_(**{T})\n'),
         ('dictunpack', 'v_ = {{**{T}}}\n'),
         ('assert', 'assert {T}\nv_ = {T}\n'),
         ('with', 'with {T} as v_:\n    pass\n'),
         ('yieldfrom', 'def h_():\n    yield from {T}\nv_ = list(h_())[0]\n'),
         ('genexp', 'v_ = next(x_ for x_ in {T})\n'),
         ('dictcomp', 'v_ = {{x_: 1 for x_ in {T}}}\n'),
         ('param', 'def p_(a=len({T})):\n    return a\nv_ = p_()\n'),
         ('flowret', 'def r_():\n    if {T}:\n        return 1\n    return ""\nv_ = r_()\n')]

# (method, kwargs) batteries.  Every query is asked at the end of its code.
B_FULL = [('infer', {}), ('goto', {'follow_imports': True}), ('help', {}),
          ('get_references', {'scope': 'file'}), ('get_context', {})]
B_THOROUGH_EXTRA = [('infer', {'prefer_stubs': True}), ('infer', {'only_stubs': True}),
                    ('goto', {}), ('goto', {'only_stubs': True}),
                    ('get_references', {})]


def _end(code):
    lines = code.split('\n')
    return len(lines), len(lines[-1])


def _shape_attrs(shape):
    attrs = list(COMMON_ATTRS)
    for f, _p in shape:
        for a in FEATURE_ATTRS[f]:
            if a not in attrs:
                attrs.append(a)
    return attrs


def _step_alphabet(shape):
    steps = ['[0]', '()', '.ia', '.leafattr']
    for f, _p in shape:
        for a in FEATURE_ATTRS[f]:
            if not a.startswith('__') and '.' + a not in steps:
                steps.append('.' + a)
    return steps


def _seqs(steps, maxlen):
    level = ['']
    for _ in range(maxlen):
        level = [p + s for p in level for s in steps]
        yield from level


def shape_queries(shape, tier, roots, light=False):
    """-> list of query dicts {id, code, method, kw, kind} for one shape (mode-independent)."""
    attrs = _shape_attrs(shape)
    steps = _step_alphabet(shape)
    maxlen = 2 if tier == 'quick' else 3
    out = []

    def add(qid, code, method, kw=None, **extra):
        d = {'id': qid, 'code': code, 'method': method, 'kw': kw or {}}
        d.update(extra)
        out.append(d)

    def value_battery(eid, e, full):
        add(eid + '|complete', e + '.', 'complete', value=e)
        add(eid + '|infer@', e, 'infer', value=e)
        if not full:
            return
        var = 'v_ = %s\nv_' % e
        for m, kw in B_FULL + (B_THOROUGH_EXTRA if tier == 'thorough' else []):
            add('%s|v:%s%s' % (eid, m, _kwid(kw)), var, m, kw, value=e)
        add(eid + '|sig', e + '(', 'get_signatures')
        add(eid + '|names', var + '.', 'get_names', {'all_scopes': True, 'references': True})
        if tier == 'thorough':
            add(eid + '|cfuzzy', e + '.', 'complete', {'fuzzy': True})
            add(eid + '|search', var, 'search', {'string': 'v_'})
            add(eid + '|csearch', var, 'complete_search', {'string': 'v_'})
            add(eid + '|rename', var, 'rename', {'new_name': 'zz_'})
            add(eid + '|inline', var, 'inline', {})
            add(eid + '|extract', e, 'extract_variable', {'new_name': 'zz_'})

    for rname, T in roots:
        main = not light and rname in ('obj', 'C')
        value_battery('%s|self' % rname, T, True)
        for a in attrs:
            value_battery('%s|.%s' % (rname, a), '%s.%s' % (T, a), main)
            if main or not a.startswith('__'):
                value_battery('%s|getattr:%s' % (rname, a), "getattr(%s, '%s')" % (T, a), False)
        for seq in _seqs(steps, maxlen if not light else 1):
            value_battery('%s|%s' % (rname, seq), T + seq,
                          main and seq.count('.') + seq.count('[') + seq.count('(') == 1)
        for wid, fmt in WRAPS:
            value_battery('%s|w:%s' % (rname, wid), fmt.format(T=T), main and tier == 'thorough')
        for sid, fmt in STMTS:
            code = fmt.format(T=T)
            add('%s|s:%s|complete' % (rname, sid), code + 'v_.', 'complete')
            add('%s|s:%s|infer' % (rname, sid), code + 'v_', 'infer')
            if main:
                for m, kw in B_FULL[1:]:
                    add('%s|s:%s|%s%s' % (rname, sid, m, _kwid(kw)), code + 'v_', m, kw)
                add('%s|s:%s|names' % (rname, sid), code + 'v_', 'get_names',
                    {'all_scopes': True, 'references': True})
    return out


def _kwid(kw):
    return '' if not kw else '(' + ','.join('%s=%s' % kv for kv in sorted(kw.items())) + ')'


SHAPE_ROOTS = [('obj', 'obj'), ('C', 'C'), ('box0', 'box[0]'), ('box1', 'box[1]'),
               ('holdo', 'hold.o'), ('holdc', 'hold.c')]
SUB_ROOTS = [('lsub', 'lsub'), ('tsub', 'tsub'), ('dsub', 'dsub'), ('ssub', 'ssub'),
             ('box0', 'box[0]'), ('box1', 'box[1]'), ('box2', 'box[2]'), ('box3', 'box[3]')]


# --------------------------------------------------------------------------------------------
# plain paths (the differential part: CPython decides what is stored where)
# --------------------------------------------------------------------------------------------
def _is_plain_attr(o, name):
    """The attribute is found without any descriptor/dynamic protocol (CPython's own static
    lookup, not jedi's) and plain getattr agrees with it."""
    try:
        static = inspect.getattr_static(o, name)
    except AttributeError:
        return False, None
    if isinstance(static, types.MemberDescriptorType):
        pass        # a __slots__ slot: storage, not a user descriptor
    elif hasattr(type(static), '__get__'):
        return False, None
    try:
        live = getattr(o, name)
    except Exception:
        return False, None
    if not isinstance(static, types.MemberDescriptorType) and live is not static:
        return False, None
    return True, live


def _plain_children(o):
    """-> [(step text, child)] for the steps the property speaks about."""
    t = type(o)
    if t is dict:
        return [('[%r]' % (k,), v) for k, v in o.items() if type(k) in (str, int)]
    if t in (list, tuple):
        ch = [('[%d]' % i, v) for i, v in enumerate(o)]
        if o:
            ch.append(('[-1]', o[-1]))
        return ch
    if t in (str, bytes, int, float, bool, complex, type(None)) or inspect.isroutine(o):
        return []
    names = []
    try:
        names += list(vars(o))
    except TypeError:
        pass
    klasses = o.__mro__ if inspect.isclass(o) else type(o).__mro__
    for k in klasses:
        if k.__module__ == 'builtins':
            continue
        names += [n for n in vars(k) if not n.startswith('__')]
    ch = []
    for n in dict.fromkeys(names):
        ok, live = _is_plain_attr(o, n)
        if ok and n.isidentifier() and not n.startswith('_'):
            ch.append(('.' + n, live))
    return ch


def plain_paths(ns, roots, maxlen):
    """All (expression, live object) reachable from `roots` by <= maxlen plain steps."""
    out = []
    for r in roots:
        frontier = [(r, ns[r])]
        for _ in range(maxlen):
            nxt = []
            for e, o in frontier:
                for step, child in _plain_children(o):
                    nxt.append((e + step, child))
            out += nxt
            frontier = nxt
    return out


def expected_name(o):
    if inspect.isclass(o):
        return [o.__name__, 'class']
    if inspect.isfunction(o) or inspect.isbuiltin(o) or inspect.ismethod(o):
        return [o.__name__, 'function']
    if inspect.ismodule(o):
        return [o.__name__, 'module']
    return [type(o).__name__, 'instance']


# --------------------------------------------------------------------------------------------
# worker
# --------------------------------------------------------------------------------------------
_state = {}


def _init():
    boot.boot()


def _project():
    jedi = boot.boot()
    if 'project' not in _state:
        root = os.path.join(boot.scratch_root(), 'c13proj-%d' % os.getpid())
        os.makedirs(os.path.join(root, 'q'), exist_ok=True)
        _state['root'] = root
        _state['project'] = jedi.Project(root, smart_sys_path=False)
        _state['n'] = 0
    return _state['project']


def _jedi_site():
    f = sys._getframe(3)
    while f is not None:
        fn = os.path.abspath(f.f_code.co_filename)
        if fn.startswith(canon.REPO_JEDI):
            mod = fn[len(canon.REPO_JEDI):].rsplit('.', 1)[0].replace(os.sep, '.')
            return 'jedi.%s.%s' % (mod, f.f_code.co_name)
        f = f.f_back
    return 'outside-jedi'


LIGHT_ATTRS = ('name', 'type', 'complete', 'name_with_symbols')


def _touch_name(r, defined_names=False):
    """Every documented attribute of a result (canon.touch_name without its most expensive
    member, defined_names(), which is only asked for results naming the graph's own objects)."""
    for a in canon.NAME_ATTRS:
        getattr(r, a)
    r.module_path
    r.in_builtin_module()
    r.get_definition_start_position()
    r.get_definition_end_position()
    r.is_stub()
    r.is_side_effect()
    r.get_line_code()
    repr(r)
    r.docstring()
    r.docstring(raw=True)
    r.docstring(fast=False)
    r.get_type_hint()
    for s in r.get_signatures():
        canon.sig_core(s)
    r.parent()
    r.goto()
    r.goto(follow_imports=True, follow_builtin_imports=True)
    for x in r.infer():
        x.name, x.type, x.description
    r.infer(prefer_stubs=True)
    r.execute()
    if hasattr(r, 'is_definition'):
        r.is_definition()
    if hasattr(r, 'complete'):
        r.complete, r.name_with_symbols, r.get_completion_prefix_length()
    if defined_names and hasattr(r, 'defined_names'):
        for x in r.defined_names()[:60]:
            x.name, x.type


def _touch(method, res, interesting):
    """Use the results the way a REPL front end does; returns exceptions met (C01's subject)."""
    excs = []
    if method in ('rename', 'inline', 'extract_variable', 'extract_function'):
        try:
            res.get_changed_files()
            res.get_diff()
        except Exception as e:
            excs.append(canon.exc_site(e))
        return excs
    if method == 'get_context':
        res = [res]
    res = list(res)
    if method == 'get_signatures':
        for r in res:
            try:
                canon.sig_core(r)
                for p in r.params:
                    p.infer_default(), p.infer_annotation()
            except Exception as e:
                excs.append(canon.exc_site(e))
    if method in ('complete', 'complete_search'):
        deep = [r for r in res if r.name in interesting][:10] + res[:2]
        for r in res:
            try:
                for a in LIGHT_ATTRS:
                    getattr(r, a)
            except Exception as e:
                excs.append(canon.exc_site(e))
    else:
        deep = canon.cap(res)
    for r in deep:
        try:
            _touch_name(r, defined_names=method == 'infer' and r.name in _DEFINED_NAMES_OF)
        except Exception as e:
            excs.append(canon.exc_site(e))
    return excs


_DEFINED_NAMES_OF = ('C', 'Leaf', 'Meta', 'LSub', 'DSub', 'K', 'Dyn')


def run_query(graph, ns, q, unsafe, interesting=()):
    """One query in a fresh Interpreter.  -> dict(names, types, hits, exc, touch_excs)."""
    jedi = boot.boot()
    from jedi import settings
    project = _project()
    _state['n'] += 1
    path = os.path.join(_state['root'], 'q', 'i%d_%d.py' % (os.getpid(), _state['n']))
    hits = []
    graph.reset()
    graph.set_trace(lambda key: hits.append((key, _jedi_site())))
    old = settings.allow_unsafe_interpreter_executions
    settings.allow_unsafe_interpreter_executions = bool(unsafe)
    out = {'names': None, 'exc': None, 'touch_excs': []}
    try:
        try:
            it = jedi.Interpreter(q['code'], [ns], path=path, project=project)
            m = q['method']
            if m in ('get_names', 'search', 'complete_search', 'get_syntax_errors'):
                res = getattr(it, m)(**q['kw'])
                if m != 'get_names':
                    res = list(res)
            elif m == 'extract_variable':
                line, col = _end(q['code'])
                res = it.extract_variable(line, 0, until_line=line, until_column=col, **q['kw'])
            else:
                line, col = _end(q['code'])
                res = getattr(it, m)(line, col, **q['kw'])
            if m in ('complete', 'infer', 'goto', 'help'):
                out['names'] = [[r.name, r.type] for r in res]
            out['touch_excs'] = _touch(m, res, interesting)
        except Exception as e:
            from jedi.api.exceptions import RefactoringError
            if isinstance(e, RefactoringError):
                out['names'] = None
            else:
                out['exc'] = {'site': canon.exc_site(e), 'tb': canon.short_tb(e)}
    finally:
        settings.allow_unsafe_interpreter_executions = old
        graph.set_trace(None)
    out['hits'] = hits
    return out


def _judge_hits(hits):
    """-> {(key, jedi site): n} for the judged kinds."""
    d = {}
    for key, site in hits:
        if key.split('/')[0] in JUDGED:
            d[(key, site)] = d.get((key, site), 0) + 1
    return d


def _safe_eval(expr, ns):
    try:
        return True, eval(expr, dict(ns))
    except Exception:
        return False, None


def _check(graph, ns, q, unsafe, interesting, fails, stats, oracle=None):
    """Run q, apply the oracles.  oracle = None | ('dir', live) | ('class', live) | both."""
    r = run_query(graph, ns, q, unsafe, interesting)
    stats['queries'] += 1
    stats['by_method'][q['method']] = stats['by_method'].get(q['method'], 0) + 1
    for s in r['touch_excs']:
        stats['touch_excs'][s] = stats['touch_excs'].get(s, 0) + 1
    if r['exc'] is not None and not oracle:
        stats['other_excs'][r['exc']['site']] = stats['other_excs'].get(r['exc']['site'], 0) + 1
    for key, _site in r['hits']:
        kind = key.split('/')[0]
        bucket = stats['hits_unsafe' if unsafe else 'hits_safe']
        bucket[kind] = bucket.get(kind, 0) + 1
    if not unsafe:
        for (key, site), n in sorted(_judge_hits(r['hits']).items()):
            fails.append({'site': 'safe-exec:%s@%s' % (key, site), 'q': q, 'unsafe': unsafe,
                          'detail': {'code': q['code'], 'method': q['method'], 'kw': q['kw'],
                                     'counter': key, 'times': n, 'called_from': site,
                                     'expected': 'counter stays 0 in safe mode'}})
    if oracle:
        if r['exc'] is not None:
            fails.append({'site': r['exc']['site'], 'q': q, 'unsafe': unsafe,
                          'detail': {'code': q['code'], 'method': q['method'],
                                     'traceback': r['exc']['tb'], 'expected': 'no exception'}})
            return r
        if 'dir' in oracle:
            stats['dir_checks'] += 1
            want = [n for n in oracle['dir']]
            have = set(n for n, _t in r['names'])
            missing = sorted(set(want) - have)
            if missing:
                fails.append({'site': 'dir-missing@complete', 'q': q, 'unsafe': unsafe,
                              'detail': {'code': q['code'], 'missing': missing[:20],
                                         'n_offered': len(have), 'n_dir': len(want),
                                         'expected': 'completions superset of dir(object)'}})
        if 'class' in oracle:
            stats['class_checks'] += 1
            exp = oracle['class']
            got = sorted(set(map(tuple, r['names'])))
            stats['classes'][exp[0] + '/' + exp[1]] = \
                stats['classes'].get(exp[0] + '/' + exp[1], 0) + 1
            if got != [tuple(exp)]:
                fails.append({'site': 'infer-class@infer', 'q': q, 'unsafe': unsafe,
                              'detail': {'code': q['code'], 'expected': exp,
                                         'observed': [list(g) for g in got]}})
    return r


def _new_stats():
    return {'queries': 0, 'by_method': {}, 'touch_excs': {}, 'other_excs': {}, 'hits_safe': {},
            'hits_unsafe': {}, 'dir_checks': 0, 'class_checks': 0, 'classes': {},
            'plain_paths': 0}


def _graph_for(task):
    d = os.path.join(boot.scratch_root(), 'c13mods-%d' % os.getpid())
    if task['family'] == 'shape':
        shape, shadow = cat.parse_shape_id(task['shape'])
        src = cat.shape_source(shape, task['variant'], shadow)
    elif task['family'] == 'sub':
        shape = ()
        src = SUBCLASS_SOURCE
    else:
        shape = ()
        src = cat.CONTAINER_SOURCE
    return shape, cat.build(src, task['variant'], d)


def _plain_queries(ns, roots, maxlen, tier):
    """queries with oracles for every plain path."""
    qs = []
    for e, live in plain_paths(ns, roots, maxlen):
        qs.append(({'id': 'p|%s|complete' % e, 'code': e + '.', 'method': 'complete', 'kw': {}},
                   'dir', e))
        qs.append(({'id': 'p|%s|infer@' % e, 'code': e, 'method': 'infer', 'kw': {}},
                   'class', e))
        qs.append(({'id': 'p|%s|v:infer' % e, 'code': 'v_ = %s\nv_' % e, 'method': 'infer',
                    'kw': {}}, 'class', e))
        if tier == 'thorough':
            qs.append(({'id': 'p|%s|v:complete' % e, 'code': 'v_ = %s\nv_.' % e,
                        'method': 'complete', 'kw': {}}, 'dir', e))
    return qs


def _oracle_for(kind, expr, ns):
    ok, live = _safe_eval(expr, ns)
    if not ok:
        return None
    if kind == 'dir':
        return {'dir': sorted(dir(live))}
    return {'class': expected_name(live)}


def _work(task):
    """All queries of one (graph, variant): safe mode everything, unsafe mode the oracle part."""
    shape, graph = _graph_for(task)
    ns = graph.namespace()
    tier = task['tier']
    fails = []
    stats = _new_stats()
    only = task.get('only')     # replay: a single (query id, unsafe)
    if task['family'] == 'shape':
        roots = SHAPE_ROOTS if not task.get('light') else SHAPE_ROOTS[:2]
        qs = shape_queries(shape, tier, roots, light=task.get('light', False))
        interesting = set(_shape_attrs(shape)) | {'leafattr', 'leafmeth'}
        plain_roots = ['obj', 'C', 'box', 'hold']
        plain_len = 2 if tier == 'quick' else 3
    elif task['family'] == 'sub':
        qs = shape_queries((), tier, SUB_ROOTS, light=False)
        interesting = {'leafattr', 'append', 'keys', '__getitem__', '__iter__', '__len__'}
        plain_roots = ['box']
        plain_len = 1
    else:
        qs = []
        interesting = {'katt', 'kia', 'ca', 'cs', 'ia', 'real', 'upper'}
        plain_roots = task['roots']
        plain_len = task['maxlen']
    # 1. safe mode: every expression x battery
    for q in qs:
        if only and (q['id'], False) != tuple(only):
            continue
        _check(graph, ns, q, False, interesting, fails, stats)
    # 2. both modes: plain paths with the differential oracles
    pq = _plain_queries(ns, plain_roots, plain_len, tier)
    stats['plain_paths'] = len({e for _q, _k, e in pq})
    for unsafe in (False, True):
        for q, kind, expr in pq:
            if only and (q['id'], unsafe) != tuple(only):
                continue
            oracle = _oracle_for(kind, expr, ns)
            if oracle is None:
                continue
            _check(graph, ns, q, unsafe, interesting, fails, stats, oracle)
    # 3. unsafe mode: the root completions of every expression family still work (no oracle on
    #    counters: executing is allowed) -- only the roots, the rest is covered by 2.
    return {'fails': fails, 'stats': stats, 'nq': len(qs), 'npq': len(pq)}


# --------------------------------------------------------------------------------------------
# explorer
# --------------------------------------------------------------------------------------------
def _levels(tier):
    singles, pairs_same = cat.all_shapes(mixed_placements=False)
    _s, pairs_all = cat.all_shapes(mixed_placements=True)
    pairs_mixed = [p for p in pairs_all if p not in set(pairs_same)]
    levels = []

    def shape_tasks(shapes, variants, shadow=False, light=False):
        return [{'family': 'shape', 'shape': cat.shape_id(s, shadow), 'variant': v,
                 'tier': tier, 'light': light} for s in shapes for v in variants]

    cont = []
    maxlen = 3 if tier == 'quick' else 4
    for v in cat.VARIANTS[:2]:
        for r in ['d2', 'l2', 't2', 'inst', 'dynst', 'sn']:
            cont.append({'family': 'cont', 'variant': v, 'tier': tier, 'roots': [r],
                         'maxlen': maxlen})
    levels.append(('containers(paths<=%d)' % maxlen, cont))
    levels.append(('builtin-subclasses', [{'family': 'sub', 'variant': v, 'tier': tier}
                                          for v in cat.VARIANTS[:2]]))
    if tier == 'quick':
        levels.append(('singles x {file,exec,dyn}', shape_tasks(singles, cat.VARIANTS)))
        levels.append(('singles shadowed x {file,exec}',
                       shape_tasks([s for s in singles if s[0][0] in ('P', 'ND', 'DD')],
                                   cat.VARIANTS[:2], shadow=True, light=True)))
        levels.append(('pairs same placement x {file,exec} (light)',
                       shape_tasks(pairs_same, cat.VARIANTS[:2], light=True)))
    else:
        levels.append(('singles x {file,exec,dyn}', shape_tasks(singles, cat.VARIANTS)))
        levels.append(('singles shadowed x {file,exec,dyn}',
                       shape_tasks(singles, cat.VARIANTS, shadow=True, light=True)))
        levels.append(('pairs same placement x {file,exec,dyn}',
                       shape_tasks(pairs_same, cat.VARIANTS)))
        levels.append(('pairs mixed placement x {file,exec} (light)',
                       shape_tasks(pairs_mixed, cat.VARIANTS[:2], light=True)))
    return levels


def _task_id(t):
    if t['family'] == 'shape':
        return '%s|%s%s' % (t['shape'], t['variant'], '|light' if t.get('light') else '')
    if t['family'] == 'sub':
        return 'sub|%s' % t['variant']
    return 'cont:%s|%s' % ('+'.join(t['roots']), t['variant'])


def run(ctx):
    agg = _new_stats()
    states = 0
    done = []
    exhaustive = True
    samples = []
    obs = set()
    for name, tasks in _levels(ctx.tier):
        if ctx.time_left() < 10:
            exhaustive = False
            ctx.note('level %s not started (time cap)' % name)
            continue
        # longest first is not needed: tasks of a level are of similar size
        pres = pool.run(tasks, 'jv.props.c13:_work', init='jv.props.c13:_init',
                        seed=ctx.seed, deadline=ctx.deadline, tag='c13')
        ctx.absorb(pres, name)
        for i, t in enumerate(tasks):
            tid = _task_id(t)
            if i in pres.crashed:
                ctx.violation('WorkerDied(exit=%s)' % pres.crashed[i], tid, {'task': t},
                              {'task': t})
                continue
            r = pres.results.get(i)
            if r is None:
                continue
            states += r['nq'] + 2 * r['npq']
            _merge(agg, r['stats'])
            for f in r['fails']:
                iid = '%s|%s|%s' % (tid, 'u' if f['unsafe'] else 's', f['q']['id'])
                ctx.violation(f['site'], iid, f['detail'],
                              {'task': t, 'only': [f['q']['id'], f['unsafe']]})
                obs.add(f['site'])
        if pres.skipped:
            exhaustive = False
            ctx.note('level %s: %d of %d graphs not explored (time cap)'
                     % (name, len(pres.skipped), len(tasks)))
        else:
            done.append('%s: %d graphs' % (name, len(tasks)))
        if tasks:
            samples.append({'level': name, 'id': _task_id(tasks[len(tasks) // 2])})
    for kind in JUDGED:
        if not agg['hits_unsafe'].get(kind) and not agg['hits_safe'].get(kind):
            ctx.note('vacuity: counter kind %s never moved in any mode' % kind)
    ctx.coverage.update({
        'states': states, 'transitions': agg['queries'], 'evaluations': agg['queries'],
        'distinct_nontrivial': len(agg['classes']) + len(agg['by_method']),
        'rule': 'state = (graph, variant, mode, expression, query); transition = one query in a '
                'fresh Interpreter with its results touched; distinct_nontrivial = distinct '
                '(expected class, kind) values confirmed by the infer oracle + distinct query '
                'methods exercised',
        'levels_completed': done, 'exhaustive': exhaustive, 'samples': samples,
        'queries_by_method': agg['by_method'],
        'dir_oracle_checks': agg['dir_checks'], 'class_oracle_checks': agg['class_checks'],
        'classes_confirmed': agg['classes'],
        'counter_hits_safe_mode': agg['hits_safe'],
        'counter_hits_unsafe_mode': agg['hits_unsafe'],
        'exceptions_in_result_attributes(not judged here, C01)': agg['touch_excs'],
        'exceptions_in_unjudged_queries(not judged here, C01)': agg['other_excs'],
        'features': cat.FEATURES, 'placements': cat.PLACEMENTS, 'variants': cat.VARIANTS,
    })
    ctx.assumptions += [
        'configuration `stubs`: jedi from $JV_REPO with the vendored typeshed stdlib',
        'judged counters: property getter, __get__ of user descriptors, __getitem__, __iter__, '
        '__next__, __call__, __len__, __bool__; __getattr__/__getattribute__/__dir__/__set__ '
        'are counted but not judged (the property does not list them)',
        'a path is plain iff inspect.getattr_static (CPython, not jedi) finds a non-descriptor '
        '(or a __slots__ slot) and getattr returns that very object; container steps only on '
        'objects whose type is exactly dict/list/tuple',
        'every query runs in a fresh Interpreter with its own path; the setting is set before '
        'construction and restored afterwards',
        'exceptions escaping queries that carry no dir/class oracle, and exceptions from result '
        'attributes, are counted in coverage but not judged (C01 owns totality)',
    ]


def _merge(a, b):
    for k, v in b.items():
        if isinstance(v, dict):
            for kk, vv in v.items():
                a[k][kk] = a[k].get(kk, 0) + vv
        else:
            a[k] += v


def replay(case):
    _init()
    t = dict(case['task'])
    t['only'] = case['only']
    r = _work(t)
    tid = _task_id(case['task'])
    return [(f['site'], '%s|%s|%s' % (tid, 'u' if f['unsafe'] else 's', f['q']['id']),
             f['detail']) for f in r['fails']]
