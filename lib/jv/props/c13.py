"""C13 — Interpreter reflects the live objects; safe mode runs no user descriptors.

Engine E1 (smallscope).  Enumerated (see jv/c13_cat.py):
  * class shapes: every feature of {property, non-data descriptor, data descriptor, __slots__,
    metaclass property, __getattr__(+__dir__), __getattribute__, __getitem__, __iter__+__next__,
    __call__, __len__, __bool__} alone and in all pairs, on the class / a base / the metaclass,
    x variant {file, exec, dyn(type()-created)} (+ instance-dict shadowing of the descriptors),
    plus builtin-container subclasses overriding __getitem__/__iter__/__len__;
  * roots {instance, class, the same two reached through a list and through a SimpleNamespace}
    x all step sequences (attribute / [0] / ()) up to the tier's length, all protocol-using
    expressions and statements (for, unpacking, if/while/not/and/or, len, iter, next, ...)
    x query battery (complete, infer, goto, help, get_references, get_signatures, get_names,
    get_context, search ... + result attributes) x {safe, unsafe};
  * histories (one process, classes mutated between queries): descriptor kind {property,
    non-data, data descriptor} x placement {class, base, metaclass, base of the metaclass
    (= inherited metaclass property)} x history {plain attribute replaced by the descriptor,
    descriptor added under a new name, descriptor replaced by a plain value} x first query
    {complete `R.`, infer/goto/help `R.att`}: ask, mutate the class, ask everything again with
    new Interpreters; same oracles on the state after the mutation;
  * stdlib containers whose item access can run user code or change the container
    (defaultdict with a user factory object / function, OrderedDict, deque, ChainMap over a
    dict subclass, UserDict/UserList subclasses, mappingproxy over a dict subclass, dict
    subclass with __missing__) reached directly, as an attribute and nested in plain
    containers x present/absent literal subscripts, iteration, len, not; additional oracle:
    the content of every live container is the same before and after each safe-mode query;
  * dict-key completion inside subscript brackets (`d['`, `d["al`, `d['al|']`, `d[`,
    `d['alpha'][`, through attribute / list / dict / variable) for dict, OrderedDict,
    defaultdict and dict subclasses overriding __iter__(+__next__)/keys/__getitem__/__len__/
    __contains__ (class statement and type()-created); descriptor shapes whose descriptor TYPE
    only inherits __get__/__set__ (property subclass, subclass of a descriptor class);
  * container graph: dict/list/tuple nested two deep, instances, SimpleNamespace holding builtin
    values, functions, classes, instances of type()-created classes: every attribute/index
    path up to the tier's length.
Oracle:
  safe   -> no counter of a property getter, __get__, __getitem__, __iter__, __next__, __call__,
            __len__, __bool__ moves during any query (the innermost jedi frame is recorded);
  both   -> names completed after `<plain path>.` are a superset of dir(live object);
            infer on a path of plain attributes / builtin-container items names the class of the
            object CPython finds there (plainness decided by inspect.getattr_static).
"""
import inspect
import os
import sys
import types

from .. import boot, canon, pool
from .. import c13_cat as cat

ID = 'C13'
BUDGET = {'quick': 900, 'thorough': 3600}

# __missing__ is reached through the item access of a (builtin) dict type: it is the user's
# item-access code, judged like __getitem__ (stdlib-container family)
JUDGED = cat.JUDGED_KINDS + ('__missing__',)

# --------------------------------------------------------------------------------------------
# extra graphs: builtin-container subclasses (type(obj) is not a builtin container any more)
# --------------------------------------------------------------------------------------------
SUBCLASS_SOURCE = cat.PRELUDE + '''

class LSub(list):
    def __getitem__(self, index):
        _hit('__getitem__/LSub')
        return list.__getitem__(self, index)

    def __iter__(self):
        _hit('__iter__/LSub')
        return list.__iter__(self)

    def __len__(self):
        _hit('__len__/LSub')
        return list.__len__(self)


class TSub(tuple):
    def __getitem__(self, index):
        _hit('__getitem__/TSub')
        return tuple.__getitem__(self, index)

    def __iter__(self):
        _hit('__iter__/TSub')
        return tuple.__iter__(self)

    def __len__(self):
        _hit('__len__/TSub')
        return tuple.__len__(self)


class DSub(dict):
    def __getitem__(self, index):
        _hit('__getitem__/DSub')
        return dict.__getitem__(self, index)

    def __iter__(self):
        _hit('__iter__/DSub')
        return dict.__iter__(self)

    def __len__(self):
        _hit('__len__/DSub')
        return dict.__len__(self)

    def __bool__(self):
        _hit('__bool__/DSub')
        return True


class SSub(str):
    def __getitem__(self, index):
        _hit('__getitem__/SSub')
        return str.__getitem__(self, index)

    def __iter__(self):
        _hit('__iter__/SSub')
        return str.__iter__(self)

    def __len__(self):
        _hit('__len__/SSub')
        return str.__len__(self)


lsub = LSub([Leaf(), 's'])
tsub = TSub((Leaf(), 's'))
dsub = DSub({'k': Leaf(), 0: 's'})
ssub = SSub('ab')
box = [lsub, tsub, dsub, ssub]
unk = None
'''


# --------------------------------------------------------------------------------------------
# stdlib containers whose item access can run user code or change the container
# --------------------------------------------------------------------------------------------
STD_SOURCE = cat.PRELUDE + '''
import collections as _c


class Factory:
    def __call__(self):
        _hit('__call__/Factory')
        return Leaf()


def ffn():
    _hit('__call__/ffn')
    return Leaf()


class CDict(dict):
    def __getitem__(self, key):
        _hit('__getitem__/CDict')
        return dict.__getitem__(self, key)


class MDict(dict):
    def __missing__(self, key):
        _hit('__missing__/MDict')
        return Leaf()


class UD(_c.UserDict):
    def __getitem__(self, key):
        _hit('__getitem__/UD')
        return self.data[key]


class UL(_c.UserList):
    def __getitem__(self, index):
        _hit('__getitem__/UL')
        return self.data[index]


class Holder:
    pass


def _items():
    return [('k', Leaf()), (0, 's')]


_back = CDict(_items())
ddobj = _c.defaultdict(Factory(), _items())
ddfn = _c.defaultdict(ffn, _items())
od = _c.OrderedDict(_items())
dq = _c.deque([Leaf(), 's'])
cm = _c.ChainMap(CDict(_items()))
ud = UD(dict(_items()))
ul = UL([Leaf(), 's'])
mp = _types.MappingProxyType(_back)
md = MDict(_items())
_ALL = dict(ddobj=ddobj, ddfn=ddfn, od=od, dq=dq, cm=cm, ud=ud, ul=ul, mp=mp, md=md)
holder = Holder()
for _n, _o in _ALL.items():
    setattr(holder, _n, _o)
nest = {'d': dict(_ALL), 'l': list(_ALL.values())}


def _raw(o):
    """The storage behind a container, reached with builtin methods only."""
    if isinstance(o, _c.ChainMap):
        return o.maps[0]
    if isinstance(o, (_c.UserDict, _c.UserList)):
        return o.data
    if isinstance(o, _types.MappingProxyType):
        return _back
    return o


def _state():
    out = {}
    for n, o in _ALL.items():
        r = _raw(o)
        if isinstance(r, dict):
            out[n] = sorted(repr(k) for k in dict.keys(r))
        else:
            out[n] = [type(x).__name__ for x in (list.__iter__(r) if isinstance(r, list)
                                                 else _c.deque.__iter__(r))]
    return out


def _restore():
    for n, o in _ALL.items():
        r = _raw(o)
        if isinstance(r, dict):
            for k in [k for k in dict.keys(r) if k not in ('k', 0)]:
                dict.__delitem__(r, k)
'''
STD_NAMES = ['ddobj', 'ddfn', 'od', 'dq', 'cm', 'ud', 'ul', 'mp', 'md']
STD_SUBSCRIPTS = [('k', "['k']"), ('0', '[0]'), ('absent', "['absent']"), ('7', '[7]'),
                  ('-1', '[-1]'), ('unk', '[unk2_]')]
STD_OTHER = [('self', '{T}'), ('list0', 'list({T})[0]'), ('len', 'len({T})'),
             ('not', '(not {T})'), ('absent.leafattr', "{T}['absent'].leafattr")]
STD_STMTS = [('for', 'for v_ in {T}:\n    pass\n'), ('unpack', 'v_, w_ = {T}\n'),
             ('assign-absent', "v_ = {T}['absent']\n"), ('assign-7', 'v_ = {T}[7]\n')]


def std_queries(name, variant):
    """-> [(query, run it in unsafe mode too?)] for one stdlib container."""
    roots = [('direct', name), ('attr', 'holder.' + name)]
    if variant == 'exec':
        roots += [('ind', "nest['d']['%s']" % name),
                  ('inl', "nest['l'][%d]" % STD_NAMES.index(name))]
    out = []

    def add(qid, code, method, live=False):
        out.append(({'id': qid, 'code': code, 'method': method, 'kw': {}, 'deep': False,
                     'head': False}, live))

    for rid, T in roots:
        for eid, suffix in STD_SUBSCRIPTS:
            e = T + suffix
            add('%s|%s|complete' % (rid, eid), e + '.', 'complete', live=rid == 'direct')
            add('%s|%s|infer' % (rid, eid), e, 'infer')
            if eid in ('absent', '7'):
                add('%s|%s|goto' % (rid, eid), 'v_ = %s\nv_' % e, 'goto')
                add('%s|%s|help' % (rid, eid), 'v_ = %s\nv_' % e, 'help')
        for eid, fmt in STD_OTHER:
            e = fmt.format(T=T)
            add('%s|%s|complete' % (rid, eid), e + '.', 'complete')
            add('%s|%s|infer' % (rid, eid), e, 'infer')
        for sid, fmt in STD_STMTS:
            code = fmt.format(T=T)
            add('%s|s:%s|complete' % (rid, sid), code + 'v_.', 'complete')
            add('%s|s:%s|infer' % (rid, sid), code + 'v_', 'infer')
    return out


def _work_std(task, fails, stats, only):
    """One stdlib container: counters as before + the live containers keep their content."""
    graph = cat.build(STD_SOURCE, task['variant'],
                      os.path.join(boot.scratch_root(), 'c13mods-%d' % os.getpid()))
    ns = graph.namespace()
    mod = graph.module
    name = task['name']
    qs = std_queries(name, task['variant'])
    interesting = {'leafattr', 'keys', 'append'}
    for unsafe in (False, True):
        for q, live in qs:
            if unsafe and (not live or only):
                continue        # unsafe mode: only to show that the routes are live
            if only and [q['id'], unsafe] != list(only):
                continue
            before = mod._state()
            oracle = None
            if q['id'] == 'direct|self|complete':
                oracle = _oracle_for('dir', name, ns)
            _check(graph, ns, q, unsafe, interesting, fails, stats, oracle)
            after = mod._state()
            if after != before:
                changed = sorted(n for n in after if after[n] != before[n])
                mod._restore()
                _bump(stats['mutations_unsafe' if unsafe else 'mutations_safe'], changed[0])
                if not unsafe:
                    fails.append({'site': 'state-mutated:%s' % '+'.join(changed), 'q': q,
                                  'unsafe': False,
                                  'detail': {'code': q['code'], 'method': q['method'],
                                             'mode': 'safe',
                                             'before': {n: before[n] for n in changed},
                                             'after': {n: after[n] for n in changed},
                                             'expected': 'the live namespace objects keep '
                                                         'their content in safe mode'}})
    return len(qs)


# --------------------------------------------------------------------------------------------
# dict-key completion inside subscript brackets: name['  name["al  box[0]['  ...
# --------------------------------------------------------------------------------------------
KEYS_SOURCE = cat.PRELUDE + '''
import collections as _c


class KIter:
    def __init__(self, it):
        self.it = it

    def __iter__(self):
        _hit('__iter__/KIter')
        return self

    def __next__(self):
        _hit('__next__/KIter')
        return next(self.it)


def _k_iter(self):
    _hit('__iter__/' + type(self).__name__)
    return KIter(dict.__iter__(self))


def _k_keys(self):
    _hit('keys/' + type(self).__name__)
    return dict.keys(self)


def _k_getitem(self, key):
    _hit('__getitem__/' + type(self).__name__)
    return dict.__getitem__(self, key)


def _k_len(self):
    _hit('__len__/' + type(self).__name__)
    return dict.__len__(self)


def _k_contains(self, key):
    _hit('__contains__/' + type(self).__name__)
    return dict.__contains__(self, key)


class KDict(dict):
    __iter__ = _k_iter
    keys = _k_keys
    __getitem__ = _k_getitem
    __len__ = _k_len
    __contains__ = _k_contains


class IDict(dict):
    def __iter__(self):
        _hit('__iter__/IDict')
        return KIter(dict.__iter__(self))


class GDict(dict):
    def __getitem__(self, key):
        _hit('__getitem__/GDict')
        return dict.__getitem__(self, key)

    def __len__(self):
        _hit('__len__/GDict')
        return dict.__len__(self)

    def __contains__(self, key):
        _hit('__contains__/GDict')
        return dict.__contains__(self, key)


class KODict(_c.OrderedDict):
    __iter__ = _k_iter


KDyn = type('KDyn', (dict,), {'__iter__': _k_iter, 'keys': _k_keys, '__getitem__': _k_getitem,
                              '__len__': _k_len, '__contains__': _k_contains})
IDyn = type('IDyn', (dict,), {'__iter__': _k_iter})


class Holder:
    pass


def _content():
    return {'alpha': Leaf(), 'beta': 1, 'al pha': 's', 3: 2.5}


def _factory():
    _hit('__call__/_factory')
    return Leaf()


plaind = _content()
kd = KDict(_content())
idict = IDict(_content())
gd = GDict(_content())
kod = KODict(_content())
kdyn = KDyn(_content())
idyn = IDyn(_content())
od = _c.OrderedDict(_content())
dd = _c.defaultdict(_factory, _content())
_ALL = dict(plaind=plaind, kd=kd, idict=idict, gd=gd, kod=kod, kdyn=kdyn, idyn=idyn, od=od,
            dd=dd)
holder = Holder()
for _n, _o in _ALL.items():
    setattr(holder, _n, _o)
box = list(_ALL.values())
nest = {'d': dict(_ALL)}


def _state():
    return {n: sorted(repr(k) for k in dict.keys(o)) for n, o in _ALL.items()}
'''
KEYS_NAMES = ['plaind', 'kd', 'idict', 'gd', 'kod', 'kdyn', 'idyn', 'od', 'dd']
# (id, text typed after the object expression, cursor offset from the end of that text)
KEYS_TAILS = [("['", "['", 0), ('["al', '["al', 0), ("['alpha", "['alpha", 0), ('[', '[', 0),
              ("['be", "['be", 0), ("['al']", "['al']", -2), ("['']", "['']", -2),
              ('[3', '[3', 0), ("['alpha'][", "['alpha'][", 0)]


def keys_queries(name, tier):
    roots = [('direct', name), ('attr', 'holder.' + name),
             ('inl', 'box[%d]' % KEYS_NAMES.index(name)), ('ind', "nest['d']['%s']" % name),
             ('var', None)]
    out = []
    for rid, T in roots:
        for tid, tail, off in KEYS_TAILS:
            if tier == 'quick' and rid != 'direct' and tid not in ("['", '["al', "['al']"):
                continue        # every tail on the direct name, the main ones elsewhere
            code = ('v_ = %s\nv_' % name if T is None else T) + tail
            line, col = _end(code)
            methods = [('complete', {})]
            if tier == 'thorough' or rid == 'direct':
                methods += [('complete', {'fuzzy': True}), ('infer', {}), ('goto', {}),
                            ('help', {}), ('get_signatures', {})]
            for m, kw in methods:
                out.append({'id': '%s|%s|%s%s' % (rid, tid, m, _kwid(kw)), 'code': code,
                            'method': m, 'kw': kw, 'pos': [line, col + off], 'deep': False,
                            'head': rid == 'direct' and m == 'complete' and not kw})
    return out


def _work_keys(task, fails, stats, only):
    """Key completion on one dict-like object: counters + unchanged content."""
    graph = cat.build(KEYS_SOURCE, task['variant'],
                      os.path.join(boot.scratch_root(), 'c13mods-%d' % os.getpid()))
    ns = graph.namespace()
    qs = keys_queries(task['name'], task['tier'])
    for unsafe in (False, True):
        for q in qs:
            if unsafe and (not q['head'] or only):
                continue
            if only and [q['id'], unsafe] != list(only):
                continue
            before = graph.module._state()
            r = _check(graph, ns, q, unsafe, {'alpha', 'beta'}, fails, stats)
            if q['method'] == 'complete' and r['names']:
                _bump(stats['key_completions'], task['name'], len(r['names']))
            after = graph.module._state()
            if after != before and not unsafe:
                changed = sorted(n for n in after if after[n] != before[n])
                fails.append({'site': 'state-mutated:%s' % '+'.join(changed), 'q': q,
                              'unsafe': False,
                              'detail': {'code': q['code'], 'method': q['method'],
                                         'pos': q['pos'], 'mode': 'safe',
                                         'before': {n: before[n] for n in changed},
                                         'after': {n: after[n] for n in changed},
                                         'expected': 'live content unchanged in safe mode'}})
    return len(qs)


# --------------------------------------------------------------------------------------------
# histories: the class is changed between two queries of one process
# --------------------------------------------------------------------------------------------
HIST_SOURCE = cat.PRELUDE + '''

def make(feature, key):
    if feature == 'P':
        def getter(self):
            _hit('property/' + key)
            return Leaf()
        return property(getter)
    if feature == 'ND':
        return NDesc('__get__/' + key)
    return DDesc('__get__/' + key)


class MetaBase(type):
    pass


class Meta(MetaBase):
    pass


class Base(metaclass=Meta):
    baseattr = 2.5


class C(Base):
    plain = 1

    def __init__(self):
        self.ia = Leaf()


obj = C()
'''
HIST_FEATURES = ['P', 'ND', 'DD']
HIST_PLACES = {'cls': 'C', 'base': 'Base', 'meta': 'Meta', 'metabase': 'MetaBase'}
HIST_KINDS = ['replace', 'add', 'reverse']
HIST_FIRST = [('complete', '{R}.'), ('infer', '{R}.att'), ('goto', '{R}.att'),
              ('help', '{R}.att')]


def _hist_step3(R):
    """(query, oracle kind, oracle expression) asked after the mutation, safe mode."""
    def q(qid, code, method, deep=False):
        return {'id': qid, 'code': code, 'method': method, 'kw': {}, 'deep': deep, 'head': False}
    return [(q('complete', R + '.', 'complete', True), 'dir', R),
            (q('att|complete', R + '.att.', 'complete'), None, None),
            (q('att|infer', R + '.att', 'infer', True), 'class', R + '.att'),
            (q('att|goto', R + '.att', 'goto', True), None, None),
            (q('att|help', R + '.att', 'help', True), None, None),
            (q('att|v:infer', 'v_ = %s.att\nv_' % R, 'infer'), 'class', R + '.att'),
            (q('att|sig', R + '.att(', 'get_signatures'), None, None),
            (q('att|getattr', "getattr(%s, 'att')." % R, 'complete'), None, None),
            (q('plain|infer', R + '.plain', 'infer'), 'class', R + '.plain')]


def _hist_oracle(kind, expr, ns):
    """The oracle applies to `expr` only while it is a plain path (decided by CPython)."""
    if kind is None:
        return None
    if kind == 'class':
        root, _dot, name = expr.partition('.')
        ok, _live = _is_plain_attr(ns[root], name)
        if not ok:
            return None
    return _oracle_for(kind, expr, ns)


def _work_hist(task, fails, stats, only):
    """All histories of one (descriptor kind, placement, variant)."""
    f, place, variant = task['feature'], task['place'], task['variant']
    R = 'C' if place in ('meta', 'metabase') else 'obj'
    key = '%s@%s' % (f, place)
    n = 0
    for kind in HIST_KINDS:
        for method, fmt in HIST_FIRST:
            hid = 'h:%s:%s' % (kind, method)
            if only and not only[0].startswith(hid + '|'):
                continue
            graph = cat.build(HIST_SOURCE, variant,
                              os.path.join(boot.scratch_root(), 'c13mods-%d' % os.getpid()))
            ns = graph.namespace()
            target = ns[HIST_PLACES[place]]
            # initial state
            if kind == 'replace':
                setattr(target, 'att', 1)
            elif kind == 'reverse':
                setattr(target, 'att', ns['make'](f, key))
            n += 1
            # step 1: one query while the class is in its first state
            q1 = {'id': '%s|1' % hid, 'code': fmt.format(R=R), 'method': method, 'kw': {},
                  'deep': True, 'head': False}
            okind = {'complete': 'dir', 'infer': 'class'}.get(method)
            mine = []
            _check(graph, ns, q1, False, {'att'}, mine, stats,
                   _hist_oracle(okind, R if okind == 'dir' else R + '.att', ns))
            # step 2: the user monkeypatches the class
            if kind in ('replace', 'add'):
                setattr(target, 'att', ns['make'](f, key))
            else:
                setattr(target, 'att', 'live')
            # step 3: everything again, new Interpreters
            for unsafe in (False, True):
                for q, okind, oexpr in _hist_step3(R):
                    if unsafe and okind is None:
                        continue
                    q = dict(q, id='%s|3|%s' % (hid, q['id']))
                    if only and [q['id'], unsafe] != list(only):
                        continue
                    _check(graph, ns, q, unsafe, {'att'}, mine, stats,
                           _hist_oracle(okind, oexpr, ns))
            fails += [x for x in mine if not only
                      or [x['q']['id'], x['unsafe']] == list(only)]
    stats['histories'] = stats.get('histories', 0) + n
    return n


# --------------------------------------------------------------------------------------------
# expressions
# --------------------------------------------------------------------------------------------
FEATURE_ATTRS = {'P': ['prop'], 'ND': ['nd'], 'DD': ['dd'], 'SL': ['sl'], 'MP': ['mp'],
                 'GA': ['dyn', '__getattr__'], 'GAT': ['__getattribute__'],
                 'GI': ['__getitem__'], 'IT': ['__iter__', '__next__'], 'CA': ['__call__'],
                 'LE': ['__len__'], 'BO': ['__bool__']}
# which expression groups exercise a feature (the "relevant" selection of the quick tier)
FEATURE_GROUPS = {'P': ['attr:prop'], 'ND': ['attr:nd'], 'DD': ['attr:dd'], 'SL': ['attr:sl'],
                  'MP': ['attr:mp'], 'GA': ['attr:dyn'], 'GAT': [], 'GI': ['item', 'iter'],
                  'IT': ['iter'], 'CA': ['call'], 'LE': ['len', 'bool', 'iter'], 'BO': ['bool']}
CORE_ATTRS = ['plain', 'ia', 'meth', 'nonexist_', '__class__']
MISC_ATTRS = ['mut', 'pcont', 'icont', 'baseattr', '__dict__']

# value expressions: (id, group, format, head)   head = gets the full battery in relevant mode
VALS = [
    ('self', 'core', '{T}', True), ('type', 'core', 'type({T})', False),
    ('[0]', 'item', '{T}[0]', True), ('idxk', 'item', "{T}['k']", False),
    ('idxu', 'item', '{T}[unk2_]', False), ('idxn', 'item', '{T}[-1]', False),
    ('slice', 'item', '{T}[0:1]', False), ('[0].leafattr', 'item', '{T}[0].leafattr', False),
    ('[0][0]', 'item', '{T}[0][0]', False), ('[0]()', 'item', '{T}[0]()', False),
    ('()', 'call', '{T}()', True), ('call1', 'call', '{T}(1)', False),
    ('()()', 'call', '{T}()()', False), ('().leafattr', 'call', '{T}().leafattr', False),
    ('()[0]', 'call', '{T}()[0]', False),
    ('next', 'iter', 'next({T})', False), ('iter', 'iter', 'iter({T})', False),
    ('list', 'iter', 'list({T})', False), ('list0', 'iter', 'list({T})[0]', False),
    ('tuple', 'iter', 'tuple({T})', False), ('comp', 'iter', '[x_ for x_ in {T}][0]', False),
    ('star', 'iter', '[*{T}][0]', False), ('sorted', 'iter', 'sorted({T})', False),
    ('reversed', 'iter', 'reversed({T})', False), ('enumerate', 'iter', 'enumerate({T})', False),
    ('zip', 'iter', 'zip({T})', False), ('dict', 'iter', 'dict({T})', False),
    ('set', 'iter', 'set({T})', False), ('min', 'iter', 'min({T})', False),
    ('any', 'iter', 'any({T})', False), ('in', 'iter', '(1 in {T})', False),
    ('len', 'len', 'len({T})', True),
    ('bool', 'bool', 'bool({T})', False), ('not', 'bool', '(not {T})', True),
    ('and', 'bool', '({T} and 1)', False), ('or', 'bool', '({T} or 1)', False),
    ('ifexp', 'bool', "(1 if {T} else '')", False),
    ('neg', 'misc', '(-{T})', False), ('eq', 'misc', '({T} == {T})', False),
    ('add', 'misc', '({T} + {T})', False), ('isinst', 'misc', 'isinstance({T}, int)', False),
    ('str', 'misc', 'str({T})', False), ('repr', 'misc', 'repr({T})', False),
    ('fstr', 'misc', "f'{{{T}}}'", False), ('dictkey', 'misc', '{{1: 2}}[{T}]', False),
    ('listidx', 'misc', '[1, ""][{T}]', False)]

STMTS = [('for', 'iter', 'for v_ in {T}:\n    pass\n', True),
         ('for2', 'iter', 'for v_, w_ in {T}:\n    pass\n', False),
         ('unpack', 'iter', 'v_, w_ = {T}\n', False),
         ('starunpack', 'iter', 'v_, *w_ = {T}\n', False),
         ('starargs', 'iter', 'def f_(*a):\n    return a\nv_ = f_(*{T})\n', False),
         ('kwargs', 'iter', 'def g_(**k):\n    return k\nv_ = g_(**{T})\n', False),
         ('dictunpack', 'iter', 'v_ = {{**{T}}}\n', False),
         ('yieldfrom', 'iter', 'def h_():\n    yield from {T}\nv_ = list(h_())[0]\n', False),
         ('genexp', 'iter', 'v_ = next(x_ for x_ in {T})\n', False),
         ('dictcomp', 'iter', 'v_ = {{x_: 1 for x_ in {T}}}\n', False),
         ('if', 'bool', 'if {T}:\n    v_ = 1\nelse:\n    v_ = ""\n', True),
         ('ifnot', 'bool', 'if not {T}:\n    v_ = 1\nelse:\n    v_ = ""\n', False),
         ('while', 'bool', 'while {T}:\n    v_ = 1\n    break\n', False),
         ('assert', 'bool', 'assert {T}\nv_ = {T}\n', False),
         ('flowret', 'bool', 'def r_():\n    if {T}:\n        return 1\n    return ""\nv_ = r_()\n',
          False),
         ('iflen', 'len', 'if len({T}):\n    v_ = 1\nelse:\n    v_ = ""\n', False),
         ('param', 'len', 'def p_(a=len({T})):\n    return a\nv_ = p_()\n', False),
         ('with', 'misc', 'with {T} as v_:\n    pass\n', False)]

# (method, kwargs) batteries.  Every query is asked at the end of its code.
B_FULL = [('infer', {}), ('goto', {'follow_imports': True}), ('help', {}),
          ('get_references', {'scope': 'file'}), ('get_context', {})]
B_THOROUGH_EXTRA = [('infer', {'prefer_stubs': True}), ('infer', {'only_stubs': True}),
                    ('goto', {}), ('goto', {'only_stubs': True}),
                    ('get_references', {})]


def _end(code):
    lines = code.split('\n')
    return len(lines), len(lines[-1])


def _shape_attrs(shape):
    attrs = CORE_ATTRS + MISC_ATTRS
    for f, _p in shape:
        for a in FEATURE_ATTRS[f]:
            if a not in attrs:
                attrs.append(a)
    return attrs


def _attr_exprs(a, group, head):
    return [('.' + a, group, '{T}.' + a, head),
            ('getattr:' + a, group, "getattr({T}, '%s')" % a, False),
            ('.%s.leafattr' % a, group, '{T}.%s.leafattr' % a, False),
            ('.%s[0]' % a, group, '{T}.%s[0]' % a, False),
            ('.%s()' % a, group, '{T}.%s()' % a, False)]


def _step_alphabet(shape):
    steps = ['[0]', '()', '.ia', '.leafattr']
    for f, _p in shape:
        for a in FEATURE_ATTRS[f]:
            if not a.startswith('__') and '.' + a not in steps:
                steps.append('.' + a)
    return steps


def _seqs(steps, maxlen):
    level = ['']
    for _ in range(maxlen):
        level = [p + s for p in level for s in steps]
        yield from level


def shape_expressions(shape, full, seqlen=2):
    """-> (value expressions, statements) of a shape; `full` = every template, otherwise the
    core ones and the groups exercising the shape's features."""
    groups = {'core'}
    for f, _p in shape:
        groups.update(FEATURE_GROUPS[f])
    vals = []
    for a in CORE_ATTRS:
        vals += _attr_exprs(a, 'core', False)[:1 if not full else 5]
    for f, _p in shape:
        for a in FEATURE_ATTRS[f]:
            if a.startswith('__'):
                if full:
                    vals += _attr_exprs(a, 'misc', False)[:2]
            else:
                vals += _attr_exprs(a, 'attr:' + a, True)
    if full:
        for a in MISC_ATTRS:
            vals += _attr_exprs(a, 'misc', False)[:2]
    vals += [v for v in VALS if full or v[1] in groups]
    if full:
        have = {v[2] for v in vals}
        for seq in _seqs(_step_alphabet(shape), seqlen):
            if '{T}' + seq not in have:
                vals.append((seq, 'seq', '{T}' + seq, False))
    stmts = [st for st in STMTS if full or st[1] in groups]
    return vals, stmts


ROOT_KIND = {'obj': 'obj', 'box0': 'obj', 'holdo': 'obj', 'C': 'C', 'box1': 'C', 'holdc': 'C'}


def own_kinds(shape):
    """The root kinds on which the shape's members are visible: the instance for members of
    the class/base, the class for members of the metaclass."""
    return {'C' if (p == 'meta' or f == 'MP') else 'obj' for f, p in shape} or {'obj', 'C'}


def shape_queries(shape, tier, roots, full=False, battery='L2', side_battery='L1', seqlen=2,
                  other=None, side_other=None, own=None, seq_only=False):
    """-> list of query dicts {id, code, method, kw, deep, head} for one shape (no mode).

    Batteries: 'L1' complete; 'L2' + infer; 'B' = L2 and the method battery with deep result
    touching on the head expressions.  `battery` is for the main roots (obj, C) of the shape's
    own kind, `other` for the other main root, `side_battery`/`side_other` for the roots reached
    through a list / a SimpleNamespace.  None = the root is skipped."""
    vals, stmts = shape_expressions(shape, full, seqlen)
    if seq_only:        # only the step sequences of exactly `seqlen` steps
        n = seqlen
        vals = [v for v in vals if v[1] == 'seq'
                and v[0].count('.') + v[0].count('[') + v[0].count('(') == n]
        stmts = []
    out = []
    own = own_kinds(shape) if own is None else own
    if other is None:
        other = battery
    if side_other is None:
        side_other = side_battery

    def add(qid, code, method, kw=None, deep=False, head=False):
        out.append({'id': qid, 'code': code, 'method': method, 'kw': kw or {}, 'deep': deep,
                    'head': head})

    for rname, T in roots:
        mine = rname not in ROOT_KIND or ROOT_KIND[rname] in own
        if rname.startswith(('box', 'hold')):
            bat = side_battery if mine else side_other
        else:
            bat = battery if mine else other
        if bat in (None, 'skip'):
            continue
        for eid, _group, fmt, head in vals:
            e = fmt.format(T=T)
            eid = '%s|%s' % (rname, eid)
            big = bat == 'BA' or (bat == 'B' and head)
            add(eid + '|complete', e + '.', 'complete', deep=big, head=head)
            if bat != 'L1':
                add(eid + '|infer@', e, 'infer', deep=big)
            if not big:
                continue
            var = 'v_ = %s\nv_' % e
            for m, kw in B_FULL + (B_THOROUGH_EXTRA if tier == 'thorough' else []):
                add('%s|v:%s%s' % (eid, m, _kwid(kw)), var, m, kw, deep=True)
            add(eid + '|sig', e + '(', 'get_signatures', deep=True)
            add(eid + '|names', var + '.', 'get_names', {'all_scopes': True, 'references': True},
                deep=True)
            if tier == 'thorough':
                add(eid + '|cfuzzy', e + '.', 'complete', {'fuzzy': True})
                add(eid + '|search', var, 'search', {'string': 'v_'})
                add(eid + '|csearch', var, 'complete_search', {'string': 'v_'})
                add(eid + '|rename', var, 'rename', {'new_name': 'zz_'})
                add(eid + '|inline', var, 'inline', {})
                add(eid + '|extract', e, 'extract_variable', {'new_name': 'zz_'})
        for sid, _group, fmt, head in stmts:
            code = fmt.format(T=T)
            sid = '%s|s:%s' % (rname, sid)
            big = bat == 'BA' or (bat == 'B' and head)
            add(sid + '|complete', code + 'v_.', 'complete', deep=big, head=head)
            if bat != 'L1':
                add(sid + '|infer', code + 'v_', 'infer', deep=big)
            if big:
                for m, kw in B_FULL[1:]:
                    add('%s|%s%s' % (sid, m, _kwid(kw)), code + 'v_', m, kw, deep=True)
                add(sid + '|names', code + 'v_', 'get_names',
                    {'all_scopes': True, 'references': True}, deep=True)
    return out


def _kwid(kw):
    return '' if not kw else '(' + ','.join('%s=%s' % kv for kv in sorted(kw.items())) + ')'


SHAPE_ROOTS = [('obj', 'obj'), ('C', 'C'), ('box0', 'box[0]'), ('box1', 'box[1]'),
               ('holdo', 'hold.o'), ('holdc', 'hold.c')]
SUB_ROOTS = [('lsub', 'lsub'), ('tsub', 'tsub'), ('dsub', 'dsub'), ('ssub', 'ssub'),
             ('boxl', 'box[0]'), ('boxt', 'box[1]'), ('boxd', 'box[2]'), ('boxs', 'box[3]')]


# --------------------------------------------------------------------------------------------
# plain paths (the differential part: CPython decides what is stored where)
# --------------------------------------------------------------------------------------------
def _is_plain_attr(o, name):
    """The attribute is found without any descriptor/dynamic protocol (CPython's own static
    lookup, not jedi's) and plain getattr agrees with it."""
    try:
        static = inspect.getattr_static(o, name)
    except AttributeError:
        return False, None
    slot = isinstance(static, types.MemberDescriptorType) and not inspect.isclass(o)
    if not slot and hasattr(type(static), '__get__'):
        return False, None      # (a slot of an instance is storage, not a user descriptor)
    try:
        live = getattr(o, name)
    except Exception:
        return False, None
    if not slot and live is not static:
        return False, None
    return True, live


def _plain_children(o):
    """-> [(step text, child)] for the steps the property speaks about."""
    t = type(o)
    if t is dict:
        return [('[%r]' % (k,), v) for k, v in o.items() if type(k) in (str, int)]
    if t in (list, tuple):
        ch = [('[%d]' % i, v) for i, v in enumerate(o)]
        if o:
            ch.append(('[-1]', o[-1]))
        return ch
    if t in (str, bytes, int, float, bool, complex, type(None)) or inspect.isroutine(o):
        return []
    names = []
    try:
        names += list(vars(o))
    except TypeError:
        pass
    klasses = o.__mro__ if inspect.isclass(o) else type(o).__mro__
    for k in klasses:
        if k.__module__ == 'builtins':
            continue
        names += [n for n in vars(k) if not n.startswith('__')]
    ch = []
    for n in dict.fromkeys(names):
        ok, live = _is_plain_attr(o, n)
        if ok and n.isidentifier() and not n.startswith('_'):
            ch.append(('.' + n, live))
    return ch


def plain_paths(ns, roots, maxlen):
    """All (expression, live object) reachable from `roots` by <= maxlen plain steps."""
    out = []
    for r in roots:
        frontier = [(r, ns[r])]
        out += frontier         # the namespace entry itself: `obj.` must offer dir(obj)
        for _ in range(maxlen):
            nxt = []
            for e, o in frontier:
                for step, child in _plain_children(o):
                    nxt.append((e + step, child))
            out += nxt
            frontier = nxt
    return out


def expected_names(o):
    """-> acceptable Name.name values.  For an instance the property's sentence is literal:
    type(o).__name__.  jedi names a class/function/module object by its own __name__ (infer on
    `int` says `int`, not `type`); the literal reading type(o).__name__ is accepted as well.
    Name.type is recorded, not judged (the property speaks about the class only)."""
    if inspect.isclass(o) or inspect.isroutine(o) or inspect.ismodule(o):
        return sorted({o.__name__, type(o).__name__})
    return [type(o).__name__]


# --------------------------------------------------------------------------------------------
# worker
# --------------------------------------------------------------------------------------------
_state = {}


def _init():
    boot.boot()


def _project():
    jedi = boot.boot()
    if 'project' not in _state:
        root = os.path.join(boot.scratch_root(), 'c13proj-%d' % os.getpid())
        os.makedirs(os.path.join(root, 'q'), exist_ok=True)
        _state['root'] = root
        _state['project'] = jedi.Project(root, smart_sys_path=False)
        _state['n'] = 0
    return _state['project']


def _jedi_site():
    f = sys._getframe(3)
    while f is not None:
        fn = os.path.abspath(f.f_code.co_filename)
        if fn.startswith(canon.REPO_JEDI):
            mod = fn[len(canon.REPO_JEDI):].rsplit('.', 1)[0].replace(os.sep, '.')
            return 'jedi.%s.%s' % (mod, f.f_code.co_name)
        f = f.f_back
    return 'outside-jedi'


LIGHT_ATTRS = ('name', 'type', 'complete', 'name_with_symbols')
MEDIUM_ATTRS = ('name', 'type', 'description', 'full_name', 'module_name', 'line', 'column')
_DEFINED_NAMES_OF = ('C', 'Leaf', 'Meta', 'LSub', 'DSub', 'K', 'Dyn')


def _touch_name(r, defined_names=False):
    """Every documented attribute of a result (canon.touch_name without its most expensive
    member, defined_names(), which is only asked for results naming the graph's own objects)."""
    for a in canon.NAME_ATTRS:
        getattr(r, a)
    r.module_path
    r.in_builtin_module()
    r.get_definition_start_position()
    r.get_definition_end_position()
    r.is_stub()
    r.is_side_effect()
    r.get_line_code()
    repr(r)
    r.docstring()
    r.docstring(raw=True)
    r.docstring(fast=False)
    r.get_type_hint()
    for s in r.get_signatures():
        canon.sig_core(s)
    r.parent()
    r.goto()
    r.goto(follow_imports=True, follow_builtin_imports=True)
    for x in r.infer():
        x.name, x.type, x.description
    r.infer(prefer_stubs=True)
    r.execute()
    if hasattr(r, 'is_definition'):
        r.is_definition()
    if hasattr(r, 'complete'):
        r.complete, r.name_with_symbols, r.get_completion_prefix_length()
    if defined_names and hasattr(r, 'defined_names'):
        for x in r.defined_names()[:60]:
            x.name, x.type


def _touch(method, res, interesting, deep, defined_names=False):
    """Use the results the way a REPL front end does; returns exceptions met (C01's subject).

    light: name/type/complete of every completion, the cheap attributes + docstring of other
    results.  deep: additionally every documented attribute/method of the completions naming
    the graph's own members (and the first two), resp. of the first 5 + last 2 other results."""
    excs = []

    def guarded(f, *a, **k):
        try:
            f(*a, **k)
        except Exception as e:
            excs.append(canon.exc_site(e))

    if method in ('rename', 'inline', 'extract_variable', 'extract_function'):
        guarded(lambda: (res.get_changed_files(), res.get_diff()))
        return excs
    if method == 'get_context':
        res = [res]
    res = list(res)
    if method == 'get_signatures':
        for r in res:
            guarded(canon.sig_core, r)
            for p in r.params:
                guarded(p.infer_default)
                guarded(p.infer_annotation)
    if method in ('complete', 'complete_search'):
        for r in res:
            guarded(lambda: [getattr(r, a) for a in LIGHT_ATTRS])
        chosen = [r for r in res if r.name in interesting][:10] + res[:2]
    else:
        chosen = canon.cap(res)
        for r in chosen:
            guarded(lambda: [getattr(r, a) for a in MEDIUM_ATTRS])
            guarded(r.docstring)
    if deep:
        for r in chosen:
            guarded(_touch_name, r, defined_names and r.name in _DEFINED_NAMES_OF)
    return excs


def run_query(graph, ns, q, unsafe, interesting=()):
    """One query in a fresh Interpreter.  -> dict(names, hits, exc, touch_excs)."""
    jedi = boot.boot()
    from jedi import settings
    from jedi.api.exceptions import RefactoringError
    project = _project()
    _state['n'] += 1
    path = os.path.join(_state['root'], 'q', 'i%d_%d.py' % (os.getpid(), _state['n']))
    hits = []
    graph.reset()
    graph.set_trace(lambda key: hits.append((key, _jedi_site())))
    # the setting is read once, in Interpreter.__init__: own it around the whole case
    old = settings.allow_unsafe_interpreter_executions
    settings.allow_unsafe_interpreter_executions = bool(unsafe)
    out = {'names': None, 'exc': None, 'touch_excs': []}
    try:
        try:
            it = jedi.Interpreter(q['code'], [ns], path=path, project=project)
            m = q['method']
            line, col = q['pos'] if q.get('pos') else _end(q['code'])
            if m in ('get_names', 'search', 'complete_search'):
                res = list(getattr(it, m)(**q['kw']))
            elif m == 'extract_variable':
                res = it.extract_variable(line, 0, until_line=line, until_column=col, **q['kw'])
            else:
                res = getattr(it, m)(line, col, **q['kw'])
            if m in ('complete', 'infer', 'goto', 'help'):
                out['names'] = [[r.name, r.type] for r in res]
            out['touch_excs'] = _touch(m, res, interesting, q.get('deep', False),
                                       q['id'].endswith('|self|infer@'))
        except RefactoringError:
            pass
        except Exception as e:
            out['exc'] = {'site': canon.exc_site(e), 'tb': canon.short_tb(e)}
    finally:
        settings.allow_unsafe_interpreter_executions = old
        graph.set_trace(None)
    out['hits'] = hits
    return out


def _judge_hits(hits):
    """-> {(key, jedi site): n} for the judged kinds."""
    d = {}
    for key, site in hits:
        if key.split('/')[0] in JUDGED:
            d[(key, site)] = d.get((key, site), 0) + 1
    return d


def _bump(d, k, n=1):
    d[k] = d.get(k, 0) + n


def _check(graph, ns, q, unsafe, interesting, fails, stats, oracle=None):
    """Run q, apply the oracles.  oracle = None | {'dir': names} | {'class': names}."""
    r = run_query(graph, ns, q, unsafe, interesting)
    stats['queries'] += 1
    _bump(stats['by_method'], q['method'])
    for s in r['touch_excs']:
        _bump(stats['touch_excs'], s)
    if r['exc'] is not None and not oracle:
        _bump(stats['other_excs'], r['exc']['site'])
    for key, _site in r['hits']:
        _bump(stats['hits_unsafe' if unsafe else 'hits_safe'], key.split('/')[0])
    base = {'code': q['code'], 'method': q['method'], 'kw': q['kw'],
            'mode': 'unsafe' if unsafe else 'safe'}
    if not unsafe:
        for (key, site), n in sorted(_judge_hits(r['hits']).items()):
            fails.append({'site': 'safe-exec:%s@%s' % (key, site), 'q': q, 'unsafe': unsafe,
                          'detail': dict(base, counter=key, times=n, called_from=site,
                                         expected='counter stays 0 in safe mode')})
    if oracle:
        if r['exc'] is not None:
            fails.append({'site': r['exc']['site'], 'q': q, 'unsafe': unsafe,
                          'detail': dict(base, traceback=r['exc']['tb'],
                                         expected='no exception')})
            return r
        if 'dir' in oracle:
            stats['dir_checks'] += 1
            have = set(n for n, _t in r['names'])
            missing = sorted(set(oracle['dir']) - have)
            if missing:
                fails.append({'site': 'dir-missing@complete', 'q': q, 'unsafe': unsafe,
                              'detail': dict(base, missing=missing[:20], n_offered=len(have),
                                             n_dir=len(oracle['dir']),
                                             expected='completions superset of dir(object)')})
        if 'class' in oracle:
            stats['class_checks'] += 1
            names = oracle['class']
            got = sorted(set(map(tuple, r['names'])))
            if got and all(g[0] in names for g in got):
                for g in got:
                    _bump(stats['classes'], '%s/%s' % g)
            else:
                fails.append({'site': 'infer-class@infer', 'q': q, 'unsafe': unsafe,
                              'detail': dict(base, expected_name_one_of=names,
                                             observed=[list(g) for g in got])})
    return r


def _new_stats():
    return {'queries': 0, 'by_method': {}, 'touch_excs': {}, 'other_excs': {}, 'hits_safe': {},
            'hits_unsafe': {}, 'dir_checks': 0, 'class_checks': 0, 'classes': {},
            'plain_paths': 0, 'histories': 0, 'mutations_safe': {}, 'mutations_unsafe': {},
            'key_completions': {}}


def _graph_for(task):
    d = os.path.join(boot.scratch_root(), 'c13mods-%d' % os.getpid())
    if task['family'] == 'shape':
        shape, shadow = cat.parse_shape_id(task['shape'])
        src = cat.shape_source(shape, task['variant'], shadow)
    elif task['family'] == 'sub':
        shape = ()
        src = SUBCLASS_SOURCE
    else:
        shape = ()
        src = cat.CONTAINER_SOURCE
    return shape, cat.build(src, task['variant'], d)


def _plain_queries(ns, roots, maxlen, tier):
    """queries with oracles for every plain path: [(query, oracle kind, expression)]."""
    qs = []
    for e, _live in plain_paths(ns, roots, maxlen):
        qs.append(({'id': 'p|%s|complete' % e, 'code': e + '.', 'method': 'complete', 'kw': {}},
                   'dir', e))
        qs.append(({'id': 'p|%s|infer@' % e, 'code': e, 'method': 'infer', 'kw': {}},
                   'class', e))
        if tier == 'thorough':
            qs.append(({'id': 'p|%s|v:infer' % e, 'code': 'v_ = %s\nv_' % e, 'method': 'infer',
                        'kw': {}}, 'class', e))
    return qs


def _oracle_for(kind, expr, ns):
    try:
        live = eval(expr, dict(ns))
    except Exception:
        return None
    if kind == 'dir':
        return {'dir': sorted(dir(live))}
    return {'class': expected_names(live)}


def _work(task):
    """All queries of one (graph, variant): safe mode everything, both modes the plain paths."""
    fails = []
    stats = _new_stats()
    only = task.get('only')     # replay: a single (query id, unsafe)
    if task['family'] == 'keys':
        n = _work_keys(task, fails, stats, only)
        return {'fails': fails, 'stats': stats, 'nq': n, 'npq': 0}
    if task['family'] == 'std':
        n = _work_std(task, fails, stats, only)
        return {'fails': fails, 'stats': stats, 'nq': n, 'npq': 0}
    if task['family'] == 'hist':
        n = _work_hist(task, fails, stats, only)
        return {'fails': fails, 'stats': stats, 'nq': n * (1 + len(_hist_step3('obj'))),
                'npq': 0}
    shape, graph = _graph_for(task)
    ns = graph.namespace()
    tier = task['tier']
    if task['family'] == 'shape':
        roots = [r for r in SHAPE_ROOTS if r[0] in task['roots']]
        qs = shape_queries(shape, tier, roots, full=task['full'], battery=task['battery'],
                           side_battery=task['side'], seqlen=task.get('seqlen', 2),
                           other=task['other'], side_other=task['side_other'],
                           seq_only=task.get('seq_only', False))
        interesting = set(_shape_attrs(shape)) | {'leafattr', 'leafmeth'}
        plain_roots = [r for r in ('obj', 'C', 'box', 'hold') if r in task['plain_roots']]
        plain_len = task['plain_len']
    elif task['family'] == 'sub':
        # the groups item, iter, len, bool (+ core); everything in thorough
        qs = shape_queries((('GI', 'cls'), ('LE', 'cls')), tier,
                           [r for r in SUB_ROOTS if r[0] in task['roots']],
                           full=tier == 'thorough', battery='L2', side_battery='L1')
        interesting = {'leafattr', 'append', 'keys', '__getitem__', '__iter__', '__len__'}
        plain_roots = ['box'] if 'lsub' in task['roots'] else []
        plain_len = 1
    else:
        qs = []
        interesting = {'katt', 'kia', 'ca', 'cs', 'ia', 'real', 'upper'}
        plain_roots = task['roots']
        plain_len = task['maxlen']
    for q in qs:
        if only and [q['id'], False] != list(only):
            continue
        _check(graph, ns, q, False, interesting, fails, stats)
    # unsafe mode may execute: the head expressions are run only to show that the routes and
    # the counters are live (non-vacuity of the safe-mode verdicts); nothing is judged
    for q in qs:
        if q['head'] and not only:
            _check(graph, ns, dict(q, deep=False), True, interesting, fails, stats)
    pq = _plain_queries(ns, plain_roots, plain_len, tier)
    stats['plain_paths'] = len({e for _q, _k, e in pq})
    for unsafe in (False, True):
        for q, kind, expr in pq:
            if only and [q['id'], unsafe] != list(only):
                continue
            oracle = _oracle_for(kind, expr, ns)
            if oracle is not None:
                _check(graph, ns, q, unsafe, interesting, fails, stats, oracle)
    return {'fails': fails, 'stats': stats, 'nq': len(qs), 'npq': len(pq)}


# --------------------------------------------------------------------------------------------
# explorer
# --------------------------------------------------------------------------------------------
def _shape_tasks(tier, shapes, variants, shadow=False, inherit=False, **conf):
    base = {'family': 'shape', 'tier': tier, 'full': False, 'battery': 'L2', 'other': 'L1',
            'side': 'L1', 'side_other': 'skip', 'roots': ['obj', 'C'],
            'plain_roots': ['obj', 'C'], 'plain_len': 1}
    base.update(conf)
    out = []
    for s in shapes:
        for v in variants:
            t = dict(base, shape=cat.shape_id(s, shadow, inherit), variant=v)
            if v != 'file' and not conf.get('side_everywhere'):
                # reached through a container a findable object is a pure CompiledValue; for
                # the other variants it is one already: the side roots only go with 'file'
                t['roots'] = [r for r in t['roots'] if r in ('obj', 'C')]
                t['plain_roots'] = [r for r in t['plain_roots'] if r in ('obj', 'C')]
            t.pop('side_everywhere', None)
            out.append(t)
    return out


def _levels(tier):
    singles, pairs_same = cat.all_shapes(mixed_placements=False)
    _s, pairs_all = cat.all_shapes(mixed_placements=True)
    same = set(pairs_same)
    pairs_mixed = [p for p in pairs_all if p not in same]
    descr = [s for s in singles if s[0][0] in ('P', 'ND', 'DD', 'SL')]
    fe = cat.VARIANTS[:2]
    levels = []
    maxlen = 3 if tier == 'quick' else 4
    # findability only matters where user classes are involved: the pure builtin-container
    # roots are explored in both variants in the thorough tier only
    cont = [{'family': 'cont', 'variant': v, 'tier': tier, 'roots': [r], 'maxlen': maxlen}
            for v in fe for r in ['d2', 'l2', 't2', 'inst', 'dynst', 'sn']
            if tier == 'thorough' or v == 'exec' or r in ('inst', 'dynst', 'sn')]
    levels.append(('builtin-subclasses x {file,exec}',
                   [{'family': 'sub', 'variant': v, 'tier': tier, 'roots': [r[0]]}
                    for v in fe for r in SUB_ROOTS]))
    hist_variants = ['exec'] if tier == 'quick' else cat.VARIANTS
    levels.append(('histories: descriptor kind x placement x {replace,add,reverse} x first query '
                   'x {%s}' % ','.join(hist_variants),
                   [{'family': 'hist', 'tier': tier, 'feature': f, 'place': pl, 'variant': v}
                    for v in hist_variants for f in HIST_FEATURES for pl in HIST_PLACES]))
    levels.append(('stdlib containers (defaultdict x2, OrderedDict, deque, ChainMap, UserDict, '
                   'UserList, mappingproxy, __missing__) x {exec%s}'
                   % (',file' if tier == 'thorough' else '; file for the user-factory ones'),
                   [{'family': 'std', 'tier': tier, 'name': n, 'variant': v}
                    for v in fe for n in STD_NAMES
                    # findable classes make every query ~4x dearer (collections is analysed
                    # statically): quick keeps 'file' for the containers with a user factory
                    if tier == 'thorough' or v == 'exec' or n in ('ddobj', 'ddfn', 'md')]))
    levels.append(('dict-key completion inside brackets: dict, dict/OrderedDict subclasses '
                   '(class and type()-created), OrderedDict, defaultdict x {file,exec}',
                   [{'family': 'keys', 'tier': tier, 'name': n, 'variant': v}
                    for v in fe for n in KEYS_NAMES]))
    descr_i = [sh for sh in singles if sh[0][0] in ('P', 'ND', 'DD', 'MP')]
    levels.append(('descriptor singles whose descriptor type only inherits __get__/__set__ '
                   '(property subclass, subclass of a descriptor class) x {file,exec}',
                   [t for t in _shape_tasks(tier, descr_i, fe, inherit=True, other='skip',
                                            battery='L2' if tier == 'quick' else 'B')
                    # quick: source-backed classes only for the placement on the class itself
                    if tier == 'thorough' or t['variant'] == 'exec' or '@cls' in t['shape']]))
    levels.append(('the same, shadowed in the instance dict x {exec}',
                   _shape_tasks(tier, [sh for sh in descr_i if sh[0][1] != 'meta'
                                       and sh[0][0] != 'MP'], ['exec'], shadow=True,
                                inherit=True, roots=['obj'], plain_roots=['obj'])))
    side = ['obj', 'C', 'box0', 'box1']
    if tier == 'quick':
        levels.append(('singles x {file,exec}: relevant expressions, battery on heads',
                       _shape_tasks(tier, singles, fe, battery='B', roots=side,
                                    plain_roots=['obj', 'C', 'box'])))
        levels.append(('descriptor singles shadowed in the instance dict x {file,exec}',
                       _shape_tasks(tier, descr, fe, shadow=True, roots=['obj'],
                                    plain_roots=['obj'])))
        levels.append(('containers(plain paths<=%d)' % maxlen, cont))
        levels.append(('singles x {dyn}: relevant expressions, own root',
                       _shape_tasks(tier, singles, ['dyn'], other='skip')))
        levels.append(('pairs, same placement x {exec}: relevant expressions, own root, complete',
                       _shape_tasks(tier, pairs_same, ['exec'], battery='L1', other='skip',
                                    plain_roots=[])))
    else:
        allroots = side + ['holdo', 'holdc']
        levels.append(('singles x {file,exec}: all expressions, battery on heads',
                       _shape_tasks(tier, singles, fe, full=True, battery='B',
                                    roots=allroots, side_everywhere=True,
                                    plain_roots=['obj', 'C', 'box', 'hold'], plain_len=2)))
        levels.append(('containers(plain paths<=%d)' % maxlen, cont))
        levels.append(('singles x {dyn}: relevant expressions, battery on heads',
                       _shape_tasks(tier, singles, ['dyn'], battery='B')))
        levels.append(('singles shadowed in the instance dict x {file,exec}',
                       _shape_tasks(tier, singles, fe, shadow=True, battery='B', roots=side)))
        levels.append(('pairs, same placement x {file,exec}: relevant expressions',
                       _shape_tasks(tier, pairs_same, fe, roots=side, plain_roots=['obj'])))
        levels.append(('pairs, same placement x {dyn}: own root, complete',
                       _shape_tasks(tier, pairs_same, ['dyn'], battery='L1', other='skip',
                                    plain_roots=['obj'])))
        levels.append(('singles x {file,exec}: step sequences of length 3, own root, complete',
                       _shape_tasks(tier, singles, fe, full=True, seqlen=3, seq_only=True,
                                    battery='L1', other='skip', plain_roots=[])))
        levels.append(('pairs, mixed placement x {exec}: relevant expressions',
                       _shape_tasks(tier, pairs_mixed, ['exec'], other='skip', plain_roots=[])))
    return levels


def _task_id(t):
    if t['family'] == 'shape':
        return '%s|%s' % (t['shape'], t['variant'])
    if t['family'] == 'sub':
        return 'sub|%s' % t['variant']
    if t['family'] == 'keys':
        return 'keys|%s|%s' % (t['name'], t['variant'])
    if t['family'] == 'std':
        return 'std|%s|%s' % (t['name'], t['variant'])
    if t['family'] == 'hist':
        return 'hist|%s@%s|%s' % (t['feature'], t['place'], t['variant'])
    return 'cont|%s' % t['variant']


def run(ctx):
    agg = _new_stats()
    states = 0
    done = []
    exhaustive = True
    samples = []
    graphs = 0
    for name, tasks in _levels(ctx.tier):
        if ctx.time_left() < 10:
            exhaustive = False
            ctx.note('level %s not started (time cap)' % name)
            continue
        pres = pool.run(tasks, 'jv.props.c13:_work', init='jv.props.c13:_init',
                        seed=ctx.seed, deadline=ctx.deadline, tag='c13')
        ctx.absorb(pres, name)
        for i, t in enumerate(tasks):
            tid = _task_id(t)
            if i in pres.crashed:
                ctx.violation('WorkerDied(exit=%s)' % pres.crashed[i], tid, {'task': t},
                              {'task': t})
                continue
            r = pres.results.get(i)
            if r is None:
                continue
            graphs += 1
            states += r['nq'] + 2 * r['npq']
            _merge(agg, r['stats'])
            for f in r['fails']:
                iid = '%s|%s|%s' % (tid, 'u' if f['unsafe'] else 's', f['q']['id'])
                ctx.violation(f['site'], iid, f['detail'],
                              {'task': t, 'only': [f['q']['id'], f['unsafe']]})
        if pres.skipped:
            exhaustive = False
            ctx.note('level %s: %d of %d graphs not explored (time cap)'
                     % (name, len(pres.skipped), len(tasks)))
        else:
            done.append('%s: %d graphs' % (name, len(tasks)))
        if tasks:
            samples.append({'level': name, 'id': _task_id(tasks[len(tasks) // 2])})
    for kind in JUDGED:
        if not agg['hits_unsafe'].get(kind) and not agg['hits_safe'].get(kind):
            ctx.note('no route: counter kind %s never moved in either mode (jedi has no route '
                     'to it on the explored space; the expressions stay in the catalogue)' % kind)
    ctx.coverage.update({
        'states': states, 'transitions': agg['queries'], 'evaluations': agg['queries'],
        'distinct_nontrivial': len(agg['classes']) + len(agg['by_method']),
        'rule': 'state = (graph, variant, mode, expression, query); transition = one query in a '
                'fresh Interpreter with its results touched; distinct_nontrivial = distinct '
                '(reported name, kind) values confirmed by the infer oracle + distinct query '
                'methods exercised',
        'graphs': graphs, 'histories': agg['histories'],
        'dict_key_completions_offered': agg['key_completions'],
        'live_container_mutations_safe_mode': agg['mutations_safe'],
        'live_container_mutations_unsafe_mode': agg['mutations_unsafe'],
        'levels_completed': done, 'exhaustive': exhaustive, 'samples': samples,
        'queries_by_method': agg['by_method'],
        'dir_oracle_checks': agg['dir_checks'], 'class_oracle_checks': agg['class_checks'],
        'classes_confirmed': agg['classes'],
        'counter_hits_safe_mode': agg['hits_safe'],
        'counter_hits_unsafe_mode': agg['hits_unsafe'],
        'exceptions_in_result_attributes_not_judged': agg['touch_excs'],
        'exceptions_in_unjudged_queries': agg['other_excs'],
        'features': cat.FEATURES, 'placements': cat.PLACEMENTS, 'variants': cat.VARIANTS,
    })
    ctx.assumptions += [
        'configuration `stubs`: jedi from $JV_REPO with the vendored typeshed stdlib',
        'stdlib-container family: __missing__ and the call of a default_factory (object or '
        'function) are judged like __getitem__/__call__; a safe-mode query that changes the '
        'content of a live container is a violation (content compared through builtin methods '
        'before and after every query; restored after a change so cases stay independent)',
        'judged counters: property getter, __get__ of user descriptors, __getitem__, __iter__, '
        '__next__, __call__, __len__, __bool__; __getattr__/__getattribute__/__dir__/__set__ '
        'are counted but not judged (the property does not list them)',
        'a path is plain iff inspect.getattr_static (CPython, not jedi) finds a non-descriptor '
        '(or a __slots__ slot) and getattr returns that very object; container steps only on '
        'objects whose type is exactly dict/list/tuple',
        'a stored class/function/module may be reported under its own __name__ (jedi names '
        'the object) or under type(object).__name__; instances strictly type(object).__name__',
        'every query runs in a fresh Interpreter with its own path; the setting is set before '
        'construction and restored afterwards',
        'exceptions escaping queries that carry no dir/class oracle, and exceptions from result '
        'attributes, are counted in coverage but not judged (C01 owns totality)',
        'quick tier: every shape meets the expression groups that exercise its features (and '
        'the core ones); thorough tier: single-feature shapes meet every expression template',
    ]


def _merge(a, b):
    for k, v in b.items():
        if isinstance(v, dict):
            for kk, vv in v.items():
                a[k][kk] = a[k].get(kk, 0) + vv
        else:
            a[k] += v


def replay(case):
    _init()
    t = dict(case['task'])
    t['only'] = case['only']
    r = _work(t)
    tid = _task_id(case['task'])
    return [(f['site'], '%s|%s|%s' % (tid, 'u' if f['unsafe'] else 's', f['q']['id']),
             f['detail']) for f in r['fails']]
