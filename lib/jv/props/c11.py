"""C11 — signatures and docstrings mirror the definition; index locates the argument.

Engine E1 (smallscope).  Enumerated: every legal parameter list over {positional-only,
positional-or-keyword, *args, keyword-only, **kwargs} x {default, annotation} (<= 3 parameters
quick, <= 4 thorough), defined as function / bound method / method through the class /
classmethod / staticmethod / class __init__ / functools.wraps decorator / plain pass-through
wrappers `(*args, **kwargs)` and `(x, *args, **kwargs)`; x every call of <= 2 (quick) / <= 3
(thorough) arguments over {literal, `name=v` for every parameter name and one unknown name, `*t`,
`**d`, unknown identifier} with the cursor at every slot position, once with the rest of the call
behind the cursor and once with the text ending at the cursor.

Oracle = CPython: the definition is executed; inspect.signature gives names / kinds / defaults /
annotations; Signature.bind_partial with a marker object gives the parameter the argument being
typed binds to (per slot class, DESIGN §4 C11); compile() says which continuations are legal;
inspect.getdoc gives the docstring.  The index oracle is validated against upstream's
hand-written table (test/test_api/test_call_signatures.py:_calls) before it is used.
"""
import inspect
import os

from .. import boot, canon, pool
from .. import c11_model as M

ID = 'C11'
BUDGET = {'quick': 900, 'thorough': 5400}

_state = {'n': 0}


def _init():
    boot.boot()
    boot.environment()


def _script(code, live=False):
    """A Script for `code` under a path of its own (parso mutates cached trees in place).
    `live`: this module stays in use while further ones are analysed."""
    jedi = boot.boot()
    env = boot.environment()
    root = os.path.join(boot.scratch_root(), 'c11proj')
    if 'project' not in _state:
        os.makedirs(root, exist_ok=True)
        _state['project'] = jedi.Project(root, smart_sys_path=False)
    _state['n'] += 1
    if _state['n'] % 100 == 0:
        _drop_parser_cache()
    path = os.path.join(root, 'w%d' % os.getpid(), 't%d.py' % _state['n'])
    if live:
        _state['live'] = path
    return jedi.Script(code, path=path, environment=env, project=_state['project'])


def _drop_parser_cache():
    """Texts are never revisited: parso's in-memory cache must not reach its garbage-collection
    trigger (600 entries), which would evict the typeshed stubs in use (boot.prune_parser_cache)."""
    root = os.path.join(boot.scratch_root(), 'c11proj') + os.sep
    keep = _state.get('live')
    try:
        from parso.cache import parser_cache
        for per_grammar in parser_cache.values():
            for path in [p for p in per_grammar
                         if str(p).startswith(root) and str(p) != keep]:
                del per_grammar[path]
    except Exception:
        pass


def _guard(fails, site_prefix, what):
    """Context helper: run fn, turn an escaping jedi exception into a failure record."""
    def run(fn, *a, **k):
        try:
            return True, fn(*a, **k)
        except BaseException as e:
            if isinstance(e, (KeyboardInterrupt, SystemExit)):
                raise
            fails.append({'site': canon.exc_site(e), 'what': what,
                          'detail': {'traceback': canon.short_tb(e)}})
            return False, None
    return run


# --------------------------------------------------------------------------- definition level

def _eol(text, eol):
    """The same text with other line terminators: `crlf` everywhere, `mixed` = CRLF on every
    other line (no bare CR).  Python reads all of them alike; line/column numbers stay."""
    if eol == 'lf':
        return text
    lines = text.split('\n')
    return ''.join(l + ('\r\n' if (eol == 'crlf' or i % 2 == 0) else '\n')
                   for i, l in enumerate(lines[:-1])) + lines[-1]


def _check_definition(carrier, pl, doc, eol='lf'):
    """One program, cursor right after the opening parenthesis: params, kinds, to_string
    round trip, name, bracket_start, docstrings, call shapes.  -> (fails, evals, classes)
    The reference executes the very text that is analysed (line terminators included)."""
    prog = M.build_program(carrier, pl, doc)
    prog['code'] = _eol(prog['code'], eol)
    ref = M.Reference(prog)
    fails = []
    evals = 0
    nlines = prog['code'].count('\n')
    call = prog['callee'] + '('
    what0 = '%s:%s:%s' % (carrier, M.plist_id(pl), doc) + ('' if eol == 'lf' else ':' + eol)
    want = M.describe(ref.sig, ref.has_return)
    base_detail = {'definition': prog['code'], 'call': call, 'inspect.signature': str(ref.sig)}

    def fail(site, **detail):
        d = dict(base_detail)
        d.update(detail)
        fails.append({'site': site, 'what': what0, 'detail': d})

    # one module: the closed call on one line, the call being typed at the end of the file
    script = _script(prog['code'] + call + (')\n' if eol == 'lf' else ')\r\n') + call)
    for ending, line in ((')', nlines + 1), ('', nlines + 2)):
        run = _guard(fails, '', what0)
        evals += 1
        ok, sigs = run(script.get_signatures, line, len(call))
        if not ok:
            continue
        if len(sigs) != 1:
            fail('signature-count', ending=ending, observed=[s.to_string() for s in sigs])
            continue
        sig = sigs[0]
        ok, obs = run(lambda: {
            'name': sig.name, 'to_string': sig.to_string(), 'index': sig.index,
            'bracket_start': list(sig.bracket_start),
            'params': [[p.name, p.kind.name, p.to_string()] for p in sig.params],
            'doc_raw': sig.docstring(raw=True), 'doc': sig.docstring()})
        if not ok:
            continue
        exp_params = [[n, k] for n, k, _d, _a in want['params']]
        if [[n, k] for n, k, _s in obs['params']] != exp_params:
            fail('params-mismatch', ending=ending, expected=exp_params, observed=obs['params'])
        if obs['name'] != prog['name']:
            fail('name-mismatch', expected=prog['name'], observed=obs['name'])
        if obs['bracket_start'] != [line, len(call) - 1]:
            fail('bracket_start-mismatch', ending=ending, expected=[line, len(call) - 1],
                 observed=obs['bracket_start'])
        # to_string() wrapped in `def ...: pass` re-parses to an equal signature
        try:
            back = M.reparse(obs['to_string'])
            got = M.describe(back, ref.has_return)
        except Exception as e:
            back = None
            got = '%s: %s' % (type(e).__name__, e)
        if not isinstance(got, dict) or got['params'] != want['params'] \
                or got['return'] not in (None, want['return']):
            # (a return annotation may be left out, but not be a different one)
            fail('to_string-roundtrip', ending=ending, to_string=obs['to_string'],
                 expected=want, observed=got)
        # every ParamName.to_string() appears in order in the signature string
        at = 0
        for _n, _k, ps in obs['params']:
            j = obs['to_string'].find(ps, at)
            if j < 0:
                fail('param-to_string-not-in-signature', to_string=obs['to_string'], param=ps)
                break
            at = j + len(ps)
        # index with nothing typed: accept-set of the empty slot
        st, allowed = M.IndexOracle(ref.sig).allowed((), ('s3',))
        if obs['index'] not in allowed:
            fail('index-mismatch@s3-empty', ending=ending, expected=sorted(allowed, key=repr),
                 observed=obs['index'])
        # docstrings
        layout = 'concat' if doc == 'concat' else 'plain'
        if obs['doc_raw'] != ref.doc:
            fail('docstring-raw-mismatch@' + layout, ending=ending, api='Signature.docstring',
                 expected=ref.doc, observed=obs['doc_raw'])
        _check_full_doc(fail, obs['doc'], obs['doc_raw'], ref, 'Signature.docstring', layout)
        if ending == '':
            # the same through infer() on the called name
            col = len(call) - 2
            evals += 1
            ok, names = run(script.infer, line, col)
            if ok:
                if len(names) != 1:
                    fail('infer-count', observed=[n.description for n in names])
                else:
                    ok, d = run(lambda: (names[0].docstring(raw=True), names[0].docstring()))
                    if ok:
                        if d[0] != ref.doc:
                            fail('docstring-raw-mismatch@' + layout, api='infer().docstring',
                                 expected=ref.doc, observed=d[0])
                        _check_full_doc(fail, d[1], d[0], ref, 'infer().docstring', layout)
            # call shapes: what binds against the reported signature is what runs
            if back is not None:
                names_ = [p[1] for p in pl] + [M.UNKNOWN] + (['x'] if carrier == 'xw' else [])
                bad = []
                nshapes = 0
                for npos, kws in M.call_shapes(names_):
                    nshapes += 1
                    r = M.runs(ref.obj, npos, kws)
                    if r != M.binds(ref.sig, npos, kws):
                        fails.append({'site': 'HARNESS:reference-signature-does-not-model-execution',
                                      'what': what0, 'detail': {'shape': [npos, list(kws)]}})
                        break
                    if r != M.binds(back, npos, kws):
                        bad.append([npos, list(kws), 'runs' if r else 'TypeError'])
                if bad:
                    fail('call-shapes-mismatch', to_string=obs['to_string'], shapes=bad[:6],
                         n_bad=len(bad))
                evals += nshapes
    return fails, evals, prog, ref


def _check_full_doc(fail, full, raw, ref, api, layout):
    """docstring() = signature line(s) + blank line + raw text (just the lines if no text)."""
    if raw:
        if not full.endswith('\n\n' + raw):
            fail('docstring-layout', api=api, observed=full, raw=raw)
            return
        head = full[:-len('\n\n' + raw)]
    else:
        head = full
    want = [M.describe(ref.sig, False)]
    if ref.unbound_sig is not None:
        want.append(M.describe(ref.unbound_sig, False))   # the definition as written (self kept)
    if getattr(ref, 'class_sig', None) is not None:
        want.append(M.describe(ref.class_sig, False))     # an instance: the text is its class's
    try:
        if M.describe(M.reparse(head), False) in want:
            return                  # one signature (possibly spanning lines: multi-line default)
    except Exception:
        pass
    for line in head.split('\n'):
        try:
            got = M.describe(M.reparse(line), False)
        except Exception as e:
            got = '%s: %s' % (type(e).__name__, e)
        if got not in want:
            fail('docstring-signature-line', api=api, line=line, observed=got, expected=want)


def _work_definitions(task):
    """All carriers x one decorated parameter list."""
    pl = task['pl']
    out = {'fails': [], 'evals': 0, 'cells': 0, 'carriers': {}}
    for carrier in task['carriers']:
        if not M.carrier_applicable(carrier, pl):
            continue
        fails, evals, _p, _r = _check_definition(carrier, pl, task['doc'], task.get('eol', 'lf'))
        out['fails'] += fails
        out['evals'] += evals
        out['cells'] += 2
        out['carriers'][carrier] = out['carriers'].get(carrier, 0) + 1
    _drop_parser_cache()
    return out


# --------------------------------------------------------------------------- callable kinds

KIND_ARGS = '1, zz=v, '        # one call line per object, the cursor in four of its slots
KIND_PROBES = ((0, (), ('s3',)), (1, (), ('s1',)), (3, (('p',),), ('s3',)),
               (9, (('p',), ('k', 'zz')), ('s3',)))


class _KindRef:
    """What _check_full_doc needs: the signature of the object and of the definition as written."""

    def __init__(self, obj, sig):
        self.sig = sig
        fn = getattr(obj, '__func__', obj)
        if inspect.isclass(fn):
            fn = fn.__dict__.get('__init__', fn)
        elif not inspect.isroutine(fn):
            # a callable instance: getdoc gives the class's docstring, so the constructor's
            # signature is a legitimate signature line as well
            try:
                self.class_sig = inspect.signature(type(fn))
            except (TypeError, ValueError):
                pass
            fn = type(fn).__call__
        try:
            self.unbound_sig = inspect.signature(fn)
        except (TypeError, ValueError):
            self.unbound_sig = None


def _work_kinds(task):
    """One parameter list as method / classmethod / staticmethod / __call__ / __init__, plain and
    behind a functools.wraps-style pass-through decorator, reached bound and unbound (every
    access Python offers): parameters, kinds, to_string round trip, bracket_start, index in
    four slots, call shapes and docstring(raw=True) / docstring() against inspect.signature /
    inspect.getdoc of the very object.  (Signature.name is not judged.)"""
    pl = task['pl']
    fails = []
    evals = cells = 0
    members_seen = {}
    names_ = [p[1] for p in pl] + [M.UNKNOWN]
    for decorated in (False, True):
        code, members = M.build_kind_family(pl, decorated)
        ns = {}
        exec(compile(code, '<c11-kinds>', 'exec'), ns)
        line0 = code.count('\n') + 1
        lines = [(li, mid, callee, off, pre, cur) for li, (mid, callee) in enumerate(members)
                 for off, pre, cur in KIND_PROBES]
        script = _script(code + ''.join('%s(%s)\n' % (callee, KIND_ARGS)
                                       for _m, callee in members))
        for li, mid, callee, off, pre, cur in lines:
            args = KIND_ARGS[:off]
            what = 'kinds:%s%s:%s|%s(%s^%s)' % ('deco.' if decorated else '', mid,
                                                M.plist_id(pl), callee, args, KIND_ARGS[off:])
            obj = eval(callee, ns)
            sig = inspect.signature(obj)
            want = M.describe(sig, True)
            detail0 = {'definition': code, 'call': '%s(%s|%s)' % (callee, args, KIND_ARGS[off:]),
                       'inspect.signature': str(sig)}

            def fail(site, **detail):
                fails.append({'site': site, 'what': what, 'detail': dict(detail0, **detail)})

            evals += 1
            cells += 1
            members_seen[mid] = members_seen.get(mid, 0) + 1
            try:
                sigs = script.get_signatures(line0 + li, len(callee) + 1 + len(args))
                if len(sigs) != 1:
                    fail('signature-count', observed=[x.to_string() for x in sigs])
                    continue
                obs = {'to_string': sigs[0].to_string(), 'index': sigs[0].index,
                       'bracket_start': list(sigs[0].bracket_start),
                       'params': [[q.name, q.kind.name] for q in sigs[0].params]}
                if not args:
                    obs['doc_raw'] = sigs[0].docstring(raw=True)
                    obs['doc'] = sigs[0].docstring()
            except BaseException as e:
                if isinstance(e, (KeyboardInterrupt, SystemExit)):
                    raise
                fail(canon.exc_site(e), traceback=canon.short_tb(e))
                continue
            exp_params = [[n, k] for n, k, _d, _a in want['params']]
            if obs['bracket_start'] != [line0 + li, len(callee)]:
                fail('bracket_start-mismatch', expected=[line0 + li, len(callee)],
                     observed=obs['bracket_start'])
            if obs['params'] != exp_params:
                fail('params-mismatch', expected=exp_params, observed=obs['params'],
                     to_string=obs['to_string'])
                continue
            st, allowed = M.IndexOracle(sig).allowed(pre, cur)
            if st == 'judged' and obs['index'] not in allowed:
                fail('index-mismatch@' + _site(cur, pre), expected=sorted(allowed, key=repr),
                     observed=obs['index'])
            if args:
                continue          # the rest does not depend on the cursor
            # docstrings, as on the other families (Signature.name is not judged)
            want_doc = inspect.getdoc(obj) or ''
            if obs['doc_raw'] != want_doc:
                fail('docstring-raw-mismatch@kinds', api='Signature.docstring',
                     expected=want_doc, observed=obs['doc_raw'])
            _check_full_doc(fail, obs['doc'], obs['doc_raw'], _KindRef(obj, sig),
                            'Signature.docstring', 'kinds')
            try:
                back = M.reparse(obs['to_string'])
                got = M.describe(back, True)
            except Exception as e:
                back = None
                got = '%s: %s' % (type(e).__name__, e)
            if not isinstance(got, dict) or got['params'] != want['params'] \
                    or got['return'] not in (None, want['return']):
                fail('to_string-roundtrip', to_string=obs['to_string'], expected=want,
                     observed=got)
            elif back is not None:
                bad = []
                for npos, kws in M.call_shapes(names_):
                    evals += 1
                    r = M.runs(obj, npos, kws)
                    if r != M.binds(sig, npos, kws):
                        fails.append({'site': 'HARNESS:reference-signature-does-not-model-execution',
                                      'what': what, 'detail': {'shape': [npos, list(kws)]}})
                        break
                    if r != M.binds(back, npos, kws):
                        bad.append([npos, list(kws), 'runs' if r else 'TypeError'])
                if bad:
                    fail('call-shapes-mismatch', to_string=obs['to_string'], shapes=bad[:6],
                         n_bad=len(bad))
    _drop_parser_cache()
    return {'fails': fails, 'evals': evals, 'cells': cells, 'carriers': {}, 'kinds': members_seen}


# --------------------------------------------------------------------------- index level

def _cell_id(carrier, pl, callee, before, after):
    if after is None:        # a whole call text
        return '%s:%s|%s(%s' % (carrier, M.plist_id(pl), callee, before)
    return '%s:%s|%s(%s^%s' % (carrier, M.plist_id(pl), callee, before, after)


def _site(cur, pre):
    cls = {'s1': 's1-literal', 's2': 's2-keyword', 's3': 's3-empty', 's4': 's4-identifier',
           's5': 's5-star', 's6': 's6-doublestar'}[cur[0]]
    if any(a[0] in ('s', 'd') for a in pre):
        cls += '-after-unpacking'
    return cls


def _probe(script, line, col, oracle, pre, cur, exp_params, exp_bracket):
    """-> (failure (site, detail) or None, observation class)"""
    try:
        sigs = script.get_signatures(line, col)
        if len(sigs) != 1:
            return ('signature-count', {'observed': [s.to_string() for s in sigs]}), None
        idx = sigs[0].index
        bs = tuple(sigs[0].bracket_start)
        params = [[p.name, p.kind.name] for p in sigs[0].params]
    except BaseException as e:
        if isinstance(e, (KeyboardInterrupt, SystemExit)):
            raise
        return (canon.exc_site(e), {'traceback': canon.short_tb(e)}), None
    if params != exp_params:
        # the index refers to the reported list: without the right list it cannot be judged
        return ('params-mismatch@call-site', {'expected': exp_params, 'observed': params}), None
    if bs != exp_bracket:
        return ('bracket_start-mismatch', {'expected': list(exp_bracket), 'observed': list(bs)}), None
    status, allowed = oracle.allowed(pre, cur)
    if status != 'judged':
        if idx is not None and not (isinstance(idx, int) and 0 <= idx < len(exp_params)):
            return ('index-out-of-range', {'observed': idx, 'nparams': len(exp_params)}), status
        return None, status
    if idx not in allowed:
        return ('index-mismatch@' + _site(cur, pre),
                {'expected': sorted(allowed, key=repr), 'observed': idx,
                 'slot': list(cur), 'arguments_before': [list(a) for a in pre]}), None
    kind = 'strict' if len(allowed) == 1 else 'accept'
    return None, '%s:%s:%s' % (kind, cur[0], 'None' if idx is None else 'param')


CHEAP = ('fn', 'meth', 'umeth', 'sm', 'init')   # carriers whose fresh analysis costs ~3 ms
BATCH = 60       # call lines per module in the `complete` variant (jedi gives up on a context
                 # after 300 inferences in one analysis; `c.m(` costs two or three per line)


def _work_index(task):
    """One (carrier, parameter list): every call text x every slot position.

    `complete` variant: the rest of the call stands behind the cursor.  All call texts of the
    task are lines of ONE module (one analysis); a cell that fails there is re-run in a module
    of its own, which is what gets reported (`batch-only` if it fails only in company).
    `truncated` variant: the text ends at the cursor — one module per distinct text."""
    carrier, pl, tier, kmax = task['carrier'], task['pl'], task['tier'], task['kmax']
    tmax = task.get('tmax', 0)        # truncated variant for calls of <= tmax arguments
    prog = M.build_program(carrier, pl, 'one')
    ref = M.Reference(prog)
    oracle = M.IndexOracle(ref.sig)
    exp_params = [[p.name, p.kind.name] for p in ref.sig.parameters.values()]
    names = [p[1] for p in pl] + (['x'] if carrier == 'xw' else [])
    forms = M.arg_alphabet(names, tier)
    if task.get('forms') == 'positional':
        forms = [f for f in forms if f[0] == 'lit']
    callee = prog['callee']
    code = prog['code']
    line0 = code.count('\n') + 1
    c0 = len(callee) + 1
    fails = []
    counts = {}
    evals = cells = 0
    only = task.get('only')       # replay: [before, after, mode]

    def probe(script, line, off, pre, cur):
        return _probe(script, line, c0 + off, oracle, pre, cur, exp_params, (line, len(callee)))

    def record(before, after, res, mode):
        f, cls = res
        if f is not None:
            fails.append({'site': f[0], 'what': _cell_id(carrier, pl, callee, before, after),
                          'mode': mode,
                          'detail': dict(f[1], definition=code, mode=mode,
                                         call=callee + '(' + before + (
                                             '' if after is None else '|' + after),
                                         **{'inspect.signature': str(ref.sig)})})
        else:
            counts[cls] = counts.get(cls, 0) + 1

    texts = list(M.call_texts(forms, kmax))

    def module_of(li):
        # at most BATCH call lines share a module.  -> (module text, line of call li in it)
        lo = li - li % BATCH
        return (code + ''.join('%s(%s)\n' % (callee, args) for args, _p, _k in texts[lo:lo + BATCH]),
                line0 + li - lo)

    def standalone(args):
        return _script('%s%s(%s)\n' % (code, callee, args))

    if only is not None:
        for li, (args, probes, _k) in enumerate(texts):
            if only[1] is None:
                # a whole call text (wrong parameter list at every cursor position)
                if args != only[0]:
                    continue
                off, pre, cur = probes[0]
                if only[2] == 'batch-only':
                    mod, ln = module_of(li)
                    res = probe(_script(mod), ln, off, pre, cur)
                else:
                    res = probe(standalone(args), line0, off, pre, cur)
                record(args + ')', None, res, only[2])
                return {'fails': fails, 'evals': 1, 'cells': 1, 'counts': counts}
            for off, pre, cur in probes:
                if args[:off] != only[0]:
                    continue
                if only[1] == '':
                    res = probe(_script(code + callee + '(' + args[:off]), line0, off, pre, cur)
                elif args[off:] + ')' != only[1]:
                    continue
                elif only[2] == 'batch-only':
                    mod, ln = module_of(li)
                    res = probe(_script(mod), ln, off, pre, cur)
                else:
                    res = probe(standalone(args), line0, off, pre, cur)
                record(only[0], only[1], res, only[2])
                return {'fails': fails, 'evals': 1, 'cells': 1, 'counts': counts}
        return {'fails': fails, 'evals': 0, 'cells': 0, 'counts': counts}

    script = None
    for li, (args, probes, _k) in enumerate(texts):
        mod, ln = (None, line0 + li % BATCH) if li % BATCH else module_of(li)
        if mod is not None:
            script = _script(mod, live=True)
        results = []
        for off, pre, cur in probes:
            evals += 1
            cells += 1
            results.append(probe(script, ln, off, pre, cur))
        bad = [r for r in results if r[0] is not None]
        if not bad:
            for r in results:
                record(None, None, r, 'complete')
            continue
        alone = standalone(args)
        if len(bad) == len(results) and all(r[0][0] == 'params-mismatch@call-site' for r in bad):
            # the wrong parameter list does not depend on the cursor: one finding per call text
            evals += 1
            off, pre, cur = probes[0]
            r0 = probe(alone, line0, off, pre, cur)
            if r0[0] is not None and r0[0][0] == 'params-mismatch@call-site':
                record(args + ')', None, r0, 'complete')
            else:
                record(args + ')', None, bad[0], 'batch-only')
            continue
        for (off, pre, cur), res in zip(probes, results):
            if res[0] is None:
                record(None, None, res, 'complete')
                continue
            evals += 1
            r1 = probe(alone, line0, off, pre, cur)
            if r1[0] is not None:
                record(args[:off], args[off:] + ')', r1, 'complete')
            else:
                record(args[:off], args[off:] + ')', res, 'batch-only')
    seen_trunc = set()
    for args, probes, _k in texts:
        for off, pre, cur in probes:
            if len(pre) + (0 if cur[0] == 's3' else 1) > tmax:
                continue      # more arguments typed than this task explores without batching
            before = args[:off]
            if before in seen_trunc:
                continue
            seen_trunc.add(before)
            evals += 1
            cells += 1
            record(before, '', probe(_script(code + callee + '(' + before), line0, off, pre, cur),
                   'truncated')
    _drop_parser_cache()
    return {'fails': fails, 'evals': evals, 'cells': cells, 'counts': counts}


def _work(task):
    import time
    t0 = time.process_time()
    r = globals()[task['fn'].split(':')[1]](task)
    r['cpu'] = round(time.process_time() - t0, 3)
    return r


# --------------------------------------------------------------------------- levels

def _levels(tier):
    nmax = 3 if tier == 'quick' else 4
    others = [c for c in M.CARRIERS if c != 'fn']
    lv = []
    plain_keys = [d for d in M.DOC_KEYS if d != 'concat']
    # 1. every decorated list as a function (docstring layout rotates with the list); the other
    #    carriers on every kind skeleton plain and fully decorated (quick) / on every list
    tasks = []
    k = 0
    for n in range(nmax + 1):
        for sk in M.skeletons(n):
            full = M.make_plist(sk, M.full_decoration(sk))
            for dec in M.decorations(sk):
                pl = M.make_plist(sk, dec)
                skeleton_level = pl == full or not any(p[2] or p[3] for p in pl)
                carriers = ['fn']
                if tier == 'quick':
                    if skeleton_level:
                        carriers += [c for c in others if c != 'cm' or pl != full or not pl]
                else:
                    carriers += ['meth', 'umeth', 'sm', 'init']
                    if skeleton_level or len(pl) <= 3:
                        carriers += ['wraps', 'pw', 'xw']
                    if skeleton_level:
                        carriers += ['cm']        # 0.7 s per analysed program
                tasks.append({'id': 'def:' + M.plist_id(pl), 'pl': pl, 'carriers': carriers,
                              'doc': plain_keys[k % len(plain_keys)]})
                k += 1
    tasks.sort(key=lambda t: -len(t['carriers']))
    # ... and every kind skeleton with white-space string literals (run of blanks, tab, line
    # break, ...) as defaults and annotations, each literal at each position
    for n in range(1, nmax + 1):
        for sk in M.skeletons(n):
            for j in range(len(M.WS_LITERALS)):
                pl = M.make_plist(sk, M.ws_decoration(sk, j))
                tasks.append({'id': 'def:' + M.plist_id(pl), 'pl': pl,
                              'carriers': ['fn'] if tier == 'quick' else
                              ['fn', 'meth', 'init', 'wraps', 'pw'],
                              'doc': plain_keys[k % len(plain_keys)]})
                k += 1
    lv.append(('definitions(<=%d params x default x annotation + %d white-space string literals as '
               'default/annotation on every kind skeleton; %s)'
               % (nmax, len(M.WS_LITERALS),
                  'fn/meth/umeth/sm/init on every list, wrappers on every list of <=3, '
                  'classmethod on every kind skeleton plain + decorated' if tier == 'thorough' else
                  'function on every list, 9 carriers on every kind skeleton plain + decorated '
                  '(classmethod: plain)'),
               'jv.props.c11:_work_definitions', tasks))
    # 1b. callable kinds x pass-through decorator x bound/unbound access
    tasks = []
    kmaxp = 2 if tier == 'quick' else nmax
    for n in range(kmaxp + 1):
        for sk in M.skeletons(n):
            variants = [M.make_plist(sk)]
            full = M.make_plist(sk, M.full_decoration(sk))
            if full != variants[0] and (tier != 'quick' or n <= 1):
                variants.append(full)     # (classmethod analysis costs ~0.5 s per module)
            for pl in variants:
                tasks.append({'id': 'kinds:' + M.plist_id(pl), 'pl': pl})
    lv.append(('callable kinds({method, classmethod, staticmethod, __call__, __init__} x {plain, '
               'functools.wraps pass-through decorator} x every bound/unbound access = %d objects; '
               'kind skeletons of <=%d params plain (+ default/annotation: %s); 4 cursor slots)'
               % (2 * len(M.KIND_MEMBERS), kmaxp, '<=1 param' if tier == 'quick' else 'all'), 'jv.props.c11:_work_kinds', tasks))
    # 2. every docstring layout x every carrier on three lists
    tasks = []
    for sk in ((), ('pk',), ('po', 'pk', 'va', 'ko')):
        for doc in M.DOC_KEYS:
            pl = M.make_plist(sk, M.full_decoration(sk) if len(sk) == 1 else None)
            tasks.append({'id': 'doc:%s:%s' % (doc, M.plist_id(pl)), 'pl': pl,
                          'carriers': list(M.CARRIERS), 'doc': doc})
    # ... and with CRLF / mixed CRLF+LF line terminators of the whole source (the implicit
    # concatenation layout, a known finding whatever the terminator, is left to the LF run)
    for eol in ('crlf', 'mixed'):
        for sk in ((), ('pk',), ('po', 'pk', 'va', 'ko')):
            for doc in plain_keys:
                pl = M.make_plist(sk, M.full_decoration(sk) if len(sk) == 1 else None)
                tasks.append({'id': 'doc:%s:%s:%s' % (doc, M.plist_id(pl), eol), 'pl': pl,
                              'carriers': ['fn', 'meth', 'init', 'wraps', 'pw'], 'doc': doc,
                              'eol': eol})
    lv.append(('docstring layouts(%d) x 9 carriers x 3 lists (LF); %d layouts x fn/meth/init/wraps/'
               'pw x 3 lists x {CRLF, mixed CRLF+LF}' % (len(M.DOC_KEYS), len(plain_keys)),
               'jv.props.c11:_work_definitions', tasks))
    # 3. index cells
    tasks = []
    for n in range(nmax + 1):
        for sk in M.skeletons(n):
            variants = [M.make_plist(sk)]
            full = M.make_plist(sk, M.full_decoration(sk))
            if full != variants[0]:
                variants.append(full)
            for vi, pl in enumerate(variants):
                for carrier in M.CARRIERS:
                    if not M.carrier_applicable(carrier, pl):
                        continue
                    cheap = carrier in CHEAP
                    if tier == 'quick':
                        if carrier != 'fn' and vi:
                            continue      # decorated lists: function only
                        if carrier == 'cm' and len(pl) > 2:
                            continue      # (0.3 s per analysed call)
                        kmax = 2 if carrier in ('fn', 'meth', 'init') else 1
                        tmax = (2 if carrier == 'fn' else 1) if (
                            vi == 0 and cheap) else 0
                    else:
                        if not cheap and vi:
                            continue      # wrappers / classmethod: plain lists only
                        if carrier == 'cm' and len(pl) > 3:
                            continue
                        if cheap:
                            kmax = 3 if vi == 0 and (carrier == 'fn' or (
                                carrier in ('meth', 'init') and len(pl) <= 3)) else 2
                            tmax = ((3 if (carrier == 'fn' and len(pl) <= 3) else 2)
                                    if vi == 0 else 1)
                        else:
                            kmax = 2 if (carrier != 'cm' and len(pl) <= 3) else 1
                            tmax = 1
                    tasks.append({'id': 'idx:%s:%s' % (carrier, M.plist_id(pl)),
                                  'carrier': carrier, 'pl': pl, 'tier': tier, 'kmax': kmax,
                                  'tmax': tmax})
    # big tasks first so that the pool's tail is short
    tasks.sort(key=lambda t: (-t['kmax'], -t['tmax'], -len(t['pl'])))
    lv.append(('index cells(<=%d params, plain + fully decorated, 9 carriers; %s)'
               % (nmax, 'function: plain + decorated lists, calls of <=2 arguments; other carriers: '
                  'plain lists, calls of <=2 (meth, init) / <=1 arguments; text cut at the cursor '
                  'on plain lists: <=2 arguments fn, <=1 meth/umeth/sm/init' if tier == 'quick' else
                  'plain lists: calls of <=3 arguments on fn (meth, init: <=3 params), <=2 on '
                  'umeth/sm and on wraps/pw/xw with <=3 params, <=1 on cm (<=3 params) and wrappers '
                  'with 4 params; decorated lists: fn/meth/umeth/sm/init, calls of <=2; text cut at '
                  'the cursor: <=3 arguments fn (<=3 params), <=2 plain lists on the 5 cheap '
                  'carriers, <=1 otherwise'),
               'jv.props.c11:_work_index', tasks))
    if tier == 'thorough':
        tasks = []
        for n in (5, 6):
            for sk in M.skeletons(n):
                pl = M.make_plist(sk)
                tasks.append({'id': 'idx:fn:' + M.plist_id(pl), 'carrier': 'fn', 'pl': pl,
                              'tier': 'quick', 'kmax': 2, 'tmax': 2})
        lv.append(('index cells(kind skeletons of 5-6 params, function, calls of <=2 arguments)',
                   'jv.props.c11:_work_index', tasks))
        tasks = []
        for n in range(0, 7):
            for sk in M.skeletons(n):
                pl = M.make_plist(sk)
                tasks.append({'id': 'idx5:fn:' + M.plist_id(pl), 'carrier': 'fn', 'pl': pl,
                              'tier': 'quick', 'kmax': 5, 'tmax': 5, 'forms': 'positional'})
        lv.append(('index cells(kind skeletons of <=6 params, function, purely positional calls '
                   'of <=5 arguments)', 'jv.props.c11:_work_index', tasks))
    return lv


def run(ctx):
    # 0. the oracle is validated against upstream's hand-written table before it is trusted
    table = os.path.join(boot.REPO, 'test', 'test_api', 'test_call_signatures.py')
    try:
        val = M.validate_against_upstream(table)
    except Exception as e:
        ctx.harness_error('cannot validate the index oracle against %s: %r' % (table, e))
        return
    if val['failures'] or val['used'] < 60:
        ctx.harness_error('index oracle disagrees with upstream table: %r (used %d)'
                          % (val['failures'][:5], val['used']))
        return
    ctx.note('index oracle validated against upstream _calls: %d rows, %d used (%d strict equal, '
             '%d accept-set contained), %d outside the alphabet'
             % (val['rows'], val['used'], val['strict'], val['accept'], len(val['skipped'])))

    states = trans = 0
    classes = {}
    carriers = {}
    done = []
    exhaustive = True
    samples = []
    # all levels go through ONE pool (a worker's first analysis costs ~2 s); tasks are dealt in
    # level order, so every worker does its simplest tasks first
    levels = _levels(ctx.tier)
    tasks = []
    for li, (name, fn, lt) in enumerate(levels):
        for t in lt:
            tasks.append(dict(t, level=li, fn=fn))
    pres = pool.run(tasks, 'jv.props.c11:_work', init='jv.props.c11:_init', seed=ctx.seed,
                    deadline=ctx.deadline, tag='c11')
    ctx.absorb(pres, 'c11')
    skipped = {}
    cpu = {}
    kinds = {}
    for i in pres.skipped:
        skipped[tasks[i]['level']] = skipped.get(tasks[i]['level'], 0) + 1
    for i, t in enumerate(tasks):
        fn = t['fn']
        if i in pres.crashed:
            ctx.violation('WorkerDied(exit=%s)' % pres.crashed[i], t['id'], {'task': t},
                          {'task': t, 'fn': fn, 'what': None})
            continue
        r = pres.results.get(i)
        if r is None:
            continue
        states += r['cells']
        trans += r['evals']
        ck = '%s/%s' % (t['level'], t.get('carrier', 'definitions'))
        cpu[ck] = round(cpu.get(ck, 0) + r.get('cpu', 0), 1)
        for k, v in r.get('counts', {}).items():
            classes[k] = classes.get(k, 0) + v
        for k, v in r.get('carriers', {}).items():
            carriers[k] = carriers.get(k, 0) + v
        for k, v in r.get('kinds', {}).items():
            kinds[k] = kinds.get(k, 0) + v
        if 'carrier' in t:
            carriers[t['carrier']] = carriers.get(t['carrier'], 0) + 1
        for f in r['fails']:
            if f['site'].startswith('HARNESS:'):
                ctx.harness_error('%s on %s: %r' % (f['site'], f['what'], f['detail']))
                continue
            case = {'fn': fn, 'task': {k: v for k, v in t.items() if k not in ('level', 'fn')},
                    'what': f['what'], 'mode': f.get('mode')}
            ctx.violation(f['site'], f['what'], f['detail'], case)
    for li, (name, fn, lt) in enumerate(levels):
        if skipped.get(li):
            exhaustive = False
            ctx.note('level %s: %d of %d tasks not explored (time cap)'
                     % (name, skipped[li], len(lt)))
        else:
            done.append('%s: %d tasks' % (name, len(lt)))
        if lt:
            samples.append({'level': name, 'task': lt[len(lt) // 2]['id']})
    judged = sum(v for k, v in classes.items() if k.startswith(('strict', 'accept')))
    ctx.coverage.update({
        'states': states, 'transitions': trans, 'evaluations': trans,
        'distinct_nontrivial': len(classes),
        'rule': 'state = (definition, carrier, call text, cursor position, text after the cursor) '
                'cell or (definition, carrier, ending) definition check; transition = one '
                'get_signatures/infer evaluation (+ one per executed call shape); '
                'distinct_nontrivial = distinct observation classes (strict/accept x slot class x '
                'index None/param, plus the not-judged reasons)',
        'index_cells_by_class': dict(sorted(classes.items())),
        'index_cells_judged': judged,
        'tasks_by_carrier': dict(sorted(carriers.items())),
        'kind_family_cells_by_member': dict(sorted(kinds.items())),
        'worker_cpu_s_by_level_and_carrier': cpu,
        'oracle_validation_upstream_table': {k: v for k, v in val.items() if k != 'failures'},
        'levels_completed': done, 'exhaustive': exhaustive, 'samples': samples,
        'slot_classes': {'s1': 'complete literal (strict)', 's2': 'after name= (strict)',
                         's3': 'empty slot (accept-set)', 's4': 'inside identifier (accept-set)',
                         's5': 'after * / *t (accept-set)', 's6': 'after ** / **d (accept-set)'},
    })
    ctx.assumptions += [
        'configuration `stubs`; CPython 3.12 inspect is the reference',
        'parameter names never start with `__` (jedi follows the typeshed convention there)',
        'index is judged per slot class (DESIGN §4 C11): literal and `name=` strictly, empty '
        'slot / half-typed identifier / `*` / `**` by accept-set; after an earlier `*t` / `**d` '
        'the index only has to be right for some number of unpacked values',
        '`name=` for a parameter that already received a value while **kwargs exists: None and '
        'the **kwargs index are both admitted (Python: TypeError/SyntaxError; upstream table: '
        '**kwargs)',
        'cells whose earlier arguments do not compile or bind (positional after keyword, too '
        'many positionals) are not judged beyond "one signature, index None or in range"',
        'incomplete non-identifier expressions (`(3,`, `v[`, `v.`) are not enumerated as the '
        'argument being typed; cursor positions inside an operator or literal are not probed',
        '`(x, *args, **kwargs)` wrappers in front of positional-only parameters are not '
        'enumerated (no legal Python signature describes them)',
        'docstring(): a signature line may show the definition as written (self kept) or as '
        'bound (for a callable instance also the constructor of its class, whose docstring it '
        'shows); Signature.name is judged on the 9 basic carriers only',
        'line terminators: LF everywhere; the docstring family additionally with CRLF and with '
        'mixed CRLF+LF sources (no bare CR), executed and analysed as the very same text',
    ]


def replay(case):
    _init()
    t = dict(case['task'])
    fn = case['fn'].split(':')[1]
    if fn == '_work_index' and case.get('what'):
        what = case['what']
        head, _, rest = what.partition('|')
        callee_before, mark, after = rest.partition('^')
        before = callee_before.split('(', 1)[1]
        if not mark:
            before, after = before[:-1], None     # whole call text `callee(args)`
        t['only'] = [before, after, case.get('mode', 'complete')]
        r = _work_index(t)
    else:
        r = globals()[fn](t)
    return [(f['site'], f['what'], f['detail']) for f in r['fails']
            if case.get('what') is None or f['what'] == case['what']]
