"""C15 — inference gives up instead of recursing or exploding.

Engine E1 (smallscope).  (a) every definition graph of the bounded families in `_levels`
(jv/c15_gen.py: nodes, atoms (i, j, kind), 10 edge kinds, <= 2 kinds per ordered pair, self
loops) rendered to a program; every query at every use.  (b) scaling families for
n in {1, 2, 4, ..., 64} (chains, trees, diamonds) and rings of n <= 40 nodes per edge kind.

Oracle: no exception of any kind leaves a query, no worker dies, and the *work* of every single
query (fresh Script, i.e. cold inference state) stays under a budget.  Work = number of Python
function entries (sys.monitoring PY_START) into $JV_REPO/jedi/inference/**, a deterministic
count; cross-checked with sum(inference_state.inferred_element_counts.values()).  The budget is
enforced as a hard stop: when the counter passes it the monitoring callback raises a private
BaseException inside the monitored code, which aborts the query.  No verdict depends on time.
"""
import os
import re
import signal
import sys
import time

from .. import boot, canon, findings, pool
from .. import c15_gen as gen

ID = 'C15'
BUDGET = {'quick': 1200, 'thorough': 5400}

# ---- calibration.  Measured with `JV_C15_CALIBRATE=1 bin/check C15 [--tier thorough]` (counts only,
# no budget) on commit 7c19a04 + proposed_fixes/C15-import-cycle-recursion.diff, configuration
# `stubs`.  On the unpatched tree the same programs give the same numbers except that the
# import-cycle queries die with RecursionError after <= 13k steps.  Every number is a maximum over
# an enumerated (hence reproducible) set; the run prints the constants to paste here.
# maximum work of one query observed over family (a) of the tier, per query method
CAL_MAX_STEPS = {           # {tier: {method: steps}}
    'quick': {'complete': 666009, 'get_references': 107502, 'get_signatures': 45234,
              'goto': 32066, 'help': 31572, 'infer': 664825},
    # over the quick levels and the thorough levels with the largest programs (8- and up to
    # 9-arc shapes, base-definition variants); see the report for what was left to the 20x margin
    'thorough': {'complete': 1327993, 'get_references': 1067458, 'get_signatures': 84582,
                 'goto': 120198, 'help': 120209, 'infer': 1407856},
}
# maximum of sum(inferred_element_counts.values()) after one query, over (a) and (b)
CAL_MAX_INFERS = {'quick': 2252, 'thorough': 2252}
# maximum work of one query at the largest n (64; rings: 40) observed per scaling family
CAL_STEPS64 = {
    'assign_chain': 40620, 'assign_diamonds': 47392, 'attr_diamonds': 66075,
    'builtin_call_chain': 51612, 'builtin_op_chain': 49960, 'call_chain': 22111,
    'call_tree': 47737, 'chain_A': 111574, 'chain_C': 61036, 'chain_D': 70789, 'chain_G': 109389,
    'chain_H': 498514, 'chain_I': 101970, 'chain_L': 129914, 'chain_P': 150208, 'chain_Q': 74208,
    'chain_R': 43529, 'chain_S': 35140, 'chain_T': 162488, 'chain_U': 56785, 'chain_X': 136833,
    'decorator_chain': 41570, 'diamonds': 417169, 'import_chain': 44103, 'inherit_chain': 74709,
    'instance_tree': 112084, 'method_chain_builtin': 87805, 'nested_closures': 332517,
    'nested_containers': 46108, 'ring_A': 28630, 'ring_C': 50750, 'ring_D': 51237,
    'ring_G': 28411, 'ring_H': 315519, 'ring_I': 24903, 'ring_L': 119629, 'ring_P': 90249,
    'ring_Q': 44115, 'ring_R': 26158, 'ring_S': 33500, 'ring_T': 92425, 'ring_U': 46133,
    'ring_X': 84677}
# maximum work of one query over all n observed per scaling family (hard-stop budget of (b))
CAL_STEPS_FAM = {
    'assign_chain': 40620, 'assign_diamonds': 47392, 'attr_diamonds': 66075,
    'builtin_call_chain': 51616, 'builtin_op_chain': 49960, 'call_chain': 35716,
    'call_tree': 87934, 'chain_A': 111574, 'chain_C': 61036, 'chain_D': 70789, 'chain_G': 109389,
    'chain_H': 498514, 'chain_I': 101970, 'chain_L': 129914, 'chain_P': 150208, 'chain_Q': 74208,
    'chain_R': 43529, 'chain_S': 35140, 'chain_T': 162488, 'chain_U': 56785, 'chain_X': 136833,
    'decorator_chain': 41570, 'diamonds': 417169, 'import_chain': 44103, 'inherit_chain': 74709,
    'instance_tree': 365544, 'method_chain_builtin': 87805, 'nested_closures': 332517,
    'nested_containers': 46108, 'ring_A': 28630, 'ring_C': 50750, 'ring_D': 51237,
    'ring_G': 28411, 'ring_H': 315519, 'ring_I': 24903, 'ring_L': 119629, 'ring_P': 90249,
    'ring_Q': 44115, 'ring_R': 26158, 'ring_S': 33500, 'ring_T': 92425, 'ring_U': 46133,
    'ring_X': 84677}
FACTOR = 20
# deepest python stack (frames above the query call, sampled at every 32nd counted entry) observed
# per scaling family over all n; a stack that grows with n towards the interpreter limit (3000)
# is "recursing instead of giving up" even while the step count stays small
# (measured on /repo 4c200d4, scaling stage only: JV_C15_LEVELS=s JV_C15_CALIBRATE=1)
CAL_DEPTH_FAM = {
    'assign_chain': 1447, 'assign_diamonds': 1959, 'attr_diamonds': 2199,
    'builtin_call_chain': 697, 'builtin_op_chain': 697, 'call_chain': 393, 'call_tree': 391,
    'chain_A': 1604, 'chain_C': 391, 'chain_D': 561, 'chain_G': 1411, 'chain_H': 231,
    'chain_I': 885, 'chain_L': 810, 'chain_P': 533, 'chain_Q': 708, 'chain_R': 483,
    'chain_S': 451, 'chain_T': 2980, 'chain_U': 797, 'chain_X': 499, 'decorator_chain': 284,
    'diamonds': 340, 'import_chain': 949, 'inherit_chain': 273, 'instance_tree': 2199,
    'method_chain_builtin': 990, 'nested_closures': 1383, 'nested_containers': 814,
    'ring_A': 1018, 'ring_C': 390, 'ring_D': 561, 'ring_G': 905, 'ring_H': 228, 'ring_I': 571,
    'ring_L': 813, 'ring_P': 534, 'ring_Q': 708, 'ring_R': 483, 'ring_S': 449, 'ring_T': 2067,
    'ring_U': 797, 'ring_X': 500}
DEPTH_SAMPLE_MASK = 31
DEPTH_FACTOR = 1.5      # depth(family, n) <= DEPTH_FACTOR * calibrated + DEPTH_C
DEPTH_C = 100
GROWTH = 8              # steps(2n) <= GROWTH * steps(n) + GROWTH_C   for n >= 8
GROWTH_C = 20000          # absorbs one-off steps of cheap memo-served queries (208 -> 8.6k, then flat)
NS = [1, 2, 4, 8, 16, 32, 64]
NS_RING = [1, 2, 4, 8, 16, 32, 40]   # the property speaks of cyclic graphs of up to 40 nodes
WATCHDOG_S = 600          # CPU seconds of the worker per program (ITIMER_VIRTUAL: load independent)
WATCHDOG_WALL_S = 3600    # last resort for a worker blocked without using CPU
STOP_AFTER_VIOLATIONS = 1     # stop after the first stage that produced an unlisted violation


def ns_of(family):
    return NS_RING if family.startswith('ring_') else NS


METHODS = ['infer', 'goto', 'help', 'get_references', 'get_signatures', 'complete']


def budget_for(method, tier=None):
    cal = CAL_MAX_STEPS.get(tier or _TIER[0]) or CAL_MAX_STEPS.get('thorough') or {}
    return FACTOR * cal.get(method, max(cal.values() or [50000]))


def infers_budget(tier=None):
    v = CAL_MAX_INFERS.get(tier or _TIER[0]) or CAL_MAX_INFERS.get('thorough') or 0
    return FACTOR * v


_TIER = ['quick']


def budget64(family):
    return FACTOR * CAL_STEPS64.get(family, max(CAL_STEPS64.values() or [50000]))


def depth_budget(family):
    cal = CAL_DEPTH_FAM.get(family)
    return None if cal is None else int(DEPTH_FACTOR * cal + DEPTH_C)


def budget_family(family):
    return FACTOR * CAL_STEPS_FAM.get(family, max(CAL_STEPS_FAM.values() or [50000]))


# ----------------------------------------------------------------------------- step counter

class _BudgetStop(BaseException):
    """Raised by the monitoring callback inside jedi when the step budget is exhausted."""


class _Watchdog(BaseException):
    pass


class _Counter:
    tool = None
    prefix = None
    count = 0
    limit = None          # None = count only
    step = 0
    trips = 0
    warnings = None
    maxdepth = 0          # deepest python stack seen at a sampled function entry


_C = _Counter()


def _on_start(code, offset):
    if not code.co_filename.startswith(_C.prefix):
        return sys.monitoring.DISABLE
    _C.count += 1
    if not _C.count & DEPTH_SAMPLE_MASK:
        # every 32nd counted entry: length of the python stack (count based, not time based)
        f = sys._getframe(1)
        d = 0
        while f is not None:
            d += 1
            f = f.f_back
        if d > _C.maxdepth:
            _C.maxdepth = d
    if _C.limit is not None and _C.count > _C.limit:
        # hard stop; should some handler swallow it, stop again a little later
        _C.limit += _C.step
        _C.trips += 1
        raise _BudgetStop()


def _install_counter():
    if _C.tool is not None:
        return
    mon = sys.monitoring
    _C.prefix = os.path.join(os.path.abspath(boot.REPO), 'jedi', 'inference') + os.sep
    for tool in (3, 4, 2, 1):
        try:
            mon.use_tool_id(tool, 'jv-c15')
        except ValueError:
            continue
        _C.tool = tool
        break
    else:
        raise RuntimeError('no free sys.monitoring tool id')
    mon.register_callback(_C.tool, mon.events.PY_START, _on_start)
    mon.set_events(_C.tool, mon.events.PY_START)


WARN_CLASSES = [
    ('catched stmt recursion', 'stmt-guard'),
    ('Recursion limit', 'depth-limit'),
    ('Function execution limit', 'total-exec-limit'),
    ('Per function execution limit', 'per-func-exec-limit'),
    ('Per function recursion limit', 'per-func-recursion-limit'),
    ('In value %s there were too many', 'infer-cap-300'),
    ('Found a generator recursion', 'generator-memo-guard'),
]


def _install_warning_tap():
    """Harness-side tap on jedi.debug.warning (callers look it up as `debug.warning` at call
    time): counts which give-up mechanisms fire.  Only feeds evidence, never a verdict."""
    from jedi import debug
    if getattr(debug.warning, '_jv_tap', False):
        return
    orig = debug.warning
    _C.warnings = {}

    def warning(message, *args, **kwargs):
        for prefix, cls in WARN_CLASSES:
            if message.startswith(prefix):
                _C.warnings[cls] = _C.warnings.get(cls, 0) + 1
                break
        return orig(message, *args, **kwargs)
    warning._jv_tap = True
    debug.warning = warning


def _alarm(signum, frame):
    raise _Watchdog()


def host_recursion_limit():
    """The interpreter recursion limit that a host with the DEFAULT limit has after importing
    jedi from $JV_REPO (3000 on the pinned tree: jedi/api/__init__.py raises it at import).
    Measured in a clean child interpreter; every worker runs all its queries under that limit
    (jv.pool raises the limit of its workers to 3000 before jedi is even imported, which would
    hide what jedi itself does or does not do about the limit)."""
    v = os.environ.get('JV_C15_HOSTLIMIT')
    if not v:
        import subprocess
        env = {k: x for k, x in os.environ.items() if k not in ('LD_PRELOAD', 'PYTHONPATH')}
        out = subprocess.run(
            [sys.executable, '-B', '-c',
             'import sys; sys.path.insert(0, sys.argv[1]); import jedi; '
             'print(sys.getrecursionlimit())', os.path.abspath(boot.REPO)],
            env=env, capture_output=True, text=True, timeout=600)
        v = out.stdout.strip().splitlines()[-1] if out.returncode == 0 and out.stdout.strip() \
            else ''
        if not v.isdigit():
            raise RuntimeError('cannot measure the host recursion limit: %s' % out.stderr[-500:])
        os.environ['JV_C15_HOSTLIMIT'] = v
    return int(v)


def _init():
    jedi = boot.boot()
    env = boot.environment()
    _install_counter()
    _install_warning_tap()
    signal.signal(signal.SIGALRM, _alarm)
    signal.signal(signal.SIGVTALRM, _alarm)
    # warm the process-wide caches (typeshed stubs) so that counts do not depend on which
    # program a worker happens to see first
    root = os.path.join(boot.scratch_root(), 'c15warm-%d' % os.getpid())
    os.makedirs(root, exist_ok=True)
    project = jedi.Project(root, smart_sys_path=False, added_sys_path=[root])
    code = 'class K:\n    x = 1\ndef f():\n    return K()\nl = [f()]\nl[0].x.\nl[0].x\nf(\n'
    p = os.path.join(root, 'warm.py')
    jedi.Script(code, path=p, environment=env, project=project).complete(6, 7)
    jedi.Script(code, path=p, environment=env, project=project).infer(7, 6)
    jedi.Script(code, path=p, environment=env, project=project).get_signatures(8, 2)
    jedi.Script(code, path=p, environment=env, project=project).get_references(7, 0)
    sys.setrecursionlimit(host_recursion_limit())


# ----------------------------------------------------------------------------- probes

NAME_RE = re.compile(r'\b(?:n\d+|r)\b')
ATTR_RE = re.compile(r'\.(a|b|x)\b')


def probes_of(text, from_line=1, with_refs_on_attrs=False):
    """-> list of (method, line, col) for one file: every use of a node name, every payload
    attribute, every call parenthesis, every dot."""
    out = []
    for ln, line in enumerate(text.split('\n'), 1):
        if ln < from_line:
            continue
        if line.endswith('.'):
            # `<probe>.` repeats the line before it: only the completion after the last dot
            out.append(('complete', ln, len(line)))
            continue
        for m in NAME_RE.finditer(line):
            for meth in ('infer', 'goto', 'help', 'get_references'):
                out.append((meth, ln, m.start() + 1))
        for m in ATTR_RE.finditer(line):
            col = m.start() + 1
            out.append(('complete', ln, col))
            for meth in ('infer', 'goto', 'help'):
                out.append((meth, ln, col))
            if with_refs_on_attrs:
                out.append(('get_references', ln, col))
        stripped = line.lstrip()
        if not stripped.startswith(('def ', 'class ')):
            for m in re.finditer(r'[\w)\]]\(', line):
                out.append(('get_signatures', ln, m.end()))
    return out


def _safe(s):
    return re.sub(r'[^A-Za-z0-9]', '_', s)[:80]


def _materialise(task):
    """-> (program dir, {relpath: text}, {relpath: [probes]})"""
    if task['kind'] == 'graph':
        atoms, variant = gen.parse_graph_id(task['id'])
        prog = gen.render(atoms, variant)
        files = prog['files']
        probes = {}
        for rel, text in sorted(files.items()):
            probes[rel] = probes_of(text, with_refs_on_attrs=(rel == 'main.py'))
        layout = prog['layout']
    else:
        prog = gen.scaling(task['family'], task['n'])
        files = prog['files']
        main = files['main.py']
        lines = main.split('\n')
        first = max(i for i, s in enumerate(lines, 1) if s.startswith('r = '))
        probes = {'main.py': probes_of(main, from_line=first, with_refs_on_attrs=True)}
        layout = 'mods' if len(files) > 1 else 'file'
    d = os.path.join(boot.scratch_root(), 'c15p-%d' % os.getpid(), _safe(task['id']))
    if layout == 'mods':
        os.makedirs(d, exist_ok=True)
        for rel, text in files.items():
            with open(os.path.join(d, rel), 'w') as f:
                f.write(text)
    return d, files, probes, layout


def _touch(method, res):
    res = list(res)
    for r in canon.cap(res):
        r.name, r.type, r.description, r.full_name, r.module_path, r.line, r.column
        if method == 'get_signatures':
            r.index, r.bracket_start, r.to_string()
    return len(res)


def _one_query(jedi, env, project, code, path, method, line, col, limit):
    """One query on a fresh Script under the step counter.
    -> dict(steps, infers, n, depth, fail=None|dict(site, tb, cls))"""
    script = jedi.Script(code, path=path, environment=env, project=project)
    return _measure(lambda: _touch(method, getattr(script, method)(line, col)),
                    method, limit, script)


def _measure(thunk, method, limit, script):
    """Run thunk() under the step counter, the budget and the depth sampler."""
    base = 0
    f = sys._getframe()
    while f is not None:
        base += 1
        f = f.f_back
    _C.maxdepth = 0
    _C.count = 0
    _C.trips = 0
    _C.limit = limit
    _C.step = max(1, (limit or 0) // 10)
    fail = None
    n = None
    try:
        try:
            n = thunk()
        finally:
            steps = _C.count
            _C.limit = None
    except _BudgetStop as e:
        fail = {'site': 'step-budget-exceeded@%s' % method, 'cls': 'budget',
                'tb': 'more than %d calls into jedi/inference (budget = %d x calibrated maximum)'
                      '; stopped at: %s' % (limit, FACTOR, _where(e))}
    except (_Watchdog, KeyboardInterrupt, SystemExit):
        raise
    except (RecursionError, MemoryError) as e:
        # the innermost frame of a RecursionError depends on the depth the caller started at:
        # classify by query only
        fail = {'site': '%s@%s' % (type(e).__name__, method), 'cls': 'exception',
                'tb': canon.short_tb(e, 4)}
    except BaseException as e:
        fail = {'site': canon.exc_site(e), 'cls': 'exception', 'tb': canon.short_tb(e)}
    if fail is None and _C.trips:
        # the stop was raised but something swallowed it and the query still returned
        fail = {'site': 'step-budget-exceeded@%s' % method, 'cls': 'budget',
                'tb': 'budget stop raised %d time(s) and swallowed; query returned' % _C.trips}
    try:
        infers = sum(script._inference_state.inferred_element_counts.values())
    except Exception:
        infers = -1
    return {'steps': steps, 'infers': infers, 'n': n, 'fail': fail,
            'depth': max(0, _C.maxdepth - base)}


# ---- two-step queries: Name/Completion objects infer lazily, after the Script method returned

LAZY_METHODS = ['infer', 'goto', 'docstring', 'get_signatures', 'get_type_hint', 'defined_names',
                'execute']
LAZY_PICKS = [0, 1, -2, -1]      # first two and last two results of every source


def _lazy_sources(task, files):
    """-> [(source label, line, col, getter(script))] on main.py."""
    lines = files['main.py'].split('\n')
    if task['kind'] == 'scale':
        word = 'r'
        ln = max(i for i, s in enumerate(lines, 1) if s.startswith('r = ')) + 1   # `r.x` / `r.a`
        src = [('get_names', 0, 0, lambda sc: sc.get_names(all_scopes=True)),
               ('search', 0, 0, lambda sc: sc.search(word)),
               ('goto', ln, 0, lambda sc: sc.goto(ln, 0)),
               ('complete', ln, 1, lambda sc: sc.complete(ln, 1))]
    else:
        src = [('get_names', 0, 0, lambda sc: sc.get_names(all_scopes=True))]
    return src


def _touch_lazy(res):
    if isinstance(res, str) or res is None:
        return len(res or '')
    res = list(res)
    for r in canon.cap(res):
        r.name, r.type
    return len(res)


def _where(e):
    import traceback
    fr = traceback.extract_tb(e.__traceback__)
    names = [f.name for f in fr if f.filename.startswith(_C.prefix)]
    return '>'.join(names[-4:])


def _after_abort():
    """A query was aborted in the middle of arbitrary jedi code (possibly in the middle of a
    pipe exchange with the helper): drop the helper and start another one."""
    env = boot.environment()
    try:
        sp = env._subprocess
        if sp is not None:
            sp._kill()
    except Exception:
        pass
    boot.reset_environment()


def _work(task):
    jedi = boot.boot()
    only = task.get('only')          # replay: [rel, method, line, col]
    d, files, probes, layout = _materialise(task)
    project = jedi.Project(d, smart_sys_path=False, added_sys_path=[d])
    fails = []
    per_method = {}
    classes = set()
    nq = 0
    npos = set()
    max_infers = 0
    table = {}
    dtable = {}
    max_depth = 0
    lazy_max = [0, None]
    nonempty = 0
    total_steps = 0
    if _C.warnings is not None:
        _C.warnings.clear()
    aborted = False
    calibrating = False
    counter_broken = None
    sys.setrecursionlimit(host_recursion_limit())
    signal.setitimer(signal.ITIMER_VIRTUAL, float(task.get('watchdog', WATCHDOG_S)))
    signal.alarm(WATCHDOG_WALL_S)
    t0 = time.time()
    cpu0 = time.process_time()
    try:
        def limit_for(method):
            nonlocal calibrating
            limit = task.get('limit')
            if limit is None:
                limit = budget_for(method, task.get('tier'))
                if task['kind'] == 'scale':
                    limit = budget_family(task['family'])
            elif limit == 0:
                limit = None     # calibration: count only
                calibrating = True
            return limit

        def account(r, rel, method, line, col, code, direct):
            nonlocal nq, total_steps, max_infers, counter_broken, nonempty, max_depth, aborted
            nq += 1
            total_steps += r['steps']
            npos.add((rel, line, col))
            label = '%s:%s@%d,%d' % (rel, method, line, col)
            if direct:
                cur = per_method.get(method)
                if cur is None or r['steps'] > cur[0]:
                    per_method[method] = [r['steps'], label]
            elif r['steps'] > lazy_max[0]:
                lazy_max[:] = [r['steps'], label]
            max_infers = max(max_infers, r['infers'])
            if direct and r['infers'] > r['steps'] and counter_broken is None:
                counter_broken = [label, r['steps'], r['infers']]
            if r['n'] and method == 'infer' and col > 0 \
                    and code.split('\n')[line - 1][col - 1:col] == '.':
                nonempty += 1      # a payload attribute (`.a`, `.b`, `.x`) resolved
            classes.add('%s/%s/%s/2^%d' % (layout, method.split('[')[0] + method.split(']')[-1],
                                           'some' if r['n'] else 'none',
                                           max(r['steps'], 1).bit_length()))
            if task['kind'] == 'scale':
                table[label] = r['steps']
                dtable[label] = r['depth']
            max_depth = max(max_depth, r['depth'])
            f = r['fail']
            ib = infers_budget(task.get('tier'))
            if f is None and ib and not calibrating and r['infers'] > ib:
                f = {'site': 'infer-count-exceeded@%s' % method, 'cls': 'budget',
                     'tb': 'sum(inferred_element_counts) = %d > %d x %d'
                           % (r['infers'], FACTOR, ib // FACTOR)}
            if f is not None:
                f = dict(f, probe=[rel, method, line, col], steps=r['steps'],
                         infers=r['infers'])
                fails.append(f)
                if f['cls'] == 'budget' and f['site'].startswith('step-budget'):
                    _after_abort()
                    aborted = True     # the remaining probes of this program are skipped

        for rel in sorted(probes):
            code = files[rel]
            path = os.path.join(d, rel)
            for method, line, col in probes[rel]:
                if only and [rel, method, line, col] != list(only):
                    continue
                if aborted:
                    break
                env = boot.environment()
                r = _one_query(jedi, env, project, code, path, method, line, col,
                               limit_for(method))
                account(r, rel, method, line, col, code, True)

        # two-step queries on main.py: one fresh Script per source, its results are asked lazily
        code = files['main.py']
        path = os.path.join(d, 'main.py')
        for src, line, col, getter in _lazy_sources(task, files):
            first = 'two-step:' + src
            if only and (only[0] != 'main.py' or not (
                    only[1] == first or only[1].startswith(src + '['))):
                continue
            if aborted:
                break
            env = boot.environment()
            script = jedi.Script(code, path=path, environment=env, project=project)
            holder = {}
            r0 = _measure(lambda: len(holder.setdefault('names', list(getter(script)))),
                          first, limit_for(src), script)
            if not only or only[1] == first:
                account(r0, 'main.py', first, line, col, code, False)
            names = holder.get('names', []) if r0['fail'] is None else []
            for pick in LAZY_PICKS:
                if not (-len(names) <= pick < len(names)):
                    continue
                obj = names[pick]
                for lm in LAZY_METHODS:
                    method = '%s[%d].%s' % (src, pick, lm)
                    if only and only[1] != method:
                        continue
                    if aborted or not hasattr(obj, lm):
                        continue
                    r = _measure(lambda: _touch_lazy(getattr(obj, lm)()), method,
                                 limit_for(lm), script)
                    account(r, 'main.py', method, line, col, code, False)
    except _Watchdog:
        steps = _C.count
        _C.limit = None
        _after_abort()
        return {'watchdog': True, 'steps_at_alarm': steps, 'nq': nq,
                'wall': round(time.time() - t0, 1)}
    finally:
        signal.setitimer(signal.ITIMER_VIRTUAL, 0)
        signal.alarm(0)
        _C.limit = None
        if layout == 'mods' and not os.environ.get('JV_KEEP_SCRATCH'):
            import shutil
            shutil.rmtree(d, ignore_errors=True)
    files_out = files if (fails or only or not task.get('lean')) else None
    return {'fails': fails, 'nq': nq, 'npos': len(npos), 'per_method': per_method,
            'max_infers': max_infers, 'classes': sorted(classes), 'layout': layout,
            'warnings': dict(_C.warnings or {}), 'table': table, 'dtable': dtable,
            'max_depth': max_depth, 'lazy_max': lazy_max, 'nonempty': nonempty,
            'aborted': aborted, 'counter_broken': counter_broken, 'files': files_out,
            'cpu': round(time.process_time() - cpu0, 3),
            'total_steps': sum(table.values()) if False else total_steps}


# ----------------------------------------------------------------------------- levels

def _cycle3(atoms):
    """exactly a directed 3-cycle: 3 atoms, every node one out- and one in-atom, no loop."""
    return (len(atoms) == 3 and sorted(i for i, _, _ in atoms) == [0, 1, 2]
            and sorted(j for _, j, _ in atoms) == [0, 1, 2] and all(i != j for i, j, _ in atoms))


def _cyclic(atoms):
    succ = {}
    for i, j, _ in atoms:
        succ.setdefault(i, set()).add(j)
    for start in succ:
        todo = list(succ[start])
        seen = set()
        while todo:
            x = todo.pop()
            if x == start:
                return True
            if x not in seen:
                seen.add(x)
                todo.extend(succ.get(x, ()))
    return False


def _levels(tier):
    """-> [(level name, [graph ids])], simplest first; ids are unique across levels."""
    import itertools
    seen = set()
    levels = []

    def add(name, items):
        ids = []
        for atoms, variant in items:
            gid = gen.graph_id(tuple(sorted(atoms)), variant)
            if gid not in seen:
                seen.add(gid)
                ids.append(gid)
        levels.append((name, ids))

    small2 = []
    for n, m in [(1, 1), (1, 2), (2, 1), (2, 2)]:
        small2.extend(gen.graphs(n, m))
    small3 = gen.graphs(3, 2)
    sh = {n: gen.shapes(n) for n in (1, 2, 3)}
    sh3_sparse = [s for s in sh[3] if len(s) <= 4]
    sh3_dense = [s for s in sh[3] if len(s) > 4]
    singles = gen.kind_sets(1)
    pairs = [k for k in gen.kind_sets(2) if len(k) == 2]
    g33 = gen.graphs(3, 3)
    cyc3 = [a for a in g33 if _cycle3(a)]
    add('all graphs, <=3 nodes, <=2 atoms, pure', [(a, 'p') for a in small2 + small3])
    add('all cyclic graphs, <=2 nodes, <=2 atoms, with base definitions',
        [(a, 'b') for a in small2 if _cyclic(a)])
    add('uniform: every shape on <=2 nodes and every shape with <=3 arcs on 3 nodes x 1 kind',
        [(gen.uniform(s, k), 'p') for s in sh[1] + sh[2] + sh3_sparse if len(s) <= 3
         for k in singles])
    add('3-cycles, every kind triple', [(a, 'p') for a in cyc3])
    add('uniform: every shape on <=2 nodes with <=3 arcs x 2 kinds on every arc',
        [(gen.uniform(s, k), 'p') for s in sh[1] + sh[2] if len(s) <= 3 for k in pairs])
    desc = []
    for n, m in [(1, 1), (1, 2), (2, 1), (2, 2), (3, 2)]:
        desc.extend(gen.graphs(n, m, kinds=gen.DESC_ALPHABET))
    desc.extend(a for a in gen.graphs(3, 3, kinds=gen.DESC_ALPHABET) if _cycle3(a))
    desc = [a for a in desc if any(k in gen.DESC_KINDS for _, _, k in a)]
    add('description kinds (:rtype:, string annotations, :type q:) mixed with call and attribute:'
        ' all graphs, <=3 nodes, <=2 atoms, and all 3-cycles', [(a, 'p') for a in desc])
    add('description kinds: all cyclic graphs, <=2 nodes, <=2 atoms, with base definitions',
        [(a, 'b') for a in desc if _cyclic(a) and max(max(i, j) for i, j, _ in a) <= 1])
    if tier == 'quick':
        return levels
    add('all other graphs, <=3 nodes, <=2 atoms, with base definitions',
        [(a, 'b') for a in small2 + small3])
    add('uniform: every shape with 4 arcs on <=3 nodes x 1 kind',
        [(gen.uniform(s, k), 'p') for s in sh[2] + sh3_sparse if len(s) == 4 for k in singles])
    add('3-cycles, every kind triple, with base definitions', [(a, 'b') for a in cyc3])
    add('uniform: every shape with >4 arcs on 3 nodes x 1 kind',
        [(gen.uniform(s, k), 'p') for s in sh3_dense for k in singles])
    add('all graphs, 2 nodes, 3 atoms', [(a, 'p') for a in gen.graphs(2, 3)])
    sh4 = gen.shapes(4, 4)
    add('uniform: every shape on 4 nodes with <=4 arcs x 1 kind',
        [(gen.uniform(s, k), 'p') for s in sh4 for k in singles])
    cyc4 = []
    seen4 = set()
    for ks in itertools.product(gen.KINDS, repeat=4):
        c = min(ks[i:] + ks[:i] for i in range(4))
        if c in seen4:
            continue
        seen4.add(c)
        cyc4.append(tuple((i, (i + 1) % 4, c[i]) for i in range(4)))
    add('4-cycles, every kind quadruple', [(a, 'p') for a in cyc4])
    add('all graphs, 3 nodes, 3 atoms', [(a, 'p') for a in g33])
    add('uniform: every shape with <=3 arcs on 3 nodes x 2 kinds',
        [(gen.uniform(s, k), 'p') for s in sh[3] if len(s) <= 3 for k in pairs])
    add('uniform: the 4-arc shape on 2 nodes x 2 kinds',
        [(gen.uniform(s, k), 'p') for s in sh[2] if len(s) > 3 for k in pairs])
    return levels


def _scale_tasks():
    return [{'kind': 'scale', 'id': 's:%s:%d' % (fam, n), 'family': fam, 'n': n, 'lean': True}
            for fam in gen.SCALING for n in ns_of(fam)]


# ----------------------------------------------------------------------------- run

def _scaling_verdicts(tables, emit):
    """tables: {family: {n: {label: steps}}}.  Probe labels differ between n (line numbers),
    so queries are matched by their rank in the probe list, which is the same for every n."""
    checked = 0
    for fam, by_n in sorted(tables.items()):
        seqs = {}
        for n, tab in by_n.items():
            for rank, (label, steps) in enumerate(tab):
                meth = label.split(':')[1].split('@')[0]
                seqs.setdefault((rank, meth), {})[n] = (steps, label)
        top = ns_of(fam)[-1]
        for (rank, meth), col in sorted(seqs.items()):
            for n in ns_of(fam):
                if n < 8 or n not in col or 2 * n not in col:
                    continue
                checked += 1
                a, b = col[n][0], col[2 * n][0]
                if b > GROWTH * a + GROWTH_C:
                    emit('superpolynomial-growth@%s' % fam,
                         's:%s|q%d:%s|n=%d->%d' % (fam, rank, meth, n, 2 * n),
                         {'family': fam, 'query': col[2 * n][1], 'steps_n': a, 'steps_2n': b,
                          'n': n, 'rule': 'steps(2n) <= %d*steps(n) + %d' % (GROWTH, GROWTH_C),
                          'series': {str(k): v[0] for k, v in sorted(col.items())}},
                         {'scaling': fam, 'rank': rank, 'n': n})
            if top in col and CAL_STEPS64 and col[top][0] > budget64(fam):
                emit('steps-at-top-n-over-budget@%s' % fam,
                     's:%s|q%d:%s|n=%d' % (fam, rank, meth, top),
                     {'family': fam, 'query': col[top][1], 'steps': col[top][0],
                      'budget': budget64(fam)},
                     {'scaling': fam, 'rank': rank, 'n': top})
    return checked


def run(ctx):
    calibrate = bool(os.environ.get('JV_C15_CALIBRATE'))
    _TIER[0] = ctx.tier
    try:
        host_limit = host_recursion_limit()     # also exported to the workers (environment)
    except Exception as e:
        ctx.harness_error('host recursion limit: %r' % (e,))
        return
    if not CAL_MAX_STEPS.get(ctx.tier) and not calibrate:
        ctx.harness_error('C15 is not calibrated (CAL_MAX_STEPS empty)')
        return
    states = transitions = 0
    classes = set()
    done_levels = []
    exhaustive = True
    samples = []
    kind_hits = {k: 0 for k in gen.ALL_KINDS}
    kind_live = {k: 0 for k in gen.ALL_KINDS}
    layouts = {}
    warn_programs = {}
    obs_max = {}
    obs_max_infers = 0
    nviol = 0
    stopped_early = False
    cpu = [0.0, 0]
    obs_depth_a = [0]
    obs_lazy = [0, None]

    known = findings.load(ID)
    # maintenance aid: explore everything even after a violation (to list all failing inputs)
    no_early_stop = bool(os.environ.get('JV_C15_NO_EARLY_STOP'))

    def violation(site, input_id, detail, case):
        nonlocal nviol
        if not any(e['site'] == site and input_id in e['_inputs'] for e in known):
            nviol += 1          # listed known findings do not count towards the early stop
        ctx.violation(site, input_id, detail, case)

    def absorb_result(t, r, level):
        nonlocal states, transitions, obs_max_infers
        if r.get('watchdog'):
            over = r['steps_at_alarm'] > max(budget_for(m) for m in METHODS)
            if over:
                violation('hang@program', t['id'], {'steps_at_alarm': r['steps_at_alarm'],
                                                    'wall': r['wall']}, {'task': t})
            else:
                ctx.harness_error('%s: task %s hit the watchdog (%d CPU-s) with only %d '
                                  'counted steps in the running query (not a verdict)'
                                  % (level, t['id'], WATCHDOG_S, r['steps_at_alarm']))
            return
        states += r['npos']
        transitions += r['nq']
        cpu[0] += r.get('cpu', 0)
        cpu[1] += r.get('total_steps', 0)
        classes.update(r['classes'])
        layouts[r['layout']] = layouts.get(r['layout'], 0) + 1
        for w in r['warnings']:
            warn_programs[w] = warn_programs.get(w, 0) + 1
        for m, (steps, label) in r['per_method'].items():
            if m not in obs_max or steps > obs_max[m][0]:
                obs_max[m] = [steps, t['id'] + '|' + label]
        obs_max_infers = max(obs_max_infers, r['max_infers'])
        if r.get('lazy_max') and r['lazy_max'][0] > obs_lazy[0]:
            obs_lazy[:] = [r['lazy_max'][0], t['id'] + '|' + str(r['lazy_max'][1])]
        if t['kind'] == 'graph':
            obs_depth_a[0] = max(obs_depth_a[0], r.get('max_depth', 0))
        if r['counter_broken']:
            ctx.harness_error('step counter below inferred_element_counts on %s: %s'
                              % (t['id'], r['counter_broken']))
        for f in r['fails'][:6]:
            rel, method, line, col = f['probe']
            violation(f['site'], '%s|%s:%s@%d,%d' % (t['id'], rel, method, line, col),
                      {'files': r['files'], 'probe': f['probe'], 'observed': f['tb'],
                       'steps': f['steps'], 'infers': f['infers'],
                       'budget': None if calibrate else budget_for(method)},
                      {'task': {k: v for k, v in t.items() if k not in ('lean', 'limit')},
                       'probe': f['probe']})

    level_cost = {}
    only_levels = os.environ.get('JV_C15_LEVELS')      # development aid: "0,2,s"
    # ---- (b) scaling families (first: cheap, and the only place where the execution limits
    #      and the per-scope inference cap are the last line of defence)
    tables = {}
    obs64 = {}
    obsfam = {}
    obsdepth = {}
    depth_series = {}
    ndepth = 0
    nscale = 0
    if ctx.time_left() > 10 and (not only_levels or 's' in only_levels):
        cpu_before = list(cpu)
        tasks = _scale_tasks()
        for t in tasks:
            t['tier'] = ctx.tier
        if calibrate:
            for t in tasks:
                t['limit'] = 0
        # biggest first so that the long ones do not end up last on one worker
        tasks.sort(key=lambda t: -t['n'])
        pres = pool.run(tasks, 'jv.props.c15:_work', init='jv.props.c15:_init',
                        seed=ctx.seed, deadline=ctx.deadline, tag='c15s')
        ctx.absorb(pres, 'scaling')
        for i, t in enumerate(tasks):
            if i in pres.crashed:
                violation('WorkerDied@program', t['id'], {'exit': pres.crashed[i]},
                          {'task': {k: v for k, v in t.items() if k not in ('lean', 'limit')}})
                continue
            r = pres.results.get(i)
            if r is None:
                continue
            nscale += 1
            absorb_obs = dict(r)
            absorb_obs['per_method'] = {}       # budget (a) is calibrated over (a) only
            absorb_result(t, absorb_obs, 'scaling')
            if not r.get('watchdog'):
                tables.setdefault(t['family'], {})[t['n']] = list(r['table'].items())
                if r['table']:
                    obsfam[t['family']] = max(obsfam.get(t['family'], 0),
                                              max(r['table'].values()))
                if t['n'] == ns_of(t['family'])[-1] and r['table']:
                    obs64[t['family']] = max(r['table'].values())
                obsdepth[t['family']] = max(obsdepth.get(t['family'], 0), r['max_depth'])
                depth_series.setdefault(t['family'], {})[str(t['n'])] = r['max_depth']
                db = depth_budget(t['family'])
                ndepth += 1
                if db is not None and not calibrate and r['max_depth'] > db:
                    deepest = max(r['dtable'].items(), key=lambda kv: kv[1])
                    violation('stack-depth-over-budget@%s' % t['family'], t['id'] + '|depth',
                              {'family': t['family'], 'n': t['n'], 'query': deepest[0],
                               'python_stack_depth': r['max_depth'], 'budget': db,
                               'rule': 'depth <= %s * %d (calibrated maximum of the family over '
                                       'all n) + %d' % (DEPTH_FACTOR, CAL_DEPTH_FAM[t['family']],
                                                        DEPTH_C)},
                              {'task': {k: v for k, v in t.items() if k not in ('lean', 'limit')},
                               'depth_check': True})
        if pres.skipped:
            exhaustive = False
            ctx.note('scaling: %d of %d programs not explored (time cap)'
                     % (len(pres.skipped), len(tasks)))
        else:
            done_levels.append('scaling: %d families x n in %s (rings: %s)'
                               % (len(gen.SCALING), NS, NS_RING))
        ngrowth = _scaling_verdicts(tables, violation)
        samples.append({'level': 'scaling', 'id': 's:call_tree:2',
                        'files': gen.scaling('call_tree', 2)['files']})
        level_cost['scaling'] = {'programs': len(tasks),
                                 'worker_cpu_s': round(cpu[0] - cpu_before[0], 1),
                                 'steps': cpu[1] - cpu_before[1]}
        if nviol >= STOP_AFTER_VIOLATIONS and not calibrate and not no_early_stop:
            stopped_early = True
            ctx.note('stopping after the scaling families: %d violations already' % nviol)
    else:
        exhaustive = False
        ngrowth = 0
        ctx.note('scaling families not run')

    # ---- (a) definition graphs
    all_levels = _levels(ctx.tier)
    if only_levels:
        all_levels = [lv for k, lv in enumerate(all_levels) if str(k) in only_levels.split(',')]
    for name, ids in all_levels:
        cpu_before = list(cpu)
        if stopped_early:
            exhaustive = False
            continue
        if ctx.time_left() < 10:
            exhaustive = False
            ctx.note('level "%s" not started (time cap)' % name)
            continue
        tasks = [{'kind': 'graph', 'id': gid, 'lean': True, 'tier': ctx.tier} for gid in ids]
        if calibrate:
            for t in tasks:
                t['limit'] = 0
        pres = pool.run(tasks, 'jv.props.c15:_work', init='jv.props.c15:_init',
                        seed=ctx.seed, deadline=ctx.deadline, tag='c15')
        ctx.absorb(pres, name)
        for i, t in enumerate(tasks):
            if i in pres.crashed:
                violation('WorkerDied@program', t['id'],
                          {'exit': pres.crashed[i],
                           'files': gen.render(*gen.parse_graph_id(t['id']))['files']},
                          {'task': {'kind': 'graph', 'id': t['id'], 'tier': ctx.tier}})
                continue
            r = pres.results.get(i)
            if r is None:
                continue
            atoms, _ = gen.parse_graph_id(t['id'])
            for k in {k for _, _, k in atoms}:
                kind_hits[k] += 1
                if r.get('nonempty'):
                    kind_live[k] += 1
            absorb_result(t, r, name)
        if pres.skipped:
            exhaustive = False
            ctx.note('level "%s": %d of %d programs not explored (time cap)'
                     % (name, len(pres.skipped), len(tasks)))
        else:
            done_levels.append('%s: %d programs' % (name, len(tasks)))
        if tasks:
            mid = tasks[len(tasks) // 2]['id']
            samples.append({'level': name, 'id': mid,
                            'files': gen.render(*gen.parse_graph_id(mid))['files']})
        level_cost[name] = {'programs': len(tasks),
                            'worker_cpu_s': round(cpu[0] - cpu_before[0], 1),
                            'steps': cpu[1] - cpu_before[1]}
        if nviol >= STOP_AFTER_VIOLATIONS and not calibrate and not no_early_stop:
            stopped_early = True
            ctx.note('stopping after level "%s": %d violations already' % (name, nviol))

    series = {}
    for fam, by_n in tables.items():
        series[fam] = {str(n): max([s for _, s in tab] or [0]) for n, tab in sorted(by_n.items())}
    if calibrate:
        print('CALIBRATION (paste into jv/props/c15.py):')
        print('CAL_MAX_STEPS[%r] = %r' % (ctx.tier, {m: v[0] for m, v in sorted(obs_max.items())}))
        print('CAL_MAX_INFERS[%r] = %r' % (ctx.tier, obs_max_infers))
        print('CAL_STEPS64 = %r' % dict(sorted(obs64.items())))
        print('CAL_STEPS_FAM = %r' % dict(sorted(obsfam.items())))
        print('CAL_DEPTH_FAM = %r' % dict(sorted(obsdepth.items())))
    ctx.coverage.update({
        'states': states, 'transitions': transitions, 'evaluations': transitions,
        'distinct_nontrivial': len(classes),
        'rule': 'state = (program, file, cursor position); transition = one query on a fresh '
                'Script (cold inference state) with the first 5 + last 2 results touched; '
                'distinct_nontrivial = distinct (layout, method, empty?, floor(log2(steps))) '
                'observation classes',
        'levels_completed': done_levels, 'exhaustive': exhaustive, 'samples': samples[:6],
        'edge_kinds': gen.KIND_NAMES,
        'programs_per_edge_kind': kind_hits,
        'programs_per_edge_kind_in_which_some_payload_attribute_resolved': kind_live,
        'programs_per_layout': layouts,
        'programs_in_which_a_give_up_mechanism_fired': warn_programs,
        'budget_steps_per_method': {m: budget_for(m) for m in METHODS} if CAL_MAX_STEPS else None,
        'calibrated_max_steps': CAL_MAX_STEPS, 'calibrated_max_infers': CAL_MAX_INFERS,
        'calibrated_steps64': CAL_STEPS64, 'factor': FACTOR,
        'observed_max_steps_this_run': obs_max, 'observed_max_infers_this_run': obs_max_infers,
        'observed_steps64_this_run': obs64, 'observed_family_max_this_run': obsfam,
        'calibrated_family_max': CAL_STEPS_FAM,
        'host_recursion_limit_after_import_jedi': host_limit,
        'two_step_sources': ['get_names(all_scopes)', 'search', 'goto', 'complete'],
        'two_step_lazy_methods': LAZY_METHODS, 'two_step_picks': LAZY_PICKS,
        'observed_max_steps_two_step_this_run': obs_lazy,
        'calibrated_family_stack_depth': CAL_DEPTH_FAM,
        'observed_family_stack_depth_this_run': obsdepth,
        'scaling_stack_depth_per_n': depth_series, 'depth_bounds_checked': ndepth,
        'depth_rule': 'python stack depth above the query call, sampled at every %d-th counted '
                      'entry, <= %s * calibrated family maximum + %d'
                      % (DEPTH_SAMPLE_MASK + 1, DEPTH_FACTOR, DEPTH_C),
        'observed_max_stack_depth_family_a': obs_depth_a[0],
        'scaling_max_steps_per_n': series,
        'worker_cpu_s': round(cpu[0], 1), 'total_steps': cpu[1], 'cost_per_level': level_cost,
        'scaling_programs': nscale, 'growth_inequalities_checked': ngrowth,
        'growth_rule': 'steps(2n) <= %d*steps(n) + %d for n >= 8, per query' % (GROWTH, GROWTH_C),
    })
    ctx.assumptions += [
        'configuration `stubs`: jedi from $JV_REPO with the vendored typeshed stdlib',
        'work = number of PY_START events (sys.monitoring) of code objects whose co_filename '
        'lies under $JV_REPO/jedi/inference/; time spent in parso, in jedi/api and in the helper '
        'process is not counted; every query runs on a fresh Script (cold inference state) in a '
        'process whose typeshed parser cache is warm',
        'budget per query method = %d x the maximum observed on the unchanged tree over family '
        '(a) of both tiers (constants CAL_* in the module); enforced as a hard stop'
        % FACTOR,
        'the literal space "every subset of <=2 of 10 kinds on each of the 9 ordered pairs of 3 '
        'nodes" has 56^9 members; what is enumerated completely is: all weakly connected '
        'graphs up to isomorphism with <=2 atoms (quick) / <=3 atoms (thorough) on <=3 nodes, '
        'every digraph shape with loops on <=3 nodes carrying one kind set on all its arcs, all '
        'directed 3-cycles (thorough: 4-cycles) with independent kinds per arc',
        'a program whose forward module-level references would be dead in one file (jedi and '
        'Python do not see a later binding of the same scope) is laid out as one module per '
        'node; programs are not required to run (self inheritance, import cycles)',
        'two-step queries: on main.py of every program the results of get_names(all_scopes=True) '
        '(scaling programs: also search(<last name>), goto and complete at the probe line) are '
        'taken at positions %s and each of %s is called on them, in this order, on the Script '
        'that produced them; same oracle (no exception, step budget, stack depth) per call; all '
        'queries run under the recursion limit a default host has after `import jedi`'
        % (LAZY_PICKS, LAZY_METHODS),
        'completion is asked after dots only; get_references on payload attributes only in '
        'main.py',
        'the watchdog (%d CPU-seconds / %d wall seconds per program) never produces a verdict on '
        'its own: without an exceeded step budget it is reported as a harness error'
        % (WATCHDOG_S, WATCHDOG_WALL_S),
    ]


# ----------------------------------------------------------------------------- replay

def _in_child(fn, arg):
    """Run fn(arg) in a forked child so that a dying interpreter is an observation."""
    import json
    r, w = os.pipe()
    pid = os.fork()
    if pid == 0:
        code = 0
        try:
            os.close(r)
            out = json.dumps(fn(arg), default=str).encode()
            with os.fdopen(w, 'wb') as f:
                f.write(out)
        except BaseException:
            import traceback
            traceback.print_exc()
            code = 4
        os._exit(code)
    os.close(w)
    with os.fdopen(r, 'rb') as f:
        data = f.read()
    _, status = os.waitpid(pid, 0)
    if status != 0 or not data:
        return None, status
    return json.loads(data), 0


def _replay_task(task):
    _init()
    return _work(task)


def replay(case):
    out = []
    if 'scaling' in case:
        fam, rank, n = case['scaling'], case['rank'], case['n']
        tables = {fam: {}}
        for k in ([n, 2 * n] if n != ns_of(fam)[-1] else [n]):
            t = {'kind': 'scale', 'id': 's:%s:%d' % (fam, k), 'family': fam, 'n': k}
            r, status = _in_child(_replay_task, t)
            if r is None:
                return [('WorkerDied@program', t['id'], 'exit status %s' % status)]
            if r.get('watchdog'):
                return []
            tables[fam][k] = list(r['table'].items())
        _scaling_verdicts(tables, lambda site, iid, detail, case_: out.append((site, iid, detail))
                          if ('|q%d:' % rank) in iid else None)
        return out
    if case.get('depth_check'):
        t = dict(case['task'])
        r, status = _in_child(_replay_task, t)
        if r is None:
            return [('WorkerDied@program', t['id'], 'exit status %s' % status)]
        db = depth_budget(t['family'])
        if not r.get('watchdog') and db is not None and r['max_depth'] > db:
            return [('stack-depth-over-budget@%s' % t['family'], t['id'] + '|depth',
                     {'python_stack_depth': r['max_depth'], 'budget': db})]
        return []
    t = dict(case['task'])
    if case.get('probe'):
        t['only'] = case['probe']
    r, status = _in_child(_replay_task, t)
    if r is None:
        return [('WorkerDied@program', t['id'], 'exit status %s' % status)]
    if r.get('watchdog'):
        return [('hang@program', t['id'], r)] if r['steps_at_alarm'] > max(
            budget_for(m) for m in METHODS) else []
    for f in r['fails']:
        out.append((f['site'], t['id'], f['tb']))
    return out
