"""C06 — extract/inline keep the program valid and equivalent.

Engine E1.  Programs: PF compositions plus hand-shaped "function body" programs.  Selections:
(i) every AST expression node (cursor-only at its start, and explicit start..end range),
(ii) every character sub-range inside one line, (iii) every contiguous whole-line statement
range inside each function body; refactorings extract_variable / extract_function / inline
(every single-assignment variable).  Oracles: RefactoringError or compile() succeeds (clause A,
all selections); same stdout/exception when executed (clause B, selections certified pure);
extract_variable followed by inline is equivalent to the original (clause C).
"""
import ast
import os
import shutil

from .. import boot, canon, execute, pf, pool

ID = 'C06'
BUDGET = {'quick': 300, 'thorough': 2400}

SHAPED = {
    'shaped:body1': '''\
def helper(value):
    return value * 2


class Box:
    factor = 3

    def __init__(self, start):
        self.start = start

    def compute(self, amount, extra=1):
        # leading comment
        base = self.start + amount
        scaled = base * self.factor

        if scaled > 10:
            scaled = scaled - extra  # trailing comment
        total = helper(scaled) + \\
            extra
        return total

    @staticmethod
    def fixed(n):
        doubled = n + n
        return doubled

    @classmethod
    def make(cls, n):
        inst = cls(n)
        return inst


def main():
    box = Box.make(4)
    items = [box.compute(k) for k in (1, 2, 3)]
    text = 'sum=%d' % sum(items)
    pairs = {k: v for k, v in zip('ab', items)}
    print(text, sorted(pairs.items()), Box.fixed(5))


main()
''',
    'shaped:body2': '''\
import math


def area(radius, scale=1.0):
    r2 = radius * radius
    raw = math.pi * r2
    if scale != 1.0:
        raw = raw * scale
    rounded = round(raw, 2)
    return rounded


def report(values):
    out = []
    for v in values:
        a = area(v)
        label = 'r=%s' % v
        out.append((label, a))
    first, *rest = out
    return first, len(rest)


print(report([1, 2, 3]), area(2, scale=0.5))
''',
    'shaped:body3': '''\
def outer(seed):
    count = seed + 1

    def inner(step):
        local = count + step
        return local * 2
    both = inner(1) + inner(2)
    name = lambda z: z + count
    return both, name(3)


result = outer(5)
print(result)
''',
    # conditional rebinding read twice (input analysis must look at every read of a name)
    'shaped:body4': '''\
def flow(cond, num):
    acc = num + 1
    if cond:
        acc = num * 2
        low = acc - 1
    else:
        low = 0
    res = acc + low
    return res


print(flow(True, 5), flow(False, 5))
''',
    # one single-assignment variable per operator class, used as left and right operand of an
    # operator of the same precedence (parenthesisation of inline)
    'shaped:ops': '''\
def calc(a, b, c, d):
    pw = a ** b
    r1 = pw ** c
    r1b = c ** pw
    cmp = a < b
    r2 = cmp == d
    r2b = d == cmp
    sub = a - b
    r3 = c - sub
    r3b = sub - c
    add = a + b
    r4 = add * c
    neg = -a
    r5 = neg ** 2
    tern = a if b else c
    r6 = tern + 1
    tup = a, b
    r7 = tup[0]
    orr = a or b
    r8 = orr and c
    nt = not a
    r9 = nt == d
    dv = a / b
    r10 = c / dv
    return r1, r1b, r2, r2b, r3, r3b, r4, r5, r6, r7, r8, r9, r10


print(calc(2, 3, 2, True))
''',
    # chained conditional expressions: a character range can cover `a if c else b` of
    # `a if c else b if d else e`, which is not an expression of the grammar
    'shaped:cond': '''\
def pick(c, d, lo, mid, hi):
    got = lo if c else mid if d else hi
    return got


print(pick(1, 0, 'l', 'm', 'h'), pick(0, 1, 'l', 'm', 'h'), pick(0, 0, 'l', 'm', 'h'))
''',
    # one statement, several targets: inlining one name must not lose the other stores
    'shaped:chain': '''\
class Rec:
    pass


def fill(a, b):
    cache = {}
    rec = Rec()
    cache['sum'] = total = a + b
    rec.diff = delta = a - b
    first = second = a * b
    (pa, pb) = pair = (a, b)
    return total, delta, sorted(cache.items()), rec.diff, second, pa, pair, first


print(fill(5, 3))
''',
}


def _init():
    boot.boot()
    boot.environment()


def char_pos(lines, lineno, byte_col):
    return lineno, execute.char_col(lines[lineno - 1], byte_col)


class _Purity(ast.NodeVisitor):
    """Conservative purity: names, attributes of names, constants, arithmetic/comparison/bool
    operators, tuples/lists/dicts, subscripts with constant index.  No calls, no walrus, no
    lambda/comprehension, no await/yield."""
    OK = (ast.Name, ast.Constant, ast.BinOp, ast.UnaryOp, ast.BoolOp, ast.Compare, ast.Tuple,
          ast.List, ast.Dict, ast.Set, ast.Attribute, ast.Subscript, ast.IfExp, ast.Load,
          ast.operator, ast.unaryop, ast.boolop, ast.cmpop, ast.expr_context)

    def __init__(self):
        self.pure = True

    def generic_visit(self, node):
        if not isinstance(node, self.OK):
            self.pure = False
        if isinstance(node, ast.Name) and node.id in ('super', '__class__'):
            self.pure = False     # zero-argument super() is compiler magic tied to its method
        super().generic_visit(node)


def is_pure(node, immutable=False):
    v = _Purity()
    v.visit(node)
    if immutable and any(isinstance(n, (ast.List, ast.Dict, ast.Set)) for n in ast.walk(node)):
        # inlining re-creates the object at every use: only equivalent for immutable values
        return False
    return v.pure


def expression_selections(text):
    """Every ast.expr node in Load context that is a candidate for clause B/C, with flags."""
    tree = ast.parse(text)
    lines = text.split('\n')
    parents = {}
    for n in ast.walk(tree):
        for ch in ast.iter_child_nodes(n):
            parents[ch] = n
    out = []
    for n in ast.walk(tree):
        if not isinstance(n, ast.expr) or isinstance(getattr(n, 'ctx', None), (ast.Store, ast.Del)):
            continue
        if isinstance(n, (ast.JoinedStr, ast.FormattedValue, ast.Starred)):
            continue
        # context restrictions of the property: not a while-condition, not inside a
        # lambda/comprehension, no walrus, not an assignment target, not a decorator/default/
        # annotation/base (evaluated at definition time in another scope)
        ok_ctx = True
        cur = n
        while cur in parents:
            par = parents[cur]
            if isinstance(par, (ast.Lambda, ast.ListComp, ast.SetComp, ast.DictComp,
                                ast.GeneratorExp, ast.NamedExpr)):
                ok_ctx = False
            if isinstance(par, ast.While) and cur is par.test:
                ok_ctx = False
            if isinstance(par, (ast.FunctionDef, ast.AsyncFunctionDef, ast.ClassDef)) \
                    and cur not in par.body:
                ok_ctx = False
            if isinstance(par, (ast.AnnAssign,)) and cur is par.annotation:
                ok_ctx = False
            if isinstance(par, ast.AugAssign) and cur is par.target:
                ok_ctx = False
            if isinstance(par, ast.keyword) or isinstance(par, ast.arguments):
                pass
            if isinstance(par, ast.Attribute) and False:
                pass
            cur = par
        # the callee part of a call / the value part of an attribute are expressions too
        start = char_pos(lines, n.lineno, n.col_offset)
        end = char_pos(lines, n.end_lineno, n.end_col_offset)
        out.append({'start': start, 'end': end, 'pure': is_pure(n) and ok_ctx,
                    'kind': type(n).__name__, 'text': ast.get_source_segment(text, n)})
    # de-duplicate identical ranges (parenthesised atoms)
    seen = set()
    res = []
    for s in sorted(out, key=lambda s: (s['start'], s['end'])):
        k = (s['start'], s['end'])
        if k not in seen:
            seen.add(k)
            res.append(s)
    return res


def statement_ranges(text):
    """Contiguous whole-line statement ranges inside each function body."""
    tree = ast.parse(text)
    lines = text.split('\n')
    out = []
    for fn in ast.walk(tree):
        if not isinstance(fn, (ast.FunctionDef, ast.AsyncFunctionDef)):
            continue
        body = fn.body
        for i in range(len(body)):
            for j in range(i, len(body)):
                a, b = body[i], body[j]
                start = (a.lineno, execute.char_col(lines[a.lineno - 1], a.col_offset))
                txt = '\n'.join(lines[a.lineno - 1:b.end_lineno])
                # (a) whole lines: until_column=None, which Script turns into the length of
                #     the line including its newline - the convention of upstream's own tests
                out.append({'start': start, 'end': (b.end_lineno, None), 'conv': 'whole-lines',
                            'pure': False, 'kind': 'stmts[%d:%d]' % (i, j + 1), 'text': txt})
                # (b) end of the statement text (what an editor selection without the newline is)
                out.append({'start': start,
                            'end': (b.end_lineno, execute.char_col(lines[b.end_lineno - 1],
                                                                  b.end_col_offset)),
                            'conv': 'text-end', 'pure': False,
                            'kind': 'stmts[%d:%d]' % (i, j + 1), 'text': txt})
    return out


def single_assignments(text):
    """Variables assigned exactly once by a plain `name = expr` (candidates for inline)."""
    tree = ast.parse(text)
    lines = text.split('\n')
    counts = {}
    scopes = [tree] + [n for n in ast.walk(tree)
                       if isinstance(n, (ast.FunctionDef, ast.AsyncFunctionDef))]
    out = []
    for sc in scopes:
        stores = {}
        for n in ast.walk(sc):
            if n is not sc and isinstance(n, (ast.FunctionDef, ast.AsyncFunctionDef, ast.ClassDef,
                                              ast.Lambda)) and sc is tree and False:
                continue
            if isinstance(n, ast.Name) and isinstance(n.ctx, ast.Store):
                stores.setdefault(n.id, []).append(n)
        for st in ast.walk(sc):
            if isinstance(st, ast.Assign):
                # every plain-name target, also of chained statements `x[k] = name = expr`
                # (jedi may refuse those; if it does not, the other stores must survive)
                for nm in st.targets:
                    if isinstance(nm, ast.Name) and len(stores.get(nm.id, [])) == 1:
                        out.append({'name': nm.id,
                                    'pos': char_pos(lines, nm.lineno, nm.col_offset),
                                    'pure': is_pure(st.value, immutable=True)})
    seen = set()
    res = []
    for o in out:
        if o['pos'] not in seen:
            seen.add(o['pos'])
            res.append(o)
    return res


def run_text(base, tag, text, others):
    d = os.path.join(base, tag)
    os.makedirs(d)
    files = dict(others)
    files['main.py'] = text
    execute.write_tree(d, files)
    r = execute.run_program(d)
    shutil.rmtree(d, ignore_errors=True)
    return r


class _Session:
    def __init__(self, pid, files):
        self.jedi = boot.boot()
        self.env = boot.environment()
        self.pid = pid
        self.files = files
        self.text = files['main.py']
        self.others = {k: v for k, v in files.items() if k != 'main.py'}
        self.base = os.path.join(boot.scratch_root(), 'c06',
                                 '%d_%s' % (os.getpid(), abs(hash(pid)) % 10 ** 8))
        shutil.rmtree(self.base, ignore_errors=True)
        self.src = os.path.join(self.base, 'src')
        os.makedirs(self.src)
        execute.write_tree(self.src, files)
        self.project = self.jedi.Project(self.src)
        self.n = 0
        self.fails = []
        self.evals = 0
        self.refused = 0
        self.compiled = 0
        self.behaviour_checked = 0
        self.roundtrips = 0
        self.baseline = run_text(self.base, 'r0', self.text, self.others)

    def script(self, text=None, fresh=False):
        self.n += 1
        if text is None and not fresh:
            text = self.text
            path = os.path.join(self.src, 'main.py')
        else:
            # follow-up analyses get fresh paths (parso mutates cached trees in place)
            path = os.path.join(self.base, 'f%d' % self.n, 'main.py')
            os.makedirs(os.path.dirname(path))
        return self.jedi.Script(text, path=path, environment=self.env, project=self.project)

    def fail(self, site, inp, detail):
        detail['program'] = self.text
        self.fails.append({'site': site, 'input': '%s|%s' % (self.pid, inp), 'detail': detail})

    def refactor(self, method, sel, script=None, **kw):
        """-> new code of main.py, or None if refused; failures recorded."""
        self.evals += 1
        script = script or self.script()
        inp = '%s@%s-%s' % (method, sel.get('start') or sel.get('pos'), sel.get('end'))
        try:
            ref = getattr(script, method)(**kw)
            changed = ref.get_changed_files()
            if len(changed) != 1:
                self.fail('changes-%d-files@%s' % (len(changed), method), inp, {'sel': sel})
                return None
            new = list(changed.values())[0].get_new_code()
        except self.jedi.RefactoringError:
            self.refused += 1
            return None
        except Exception as e:
            self.fail(canon.exc_site(e), inp, {'sel': sel, 'tb': canon.short_tb(e)})
            return None
        try:
            compile(new, 'main.py', 'exec')
            self.compiled += 1
        except SyntaxError as e:
            self.fail('uncompilable@%s' % method, inp,
                      {'sel': sel, 'new_code': new, 'error': '%s (line %s)' % (e.msg, e.lineno)})
            return None
        return new

    def same_behaviour(self, new, what, sel, site):
        self.behaviour_checked += 1
        r = run_text(self.base, 'r%d' % self.evals, new, self.others)
        if r != self.baseline:
            inp = '%s@%s-%s' % (what, sel.get('start') or sel.get('pos'), sel.get('end'))
            self.fail(site, inp, {'sel': sel, 'new_code': new, 'before': self.baseline,
                                  'after': r})
            return False
        return True

    def close(self):
        shutil.rmtree(self.base, ignore_errors=True)


def check_program(pid, files, regimes):
    s = _Session(pid, files)
    out = {'id': pid}
    try:
        if s.baseline[1] is not None:
            out['invalid'] = s.baseline[1]
            return out
        text = s.text
        if 'expr' in regimes:
            for sel in expression_selections(text):
                (l0, c0), (l1, c1) = sel['start'], sel['end']
                for mode in ('range', 'cursor'):
                    kw = dict(line=l0, column=c0, new_name='zq_new')
                    if mode == 'range':
                        kw.update(until_line=l1, until_column=c1)
                    selm = dict(sel, mode=mode)
                    for method in ('extract_variable', 'extract_function'):
                        new = s.refactor(method, selm, **kw)
                        if new is None:
                            continue
                        # cursor-only selections are normalised by jedi to some enclosing
                        # expression; purity of *that* is not known here -> clause B only for
                        # explicit ranges that are exactly an AST expression
                        if mode == 'range' and sel['pure']:
                            ok = s.same_behaviour(new, method, selm,
                                                  'behaviour-changed@%s' % method)
                            if ok and method == 'extract_variable':
                                # clause C: inline the variable we just created
                                s.roundtrips += 1
                                try:
                                    tree = ast.parse(new)
                                    pos = [(n.lineno, n.col_offset) for n in ast.walk(tree)
                                           if isinstance(n, ast.Name) and n.id == 'zq_new'
                                           and isinstance(n.ctx, ast.Store)][0]
                                except Exception:
                                    continue
                                s2 = s.script(new, fresh=True)
                                back = s.refactor('inline', dict(selm, roundtrip=True), script=s2,
                                                  line=pos[0], column=pos[1])
                                if back is not None:
                                    s.same_behaviour(back, 'extract_variable+inline', selm,
                                                     'behaviour-changed@extract+inline')
        if 'stmts' in regimes:
            for sel in statement_ranges(text):
                (l0, c0), (l1, c1) = sel['start'], sel['end']
                new = s.refactor('extract_function', sel, line=l0, column=c0, until_line=l1,
                                 until_column=c1, new_name='zq_new')
                if new is not None:
                    s.same_behaviour(new, 'extract_function', sel,
                                     'behaviour-changed@extract_function-stmts')
        if 'inline' in regimes:
            for v in single_assignments(text):
                new = s.refactor('inline', v, line=v['pos'][0], column=v['pos'][1])
                if new is not None and v['pure']:
                    s.same_behaviour(new, 'inline', v, 'behaviour-changed@inline')
        if 'chars' in regimes:
            lines = text.split('\n')
            for li, ln in enumerate(lines, 1):
                if not ln.strip() or len(ln) > 60:
                    continue
                for a in range(len(ln)):
                    for b in range(a + 1, len(ln) + 1):
                        sel = {'start': (li, a), 'end': (li, b), 'text': ln[a:b], 'kind': 'chars'}
                        for method in ('extract_variable', 'extract_function'):
                            s.refactor(method, sel, line=li, column=a, until_line=li,
                                       until_column=b, new_name='zq_new')
        out.update({'fails': s.fails, 'evals': s.evals, 'refused': s.refused,
                    'compiled': s.compiled, 'behaviour_checked': s.behaviour_checked,
                    'roundtrips': s.roundtrips})
        return out
    finally:
        s.close()


def _task_files(task):
    if task['kind'] == 'pf':
        return pf.build(task['src'], task['chain']).pid(), pf.build(task['src'], task['chain']).render()
    return task['name'], {'main.py': SHAPED[task['name']]}


def _work(task):
    pid, files = _task_files(task)
    return check_program(pid, files, task['regimes'])


def _levels(tier):
    lv = []
    shaped = [dict(kind='shaped', name=n) for n in sorted(SHAPED)]
    pf1 = [dict(kind='pf', src=s, chain=c) for s, c in pf.enumerate_programs(1, ['inst'])]
    R1 = ['expr', 'stmts', 'inline']
    lv.append(('shaped programs: expression nodes, statement ranges, inline',
               [dict(t, regimes=R1) for t in shaped]))
    lv.append(('PF depth1 x {inst}: expression nodes, statement ranges, inline',
               [dict(t, regimes=R1) for t in pf1]))
    if tier == 'quick':
        lv.append(('shaped:body3, shaped:cond + PF depth0: all character sub-ranges (clause A)',
                   [dict(kind='shaped', name='shaped:body3', regimes=['chars']),
                    dict(kind='shaped', name='shaped:cond', regimes=['chars']),
                    dict(kind='pf', src='inst', chain=[], regimes=['chars'])]))
    else:
        pf1all = [dict(kind='pf', src=s, chain=c, regimes=R1)
                  for s, c in pf.enumerate_programs(1, ['cls', 'func', 'int', 'list'])]
        lv.append(('PF depth1 x {cls,func,int,list}: expression nodes, statements, inline', pf1all))
        core = [c for c in pf.CARRIER_NAMES if c in pf.CORE]
        lv.append(('PF depth2 core pairs x {inst}: expression nodes, statements, inline',
                   [dict(kind='pf', src='inst', chain=c, regimes=R1)
                    for _, c in pf.enumerate_programs(2, ['inst'], core)]))
        lv.append(('shaped + PF depth<=1 core: all character sub-ranges (clause A)',
                   [dict(t, regimes=['chars']) for t in shaped]
                   + [dict(kind='pf', src='inst', chain=[], regimes=['chars'])]
                   + [dict(kind='pf', src='inst', chain=[c], regimes=['chars']) for c in core]))
    return lv


def run(ctx):
    states = trans = refused = compiled = beh = rt = 0
    done = []
    samples = []
    exhaustive = True
    for name, tasks in _levels(ctx.tier):
        if ctx.time_left() < 10:
            exhaustive = False
            ctx.note('level %s not started (time cap)' % name)
            continue
        pres = pool.run(tasks, 'jv.props.c06:_work', init='jv.props.c06:_init', seed=ctx.seed,
                        deadline=ctx.deadline, tag='c06')
        ctx.absorb(pres, name)
        for i, t in enumerate(tasks):
            if i in pres.crashed:
                ctx.violation('WorkerDied(exit=%s)' % pres.crashed[i], _task_files(t)[0],
                              {'task': t}, {'task': t})
                continue
            r = pres.results.get(i)
            if r is None or 'invalid' in r:
                continue
            states += 1
            trans += r['evals']
            refused += r['refused']
            compiled += r['compiled']
            beh += r['behaviour_checked']
            rt += r['roundtrips']
            for f in r['fails']:
                ctx.violation(f['site'], f['input'], f['detail'], {'task': t, 'input': f['input']})
        if pres.skipped:
            exhaustive = False
            ctx.note('level %s: %d of %d programs not explored (time cap)'
                     % (name, len(pres.skipped), len(tasks)))
        else:
            done.append('%s: %d programs' % (name, len(tasks)))
        samples.append({'level': name, 'program': _task_files(tasks[len(tasks) // 2])[0]})
    ctx.coverage.update({
        'states': states, 'transitions': trans, 'evaluations': trans,
        'refused_with_RefactoringError': refused, 'results_compiled': compiled,
        'results_executed_and_compared': beh, 'extract_inline_roundtrips': rt,
        'distinct_nontrivial': compiled,
        'rule': 'state = one program; transition = one refactoring request on one selection; '
                'distinct_nontrivial = requests that returned a refactored program (each compiled, '
                'and executed against the original where the selection is certified pure)',
        'levels_completed': done, 'exhaustive': exhaustive, 'samples': samples,
    })
    ctx.assumptions += [
        'configuration `stubs`',
        'purity is certified conservatively (no calls, comprehensions, lambdas, walrus); the '
        'equivalence clause is applied only to explicit ranges that are exactly an AST expression '
        'node, to whole-statement ranges of function bodies, and to inline of pure right-hand sides',
    ]


def replay(case):
    _init()
    t = case['task']
    r = _work(t)
    return [(f['site'], f['input'], {k: v for k, v in f['detail'].items() if k != 'program'})
            for f in r.get('fails', []) if 'input' not in case or f['input'] == case['input']]
