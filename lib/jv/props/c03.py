"""C03 — name resolution follows Python's scoping rules.

Engine E1 (smallscope).  Enumerated: every scope nesting module > {def, class, lambda,
comprehension}* up to the tier's depth (chains, plus two-sibling trees) x one binding pattern of
identifier `x` per scope (jv/c03_gen.py: PATTERNS x FORMS) with uses of `x` in every scope.  Every
binding writes a distinct integer tag.  Shapes that do not compile are dropped; uses that raise
NameError/UnboundLocalError are replaced by a literal (one at a time, re-running) until the
program runs to completion, so every remaining use that the run reaches is an *executed* use of
exactly the text jedi is asked about.

Oracle (per executed use, `Script.goto(line, col)` on it):
  1. every result is spelled `x` and lies in the analysed file;
  2. every result is a binding of `x` (or the name in a `global`/`nonlocal` statement) that
     belongs to the scope the observed tag's binding belongs to, where "belongs" is what
     `symtable` says (global/nonlocal declarations, walrus in comprehensions, class-body rule);
     the harness itself cross-checks symtable's static answer for the use against the run;
  3. hence never a class body for a use in a method, a comprehension variable from outside, a
     sibling, or a shadowed outer binding (the failure class names which);
  4. if the use and all bindings belonging to that scope are top-level simple statements (or
     parameters) of that one scope and no global/nonlocal declaration targets it: the result is
     exactly the binding whose tag was observed.
An empty answer for an executed use whose value came from a binding in the file fails clause 2
("returns definitions ... belonging to the scope").

Failure classes (`site`): `scope:<where the wrong answer lies relative to the use>/<how symtable
classifies x in the use's scope>@goto`, `no-definition/<symtable class>@goto`,
`not-the-observed-assignment@goto` (clause 4), `other-spelling@goto`, and
`<Exception>@<innermost jedi frame>` for exceptions escaping `Script`/`goto`.
"""
import os

from .. import boot, canon, pool
from .. import c03_gen as G

ID = 'C03'
BUDGET = {'quick': 400, 'thorough': 2400}
BATCH = 48
F1 = ['assign']


# --- families ---------------------------------------------------------------------------------

def _levels(tier):
    """-> list of (name, style, iterator of shapes), simplest first."""
    L = []
    L.append(('chains d<=1 / full patterns x all forms', 'list',
              lambda: _cat(G.chains(0, G.FULL, G.FORMS), G.chains(1, G.FULL, G.FORMS))))
    L.append(('chains d=2 / full patterns, assign', 'list', lambda: G.chains(2, G.FULL, F1)))
    L.append(('pairs under module / core patterns, assign', 'list', lambda: G.pairs(G.CORE, F1)))
    L.append(('chains d<=2 / core patterns, generator expressions', 'gen',
              lambda: _cat(G.chains(1, G.CORE, F1, kinds='FCLG'), G.chains(2, G.CORE, F1))))
    L.append(('chains d=3 / core patterns, assign', 'list', lambda: G.chains(3, G.CORE, F1)))
    for lv in (0, 1, 2):
        L.append(('chains d=2 / full patterns, all forms at level %d' % lv, 'list',
                  (lambda lv=lv: (s for s in G.chains(2, G.FULL, F1, forms_by_depth={lv: G.FORMS})
                                  if _has_form(s)))))
    L.append(('pairs under a def / core patterns, assign', 'list',
              lambda: G.pairs(G.CORE, F1, under=('F',))))
    # distractors: `o.x = ..`, `o.x += 1`, `o.x`, `d(x=0)`, `{'x': 0}` right before every use
    for dk in G.DISTRACTORS:
        L.append(('chains d<=2 / core patterns, distractor %s before every use' % dk,
                  'list+' + dk,
                  lambda: _cat(G.chains(0, G.CORE, F1), G.chains(1, G.CORE, F1),
                               G.chains(2, G.CORE, F1))))
    L.append(('chains d<=1 / full patterns x all forms, all distractors', 'list+mix',
              lambda: _cat(G.chains(0, G.FULL, G.FORMS), G.chains(1, G.FULL, G.FORMS))))
    # several bindings / uses of one scope on ONE physical line (`x = 1; u(1, x); x = 2`): the
    # order of definitions inside a line matters (seeded change C03-w4-1)
    L.append(('chains d<=1 / full patterns x all forms, statements joined by `;`', 'list+semi',
              lambda: _cat(G.chains(0, G.FULL, G.FORMS), G.chains(1, G.FULL, G.FORMS))))
    L.append(('chains d=2 / core patterns, assign, statements joined by `;`', 'list+semi',
              lambda: G.chains(2, G.CORE, F1)))
    # first iterable of a comprehension that STARTS with the identifier (`x`, `x.copy()`, `x[0]`;
    # target `_` or `x` itself), in every enclosing scope kind and comprehension flavour
    for st in ('list', 'gen', 'set', 'dict'):
        L.append(('chains d<=2 / leading-name first iterables, style %s' % st, st + '+box',
                  lambda: (s for d in (1, 2) for s in G.chains(d, G.LEAD, F1) if _has_lead(s))))
    if tier == 'thorough':
        for st in ('list', 'gen', 'set', 'dict'):
            L.append(('chains d=3 / leading-name first iterables, style %s' % st, st + '+box',
                      lambda: (s for s in G.chains(3, G.LEAD, F1) if _has_lead(s))))
        L.append(('chains d=2 / full patterns, assign, all distractors', 'list+mix',
                  lambda: G.chains(2, G.FULL, F1)))
        L.append(('chains d=3 / core patterns, assign, all distractors', 'list+mix',
                  lambda: G.chains(3, G.CORE, F1)))
        L.append(('chains d<=2 / core patterns, generator expressions, all distractors',
                  'gen+mix', lambda: _cat(G.chains(1, G.CORE, F1), G.chains(2, G.CORE, F1))))
        L.append(('chains d=3 / full patterns, assign', 'list',
                  lambda: (s for s in G.chains(3, G.FULL, F1) if not _is_core(s))))
        L.append(('pairs under module / full patterns, assign', 'list',
                  lambda: (s for s in G.pairs(G.FULL, F1) if not _is_core(s))))
        L.append(('chains d=4 / mini patterns, assign', 'list', lambda: G.chains(4, G.MINI, F1)))
        for st in ('gen', 'set', 'dict'):
            L.append(('chains d<=3 with a comprehension / core patterns, style %s' % st, st,
                      (lambda st=st: (s for d in (1, 2, 3) for s in G.chains(d, G.CORE, F1)
                                      if 'G' in G.shape_id(s) and (st != 'gen' or d == 3)))))
        L.append(('chains d=3 / core patterns, all forms at level 3', 'list',
                  lambda: (s for s in G.chains(3, G.CORE, F1, forms_by_depth={3: G.FORMS})
                           if _has_form(s))))
    return L


def _cat(*its):
    for it in its:
        yield from it


def _flat(s):
    yield s
    for c in s[3]:
        yield from _flat(c)


def _has_form(s):
    return any(n[2] != 'assign' for n in _flat(s))


def _has_lead(s):
    return any(n[1] in G.LEAD_PATTERNS for n in _flat(s))


def _is_core(s):
    return all(n[1] in G.CORE[n[0]] for n in _flat(s))


# --- worker -------------------------------------------------------------------------------------

_state = {}


def _init():
    jedi = boot.boot()
    env = boot.environment()
    root = os.path.join(boot.scratch_root(), 'c03proj')
    os.makedirs(root, exist_ok=True)
    _state.update(jedi=jedi, env=env, root=root,
                  project=jedi.Project(root, smart_sys_path=False), n=0)


def _relation(use_path, site, kinds, distractor=False):
    """Names the way a wrong answer is wrong (part of the failure class)."""
    if distractor:
        return 'distractor-not-the-identifier'
    if site is None:
        return 'not-an-occurrence-of-x'
    if site['role'] in ('load', 'del'):
        return 'not-a-binding'
    ow = site['owner']
    if ow is None:
        return 'unbound-name'
    ow = tuple(ow)
    use_path = tuple(use_path)
    if use_path[:len(ow)] == ow:
        if len(ow) < len(use_path) and kinds[ow] == 'C':
            return 'class-body-seen-from-inner-scope'
        return 'other-enclosing-scope'
    if ow[:len(use_path)] == use_path:
        return {'G': 'comprehension-variable-outside', 'L': 'lambda-variable-outside',
                'C': 'inner-class-body', 'F': 'inner-function'}[kinds[ow]]
    return 'sibling-scope'


def _judge(an, query):
    """-> list of failures {site, k, detail} for one analysed program; `query(pos)` asks jedi."""
    fails = []
    kinds = an['kinds']
    sites = {tuple(s['pos']): s for s in an['sites']}
    distractors = {tuple(p) for p in an.get('distractors', ())}
    nq = 0
    classes = set()
    for us in an['uses']:
        if not us['executed']:
            continue
        nq += 1
        pos = tuple(us['pos'])
        try:
            res = query(pos)
        except BaseException as e:
            if isinstance(e, (KeyboardInterrupt, SystemExit)):
                raise
            fails.append({'site': canon.exc_site(e), 'k': us['k'],
                          'detail': {'traceback': canon.short_tb(e)}})
            continue
        accepted = {tuple(p) for p in us['accepted']}
        got = sorted(res)
        bad = []
        for (name, same_file, line, col) in got:
            if name != 'x':
                bad.append(('other-spelling', (name, line, col)))
            elif not same_file:
                bad.append(('scope:other-module', (name, line, col)))
            elif (line, col) not in accepted:
                bad.append(('scope:%s/%s' % (_relation(us['path'], sites.get((line, col)), kinds,
                                                       (line, col) in distractors),
                                             us['symclass']), (name, line, col)))
        base = {'use': pos, 'use_scope': _scope_name(us['path'], kinds),
                'symtable_says': us['symclass'],
                'observed_tags': us['tags'],
                'python_took_it_from': _scope_name(us['runtime_owner'], kinds),
                'accepted': sorted(accepted), 'goto': got}
        for what in sorted({b[0] for b in bad}):
            fails.append({'site': what + '@goto', 'k': us['k'],
                          'detail': dict(base, offending=[b[1] for b in bad if b[0] == what])})
        if not got:
            fails.append({'site': 'no-definition/%s@goto' % us['symclass'], 'k': us['k'],
                          'detail': base})
        elif not bad and us['exact'] is not None:
            if {(l, c) for (_, _, l, c) in got} != {tuple(us['exact'])}:
                fails.append({'site': 'not-the-observed-assignment@goto', 'k': us['k'],
                              'detail': dict(base, exactly=us['exact'])})
        ow = tuple(us['runtime_owner'])
        up = tuple(us['path'])
        between = ''.join(kinds[up[:i]] for i in range(len(up), len(ow), -1)) if \
            up[:len(ow)] == ow else '?'
        roles = sorted({sites[p]['role'] for p in accepted})
        classes.add('%s>%s|%s|%s|%s|n=%d' % (between, kinds[ow], ','.join(roles),
                                            'fall' if us['fallthrough'] else '',
                                            'exact' if us['exact'] is not None else '',
                                            len(got)))
    return fails, nq, classes


def _scope_name(path, kinds):
    if path is None:
        return None
    path = tuple(path)
    return '>'.join(kinds[path[:i]] for i in range(len(path) + 1))


def _jedi_query(text):
    st = _state
    st['n'] += 1
    path = os.path.join(st['root'], 'w%d_%d.py' % (os.getpid(), st['n']))
    script = st['jedi'].Script(text, path=path, environment=st['env'], project=st['project'])

    def query(pos):
        out = []
        for d in script.goto(pos[0], pos[1]):
            out.append((d.name, str(d.module_path) == path, d.line, d.column))
        return out
    return query


def _one(shape, style):
    """-> (status, analysis, fails, nqueries, classes)"""
    an = G.analyse(shape, style)
    if 'harness' in an:
        raise RuntimeError('%s: %s' % (G.shape_id(shape), an['harness']))
    if 'drop' in an:
        return an['drop'], an, [], 0, set()
    try:
        query = _jedi_query(an['text'])
    except BaseException as e:
        if isinstance(e, (KeyboardInterrupt, SystemExit)):
            raise
        return 'ok', an, [{'site': canon.exc_site(e), 'k': 0,
                           'detail': {'traceback': canon.short_tb(e)}}], 1, set()
    fails, nq, classes = _judge(an, query)
    return 'ok', an, fails, nq, classes


_shape_cache = {}


def _level_shapes(tier, li):
    if _shape_cache.get('key') != (tier, li):
        name, style, make = _levels(tier)[li]
        _shape_cache.update(key=(tier, li), style=style, shapes=list(make()))
    return _shape_cache['style'], _shape_cache['shapes']


def _work(task):
    if 'shapes' in task:
        style, shapes = task['style'], task['shapes']
    else:
        style, shapes = _level_shapes(task['tier'], task['level'])
        shapes = shapes[task['lo']:task['hi']]
    task = {'style': style, 'shapes': shapes}
    out = {'n': 0, 'nocompile': 0, 'dropped': {}, 'uses': 0, 'dead': 0, 'unexecuted': 0,
           'queries': 0, 'exact': 0, 'fall': 0, 'leak': 0, 'fails': [], 'classes': [],
           'hits': {}}
    classes = set()
    hits = out['hits']
    for shape in task['shapes']:
        status, an, fails, nq, cl = _one(shape, style)
        if status == 'nocompile':
            out['nocompile'] += 1
            continue
        if status != 'ok':
            out['dropped'][status[:60]] = out['dropped'].get(status[:60], 0) + 1
            continue
        out['n'] += 1
        out['queries'] += nq
        out['dead'] += len(an['dead'])
        for us in an['uses']:
            if us['executed']:
                out['uses'] += 1
                out['exact'] += us['exact'] is not None
                out['fall'] += bool(us['fallthrough'])
            elif us.get('leak'):
                out['leak'] += 1
            else:
                out['unexecuted'] += 1
        for n in _flat(shape):
            key = n[0] + '.' + n[1] + ('' if n[2] == 'assign' else '.' + n[2])
            hits[key] = hits.get(key, 0) + 1
        classes |= cl
        sid = G.shape_id(shape)
        for f in fails:
            out['fails'].append({'id': '%s:%s|use%d' % (style, sid, f['k']), 'site': f['site'],
                                 'detail': dict(f['detail'], text=an['text']),
                                 'case': {'shape': shape, 'style': style, 'k': f['k']}})
    out['classes'] = sorted(classes)
    return out


# --- driver -------------------------------------------------------------------------------------

def run(ctx):
    tot = {'n': 0, 'nocompile': 0, 'uses': 0, 'dead': 0, 'unexecuted': 0, 'queries': 0,
           'exact': 0, 'fall': 0, 'leak': 0}
    dropped = {}
    hits = {}
    classes = set()
    done = []
    samples = []
    exhaustive = True
    # one pool for all levels (a worker's start-up costs ~2 s of typeshed parsing); tasks are
    # dealt in canonical order, so every worker walks the levels simplest first
    levels = _levels(ctx.tier)
    tasks = []
    sizes = []
    for li, (name, style, make) in enumerate(levels):
        shapes = list(make())
        sizes.append(len(shapes))
        for lo in range(0, len(shapes), BATCH):
            tasks.append({'tier': ctx.tier, 'level': li, 'lo': lo,
                          'hi': min(lo + BATCH, len(shapes))})
        if shapes:
            mid = shapes[len(shapes) // 2]
            samples.append({'level': name, 'id': '%s:%s' % (style, G.shape_id(mid)),
                            'text': G.Render(mid, style).text[:400]})
        del shapes
    pres = pool.run(tasks, 'jv.props.c03:_work', init='jv.props.c03:_init',
                    seed=ctx.seed, deadline=ctx.deadline, tag='c03')
    ctx.absorb(pres, 'C03')
    skipped = set(pres.skipped)
    per_level = [[0, 0, 0] for _ in levels]     # programs, batches skipped, batches
    for i, t in enumerate(tasks):
        pl = per_level[t['level']]
        pl[2] += 1
        if i in skipped:
            pl[1] += 1
            continue
        if i in pres.crashed:
            style, shapes = _level_shapes(t['tier'], t['level'])
            batch = {'style': style, 'shapes': shapes[t['lo']:t['hi']]}
            ctx.violation('WorkerDied(exit=%s)' % pres.crashed[i],
                          '%s:%s..' % (style, G.shape_id(batch['shapes'][0])),
                          {'first_shape': G.shape_id(batch['shapes'][0])}, {'batch': batch})
            continue
        r = pres.results.get(i)
        if r is None:
            continue
        pl[0] += r['n']
        for k in tot:
            tot[k] += r[k]
        for k, v in r['dropped'].items():
            dropped[k] = dropped.get(k, 0) + v
        for k, v in r['hits'].items():
            hits[k] = hits.get(k, 0) + v
        classes.update(r['classes'])
        for f in r['fails']:
            ctx.violation(f['site'], f['id'], f['detail'], f['case'])
    for (name, style, make), n, pl in zip(levels, sizes, per_level):
        if pl[1]:
            exhaustive = False
            ctx.note('level %s: %d of %d batches not explored (time cap)' % (name, pl[1], pl[2]))
        else:
            done.append('%s: %d shapes, %d executable programs' % (name, n, pl[0]))
    if dropped:
        ctx.note('programs dropped because they raise something else than NameError on a use: %r'
                 % dropped)
    never = sorted(k + '.' + p for k in G.FULL for p in G.FULL[k]
                   if not any(h == k + '.' + p or h.startswith(k + '.' + p + '.') for h in hits))
    if never:
        ctx.note('patterns never part of an executable program: %s' % never)
    ctx.coverage.update({
        'states': tot['uses'], 'transitions': tot['queries'], 'evaluations': tot['queries'],
        'programs': tot['n'], 'shapes_not_compiling': tot['nocompile'],
        'programs_dropped_other_runtime_error': dropped,
        'uses_neutralised_nameerror': tot['dead'], 'uses_not_reached': tot['unexecuted'],
        'exact_clause_applied': tot['exact'], 'class_body_fallthrough_uses': tot['fall'],
        'uses_excluded_cpython312_comprehension_leak': tot['leak'],
        'distinct_nontrivial': len(classes),
        'rule': 'state = (executable program, executed use of x); transition = one '
                'Script.goto on it compared with symtable + the tag observed at run time; '
                'distinct_nontrivial = distinct (scope kinds from the use up to the owning '
                'scope, roles of the accepted occurrences, class-body fall-through?, exact '
                'clause?, number of results) classes',
        'levels_completed': done, 'exhaustive': exhaustive, 'samples': samples[:6],
        'pattern_hits': dict(sorted(hits.items())),
        'alphabet': {'kinds': 'M F C L G', 'patterns': G.FULL, 'core_patterns': G.CORE,
                     'forms': G.FORMS, 'distractors': G.DISTRACTORS,
                     'leading_name_iterables': G.LEAD_PATTERNS},
    })
    ctx.assumptions += [
        'configuration `stubs`; target interpreter = the harness interpreter (CPython 3.12)',
        'only executed uses are judged; a use that raises NameError/UnboundLocalError is replaced '
        'by the literal 0 and the program re-run, jedi is asked about the text that ran',
        'symtable is computed on the same program rendered with generator expressions instead '
        'of list/set/dict comprehensions (3.12 merges inlined comprehensions into the parent '
        'table); the scope trees of both renderings are checked to be identical',
        'for a name local to a class body that is not bound yet CPython falls through to the '
        'module globals: there both the class body and the module are accepted',
        'exact clause (4) only for uses that are top-level simple statements of a '
        'module/def/class body whose bindings are all top-level simple statements or '
        'parameters of the same body and no global/nonlocal declaration targets the scope',
        'uses whose run-time value is the iteration variable of a list/set/dict comprehension '
        'seen from outside it are not judged: CPython 3.12.1 leaks that variable into a class '
        'body when a closure captures it (3.11 and generator expressions do not)',
        'goto is called with default flags (no follow_imports): an `import m as x` binding is '
        'the alias name',
    ]


def replay(case):
    _init()
    if 'batch' in case:
        r = _work(case['batch'])
        return [(f['site'], f['id'], f['detail']) for f in r['fails']]
    status, an, fails, nq, cl = _one(case['shape'], case['style'])
    sid = '%s:%s' % (case['style'], G.shape_id(case['shape']))
    return [(f['site'], '%s|use%d' % (sid, f['k']), f['detail']) for f in fails
            if f['k'] == case['k']]
