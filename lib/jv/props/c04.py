"""C04 — completions extend what is typed, are ordered, unique and complete.

Engine E1.  Algebra clauses (oracle = the result list itself + the text left of the cursor):
corpus files and PF programs x every cursor position inside/at the end of an identifier, after
every '.', '(' and ',', x {fuzzy, non-fuzzy}.  Completeness clause (oracle = CPython): for every
expression the run evaluates whose value is an instance/class/module defined in the generated
sources and which is followed by '.', every attribute the run-time object has that is defined
in those sources must be offered.
"""
import ast
import os
import re
import shutil
import types

from .. import boot, canon, corpus, execute, pf, pool

ID = 'C04'
BUDGET = {'quick': 300, 'thorough': 2400}
FRAG = re.compile(r'[^\W\d]\w*$')


def _init():
    boot.boot()
    boot.environment()


def is_subsequence(f, name):
    it = iter(name)
    return all(ch in it for ch in f)


def sort_key(name, f):
    return (not name.startswith(f), name.startswith('__'), name.startswith('_'), name.lower())


def cursor_positions(text):
    """(line, col) inside/at the end of identifiers, after '.', '(' and ','."""
    pos = []
    for li, ln in enumerate(text.split('\n'), 1):
        code = ln
        for m in re.finditer(r'[^\W\d]\w*', code):
            for c in range(m.start() + 1, m.end() + 1):
                pos.append((li, c))
        for m in re.finditer(r'[.(,]', code):
            pos.append((li, m.end()))
    return sorted(set(pos))


def in_string_or_comment(script, line, col):
    leaf = script._module_node.get_leaf_for_position((line, col), include_prefixes=True)
    if leaf is None:
        return True
    if leaf.start_pos > (line, col):
        return True        # inside a prefix (comment / whitespace)
    return leaf.type in ('string', 'fstring_string', 'fstring_start', 'fstring_end', 'number',
                         'error_leaf')


def check_algebra(tid, text, others, positions=None):
    jedi = boot.boot()
    env = boot.environment()
    base = os.path.join(boot.scratch_root(), 'c04', '%d_%s' % (os.getpid(), abs(hash(tid)) % 10 ** 8))
    shutil.rmtree(base, ignore_errors=True)
    os.makedirs(base)
    out = {'id': tid, 'fails': [], 'evals': 0, 'completions': 0, 'nonempty': 0, 'classes': []}
    classes = set()

    def fail(site, inp, detail):
        detail['text'] = text
        out['fails'].append({'site': site, 'input': '%s|%s' % (tid, inp), 'detail': detail})
    try:
        files = dict(others)
        files['main.py'] = text
        execute.write_tree(base, files)
        project = jedi.Project(base)
        script = jedi.Script(text, path=os.path.join(base, 'main.py'), environment=env,
                             project=project)
        lines = text.split('\n')
        for (l, c) in (positions or cursor_positions(text)):
            left = lines[l - 1][:c]
            m = FRAG.search(left)
            f = m.group(0) if m else ''
            try:
                skip = in_string_or_comment(script, l, c)
            except Exception:
                skip = True
            for fuzzy in (False, True):
                out['evals'] += 1
                inp = 'complete%s@%d:%d' % ('-fuzzy' if fuzzy else '', l, c)
                try:
                    comps = script.complete(l, c, fuzzy=fuzzy)
                    rows = [(x.name, x.complete, x.name_with_symbols,
                             x.get_completion_prefix_length(), x.type) for x in comps]
                except Exception as e:
                    fail(canon.exc_site(e), inp, {'tb': canon.short_tb(e)})
                    continue
                out['completions'] += len(rows)
                if rows:
                    out['nonempty'] += 1
                if skip:
                    continue     # string/dict-key/comment positions have their own rules
                # string-like "prefixed" completions (dict keys, file paths) come first by design
                idrows = [r for r in rows if re.fullmatch(r'[^\W\d]\w*=?', r[0])]
                if len(idrows) != len(rows):
                    continue
                classes.add((bool(f), fuzzy, bool(rows), left[-1:] in '.(,' and left[-1:]))
                seen = set()
                for name, comp, nws, plen, typ in rows:
                    public = name[:-1] if name.endswith('=') else name
                    if plen != len(f):
                        fail('prefix-length-differs@complete', inp,
                             {'fragment': f, 'name': name, 'prefix_length': plen})
                        break
                    if fuzzy:
                        if not is_subsequence(f.lower(), public.lower()):
                            fail('fuzzy-name-not-a-supersequence@complete', inp,
                                 {'fragment': f, 'name': name})
                            break
                        if comp is not None:
                            fail('fuzzy-complete-not-None@complete', inp,
                                 {'fragment': f, 'name': name, 'complete': comp})
                            break
                    else:
                        if not public.lower().startswith(f.lower()):
                            fail('name-does-not-extend-fragment@complete', inp,
                                 {'fragment': f, 'name': name})
                            break
                        if comp != nws[len(f):]:
                            fail('complete-is-not-the-missing-suffix@complete', inp,
                                 {'fragment': f, 'name': name, 'complete': comp,
                                  'name_with_symbols': nws})
                            break
                    if not (nws == name or nws in (public + '=', public + '(')):
                        fail('name_with_symbols-unexpected@complete', inp,
                             {'name': name, 'name_with_symbols': nws})
                        break
                    if (name, comp) in seen:
                        fail('duplicate-completion@complete', inp, {'name': name, 'complete': comp})
                        break
                    seen.add((name, comp))
                else:
                    keys = [sort_key(r[0], f) for r in rows]
                    if keys != sorted(keys):
                        k = next(i for i in range(len(keys) - 1) if keys[i] > keys[i + 1])
                        fail('order-not-as-documented@complete', inp,
                             {'fragment': f, 'out_of_order': [rows[k][0], rows[k + 1][0]]})
        out['classes'] = sorted(map(list, classes))
        return out
    finally:
        shutil.rmtree(base, ignore_errors=True)


def check_completeness(src, chain):
    jedi = boot.boot()
    env = boot.environment()
    prog = pf.build(src, chain)
    pid = prog.pid()
    files = prog.render()
    base = os.path.join(boot.scratch_root(), 'c04c', '%d_%s' % (os.getpid(), abs(hash(pid)) % 10 ** 8))
    shutil.rmtree(base, ignore_errors=True)
    src_dir, run_dir = os.path.join(base, 'src'), os.path.join(base, 'run')
    os.makedirs(src_dir)
    os.makedirs(run_dir)
    out = {'id': pid, 'fails': [], 'evals': 0, 'receivers': 0, 'attrs_required': 0, 'kinds': []}
    try:
        execute.write_tree(src_dir, files)
        bound = set()
        for rel, text in files.items():
            for node in ast.walk(ast.parse(text)):
                if isinstance(node, (ast.FunctionDef, ast.ClassDef, ast.AsyncFunctionDef)):
                    bound.add(node.name)
                elif isinstance(node, ast.Name) and isinstance(node.ctx, ast.Store):
                    bound.add(node.id)
                elif isinstance(node, ast.Attribute) and isinstance(node.ctx, ast.Store):
                    bound.add(node.attr)
                elif isinstance(node, ast.alias):
                    bound.add((node.asname or node.name).split('.')[0])
        seen_attrs = {}

        def user_mod(mname):
            if mname == '__main__':
                return True
            m = __import__('sys').modules.get(mname)
            f = getattr(m, '__file__', None)
            return bool(f and f.startswith(run_dir + os.sep))

        def observer(k, v):
            names = set()
            kind = None
            if isinstance(v, types.ModuleType):
                f = getattr(v, '__file__', None)
                if f and f.startswith(run_dir + os.sep):
                    names = set(vars(v))
                    kind = 'module'
            else:
                cls = v if isinstance(v, type) else type(v)
                if user_mod(cls.__module__):
                    kind = 'class' if isinstance(v, type) else 'instance'
                    for c in cls.__mro__:
                        if user_mod(c.__module__):
                            names |= set(vars(c))
                    if kind == 'instance' and hasattr(v, '__dict__'):
                        names |= set(vars(v))
            if kind:
                cur = seen_attrs.setdefault(k, [kind, None])
                req = {n for n in names if n in bound}
                cur[1] = req if cur[1] is None else (cur[1] & req)
        rr = execute.run_instrumented(files, run_dir, observer=observer)
        if rr.exc is not None:
            out['invalid'] = rr.exc
            return out
        project = jedi.Project(src_dir)
        scripts = {}
        kinds = set()
        for k, (kind, req) in sorted(seen_attrs.items()):
            pr = rr.table[k]
            rel = pr['file']
            line, col = pr['end']
            lines = files[rel].split('\n')
            if lines[line - 1][col:col + 1] != '.':
                continue
            out['receivers'] += 1
            out['attrs_required'] += len(req)
            kinds.add((kind, pr['kind']))
            if rel not in scripts:
                scripts[rel] = jedi.Script(files[rel], path=os.path.join(src_dir, rel),
                                           environment=env, project=project)
            out['evals'] += 1
            inp = '%s|%s@%d:%d' % (pid, rel, line, col + 1)
            try:
                offered = {c.name for c in scripts[rel].complete(line, col + 1)}
            except Exception as e:
                out['fails'].append({'site': canon.exc_site(e), 'input': inp,
                                     'detail': {'tb': canon.short_tb(e), 'program': files}})
                continue
            missing = sorted(req - offered)
            if missing:
                out['fails'].append({'site': 'attribute-not-offered@%s' % kind, 'input': inp,
                                     'detail': {'receiver': pr['text'], 'missing': missing,
                                                'runtime_kind': kind, 'program': files}})
        out['kinds'] = sorted(map(list, kinds))
        return out
    finally:
        shutil.rmtree(base, ignore_errors=True)


def _work(task):
    if task['kind'] == 'complete-pf':
        return check_completeness(task['src'], task['chain'])
    if task['kind'] == 'pf':
        prog = pf.build(task['src'], task['chain'])
        files = prog.render()
        text = files.pop('main.py')
        return check_algebra(prog.pid(), text, files)
    if task['kind'] == 'order':
        return check_algebra('order-pool', ORDER_TEXT, {})
    text = dict(corpus.all_files())[task['name']]
    pos = cursor_positions(text)
    if task.get('part'):
        k, n = task['part']
        pos = pos[k::n]
    return check_algebra('file:%s#%s' % (task['name'], task.get('part')), text, {}, pos)


ORDER_TEXT = '''\
class Pool:
    ab = 1
    Ab = 2
    aB = 3
    _ab = 4
    __ab__ = 5
    __ab = 6
    abc = 7
    ábc = 8
    ABC = 9
    _Ab = 10
    straße = 11
    strasse_alt = 12
    maße = 13


Pool.a
Pool.A
Pool._
Pool.__
Pool.
Pool.ab
Pool.á
Pool.straß
Pool.strass
Pool.maß
Pool.STRA
ab = Ab = _ab = abc = 0
a
A
_
'''


def _levels(tier):
    lv = []
    lv.append(('ordering pool', [dict(kind='order')]))
    if tier == 'quick':
        lv.append(('completeness: PF depth<=1 x {inst,cls}',
                   [dict(kind='complete-pf', src=s, chain=c)
                    for s, c in pf.enumerate_programs(1, ['inst', 'cls'])]))
        lv.append(('algebra: PF depth1 core x {inst}',
                   [dict(kind='pf', src='inst', chain=[c]) for c in pf.CARRIER_NAMES
                    if c in pf.CORE]))
        files = [n for n, t in corpus.quick_files() if t.count('\n') <= 30]
        lv.append(('algebra: corpus files <= 30 lines', [dict(kind='file', name=n) for n in files]))
    else:
        lv.append(('completeness: PF depth1 x all sources',
                   [dict(kind='complete-pf', src=s, chain=c) for s, c in pf.enumerate_programs(1)]))
        core = [c for c in pf.CARRIER_NAMES if c in pf.CORE]
        lv.append(('completeness: PF depth2 core pairs x {inst}',
                   [dict(kind='complete-pf', src='inst', chain=c)
                    for _, c in pf.enumerate_programs(2, ['inst'], core)]))
        lv.append(('algebra: PF depth1 x {inst}',
                   [dict(kind='pf', src='inst', chain=[c]) for c in pf.CARRIER_NAMES]))
        tasks = []
        for n, t in corpus.all_files():
            if not t.strip() or t.count('\n') > 120:
                continue
            parts = max(1, t.count('\n') // 25)
            tasks += [dict(kind='file', name=n, part=[k, parts]) for k in range(parts)]
        lv.append(('algebra: corpus files <= 120 lines', tasks))
    return lv


def run(ctx):
    states = trans = comps = nonempty = recv = req = 0
    classes = set()
    done = []
    samples = []
    exhaustive = True
    for name, tasks in _levels(ctx.tier):
        if ctx.time_left() < 10:
            exhaustive = False
            ctx.note('level %s not started (time cap)' % name)
            continue
        pres = pool.run(tasks, 'jv.props.c04:_work', init='jv.props.c04:_init', seed=ctx.seed,
                        deadline=ctx.deadline, tag='c04')
        ctx.absorb(pres, name)
        for i, t in enumerate(tasks):
            if i in pres.crashed:
                ctx.violation('WorkerDied(exit=%s)' % pres.crashed[i], str(t), {'task': t},
                              {'task': t})
                continue
            r = pres.results.get(i)
            if r is None or 'invalid' in r:
                continue
            states += 1
            trans += r['evals']
            comps += r.get('completions', 0)
            nonempty += r.get('nonempty', 0)
            recv += r.get('receivers', 0)
            req += r.get('attrs_required', 0)
            classes.update(map(tuple, r.get('classes', [])))
            classes.update(map(tuple, r.get('kinds', [])))
            for f in r['fails']:
                ctx.violation(f['site'], f['input'], f['detail'], {'task': t, 'input': f['input']})
        if pres.skipped:
            exhaustive = False
            ctx.note('level %s: %d of %d tasks not explored (time cap)'
                     % (name, len(pres.skipped), len(tasks)))
        else:
            done.append('%s: %d tasks' % (name, len(tasks)))
        samples.append({'level': name, 'task': tasks[len(tasks) // 2]})
    ctx.coverage.update({
        'states': states, 'transitions': trans, 'evaluations': trans,
        'completion_objects_checked': comps, 'nonempty_requests': nonempty,
        'receivers_checked_for_completeness': recv, 'required_attributes': req,
        'distinct_nontrivial': len(classes),
        'rule': 'state = one text; transition = one complete() request; distinct_nontrivial = '
                'distinct (fragment empty?, fuzzy, non-empty result, trigger character) classes of '
                'algebra requests plus distinct (run-time receiver kind, expression kind) classes '
                'of completeness requests',
        'levels_completed': done, 'exhaustive': exhaustive, 'samples': samples,
    })
    ctx.assumptions += [
        'configuration `stubs`',
        'requests whose cursor is inside a string/number/comment, and result lists containing '
        'string-like completions (dict keys, paths), are counted but not judged by the '
        'identifier-fragment clauses',
        'keyword-argument completions are named `param=` by jedi; the fragment clauses are applied '
        'to the name without the symbol',
    ]


def replay(case):
    _init()
    r = _work(case['task'])
    return [(f['site'], f['input'], {k: v for k, v in f['detail'].items()
                                     if k not in ('text', 'program')})
            for f in r['fails'] if 'input' not in case or f['input'] == case['input']]
