"""C16 — results are deterministic and repeatable.

Three explorations (DESIGN §4 C16):
 (i)  E4 schedules: jedi's only scheduling nondeterminism is hash-set iteration order.  ValueSet
      keeps its members in `self._set`; the harness replaces that attribute by a data descriptor
      whose frozenset subclass iterates in an order the explorer chooses.  Canonical order =
      first-seen sequence number; every single-point deviation (reverse the i-th multi-element
      iteration) is explored (pairs i<j in thorough).  Same ordered results required (goto: set).
 (ii) E2 repetition: on ONE Script, every sequence of <= 3 (quick) / <= 4 queries from an alphabet
      of 8 events (two of which raise), then the probe battery: must equal a fresh Script's.
 (iii) process menu: the whole battery in fresh processes under PYTHONHASHSEED in
      {0,1,2,3,7,42} x {no perturbation, junk allocations before the query} - a finite menu, not
      a claim of exhaustiveness over the orders of plain built-in sets.
"""
import io
import itertools
import json
import keyword
import os
import subprocess
import sys
import tokenize

from .. import boot, canon, corpus, pf, pool

ID = 'C16'
BUDGET = {'quick': 600, 'thorough': 3000}

UNION_PROGRAMS = {
    'u:two-classes': '''\
class Alpha:
    def meth(self):
        return 1
    only_alpha = 1


class Beta:
    def meth(self):
        return 'x'
    only_beta = 2


def pick(flag):
    if flag:
        return Alpha()
    return Beta()


obj = pick(len('ab'))
res = obj.meth()
obj.me
both = [Alpha, Beta, Alpha(), 1.0]
item = both[0]
item
''',
    'u:class-and-instance': '''\
class Gamma:
    attr = 1


def make(flag):
    if flag:
        return Gamma
    return Gamma()


thing = make(0)
thing
thing.attr
for elem in (Gamma, Gamma(), 3):
    elem
''',
    'u:multi-inherit': '''\
class Left:
    def shared(self):
        return []
    def left_only(self):
        return 1


class Right:
    def shared(self):
        return {}
    def right_only(self):
        return 2


class Both(Left, Right):
    pass


def choose(val):
    return val if val else Right()


inst = choose(Both())
inst.shared()
inst.sh
x = inst.left_only() if inst else inst.right_only()
x
''',
    # a query that executes one function six times (jedi's per-function budget) followed by a
    # query that needs a seventh execution: per-query reset of the recursion bookkeeping
    'u:exec-budget': '''\
def make(v):
    def handler(a, b=3):
        return v
    return handler


picked = [make(1), make('s'), make(2.0), make([]), make({}), make(None)][where]
picked
make(0j)(1)
later = make(0j)
later(
''',
    # straight-line rebinding: goto/infer must name the last assignment only; a switch left off
    # by an earlier query (flow analysis) shows up here
    'u:rebinding': '''\
count = 1
count = 'a'
count
def build():
    acc = []
    acc = {}
    return acc
made = build()
made
''',
    # a counter that dynamic parameter search restores in a finally block: two never-called
    # mutually recursive functions (the recursion guard fires) and a function with 16 call
    # sites of different types (more than the 10 a leaked depth would still look at)
    'u:dynamic-params': '''\
def many(vv):
    return vv
def ping(xx):
    pong(xx)
    return xx
def pong(yy):
    ping(yy)
    return yy
many(1)
many('a')
many(2.0)
many([])
many({})
many(())
many(None)
many(b'')
many(set())
many(1j)
many(range(1))
many(frozenset())
many(bytearray())
many(object())
many(len)
''',
    # a comprehension that several queries iterate: the memoised iteration result must be a
    # value, not a one-shot iterator
    'u:comprehension': '''\
values = [item for item in (1, 2)]
first = values[0]
first
for each in values:
    each
pairs = {key: str(key) for key in values}
pairs
''',
    # reference search runs with flow analysis switched off; what it infers on the way (the
    # base `holder` of `holder.attr`) must not be remembered for the next query
    'u:flow-memo': '''\
import sys
class Alpha:
    attr = 1
class Beta:
    attr = 2
if sys.version_info >= (3, 0):
    holder = Alpha()
else:
    holder = Beta()
holder.attr
''',
    # a zc.buildout project (side files below): two directories that a bin/ script puts on
    # sys.path define the same module; which one is found must not depend on the process
    'u:buildout': '''\
import dupmod
chosen = dupmod.Marker()
chosen
''',
    # an imported module changes sys.path for ITSELF (side files below); the buffer's own
    # imports must not start to resolve through that change once the module was looked at
    'u:syspath': '''\
from conf_side import setting
def getter():
    import hidden_two
    return hidden_two.SecretTwo()
setting
got = getter()
got
''',
}
SIDE_FILES = {
    'u:buildout': {
        'buildout.cfg': '[buildout]\nparts =\n',
        'bin/runner': "#!/usr/bin/python\nimport sys\nsys.path[0:0] = [\n    '../eggs/first',\n"
                      "    '../eggs/second',\n    '../eggs/third',\n]\n",
        'eggs/first/dupmod.py': 'class Marker:\n    from_first = 1\n',
        'eggs/second/dupmod.py': '\nclass Marker:\n    from_second = 1\n',
        'eggs/third/dupmod.py': '\n\nclass Marker:\n    from_third = 1\n',
    },
    'u:syspath': {
        'conf_side.py': "import sys\nsys.path.append('extra_dir')\nimport hidden_one\n"
                        "setting = hidden_one.SecretOne()\n",
        'extra_dir/hidden_one.py': 'class SecretOne:\n    pass\n',
        'extra_dir/hidden_two.py': 'class SecretTwo:\n    pass\n',
    },
}
# per-program overrides of the event alphabet: {program: {event index: (method, line, column)}}
EVENT_OVERRIDES = {'u:dynamic-params': {0: ('infer', 5, 12), 2: ('infer', 3, 10)},
                   'u:flow-memo': {0: ('infer', 10, 3), 3: ('get_references', 10, 9),
                                   4: ('get_references_file', 10, 9)}}

MENU_SEEDS = [0, 1, 2, 3, 7, 42]


def _init():
    boot.boot()
    boot.environment()


def ident_positions(text):
    """(line, column inside the identifier, end column); regex based so that incomplete
    programs (an unclosed call at the end) can be probed too; string/comment contents are
    skipped by blanking them first."""
    import re
    out = []
    for li, ln in enumerate(text.split('\n'), 1):
        code = re.sub(r"('[^']*'|\"[^\"]*\"|#.*)", lambda m: ' ' * len(m.group(0)), ln)
        for m in re.finditer(r'[^\W\d]\w*', code):
            if not keyword.iskeyword(m.group(0)):
                out.append((li, m.start() + (1 if len(m.group(0)) > 1 else 0), m.end()))
    return out


def name_row(n):
    return [type(n).__name__, n.name, n.type, os.path.basename(str(n.module_path))
            if n.module_path else None, n.line, n.column, n.full_name, n.description]


def query(script, m, line, col):
    """One canonical observation (ordered lists; goto as a sorted set)."""
    try:
        if m == 'complete':
            return [[c.name, c.complete, c.type, c.line, c.full_name] for c in
                    script.complete(line, col)][:60]
        if m == 'goto':
            return sorted(map(json.dumps, (name_row(n) for n in script.goto(line, col))))
        if m == 'get_signatures':
            return [[s.name, s.index, list(s.bracket_start), s.to_string()]
                    for s in script.get_signatures(line, col)]
        if m == 'get_context':
            return name_row(script.get_context(line, col))
        if m == 'get_names':
            return [name_row(n) for n in script.get_names(all_scopes=True, references=True)]
        if m == 'rename':
            r = script.rename(line, col, new_name='zq')
            return sorted((os.path.basename(str(p)), c.get_new_code())
                          for p, c in r.get_changed_files().items())
        return [name_row(n) for n in getattr(script, m)(line, col)]
    except Exception as e:
        return ['EXC', type(e).__name__]


PROBE_METHODS = ['infer', 'goto', 'complete', 'help', 'get_references', 'get_signatures']


def paren_positions(text):
    return [(li, ci + 1) for li, ln in enumerate(text.split('\n'), 1)
            for ci, ch in enumerate(ln) if ch == '(']


def battery_plan(text, methods=PROBE_METHODS, limit=None):
    pos = ident_positions(text)
    if limit:
        pos = pos[:limit] + pos[-limit:]
    seen = set()
    for (l, c) in paren_positions(text):      # signature probes first: they are the cheapest
        yield 'get_signatures@%d:%d' % (l, c), 'get_signatures', l, c   # to starve of budget
    for (l, c, e) in pos:
        for m in methods:
            col = e if m == 'complete' else c
            key = '%s@%d:%d' % (m, l, col)
            if key not in seen:
                seen.add(key)
                yield key, m, l, col


def battery(script, text, methods=PROBE_METHODS, limit=None):
    return {key: query(script, m, l, c) for key, m, l, c in battery_plan(text, methods, limit)}


def new_script(text, tag):
    jedi = boot.boot()
    # the path is specific to the program text: Scripts of different programs never share one
    import hashlib
    tag = '%s_%s' % (tag, hashlib.sha1(text.encode('utf-8')).hexdigest()[:10])
    root = os.path.join(boot.scratch_root(), 'c16', tag)
    os.makedirs(root, exist_ok=True)
    for pid, side in SIDE_FILES.items():
        if UNION_PROGRAMS[pid] == text:
            for rel, content in side.items():
                fp = os.path.join(root, rel)
                if not os.path.exists(fp):
                    os.makedirs(os.path.dirname(fp), exist_ok=True)
                    with open(fp, 'w') as f:
                        f.write(content)
    return jedi.Script(text, path=os.path.join(root, 'main.py'),
                       environment=boot.environment(), project=jedi.Project(root))


# ---------------------------------------------------------------- (i) schedules
class _Sched:
    installed = False
    seq = {}
    keep = []
    counter = 0          # multi-element iterations so far in this run
    deviate = ()         # indices of iterations that run reversed
    total = 0


def _stable_key(v):
    """Address-free description of a value, only used to order values met for the first time in
    the same iteration."""
    try:
        node = getattr(v, 'tree_node', None)
        pos = node.start_pos if node is not None else (0, 0)
    except Exception:
        pos = (0, 0)
    try:
        nm = v.name.string_name
    except Exception:
        nm = ''
    return (type(v).__name__, str(getattr(v, 'api_type', '')), str(nm), pos)


def _as_set(rows):
    try:
        return sorted(map(json.dumps, rows))
    except Exception:
        return rows


def _install_order_seam():
    if _Sched.installed:
        return
    from jedi.inference import base_value

    class OFS(frozenset):
        __slots__ = ()

        def __iter__(self):
            items = list(frozenset.__iter__(self))
            if len(items) < 2:
                return iter(items)
            items.sort(key=_stable_key)     # never let the native (address) order leak in
            for v in items:
                if id(v) not in _Sched.seq:
                    _Sched.seq[id(v)] = len(_Sched.seq)
                    _Sched.keep.append(v)
            items.sort(key=lambda v: _Sched.seq[id(v)])
            i = _Sched.counter
            _Sched.counter += 1
            if i in _Sched.deviate:
                items.reverse()
            return iter(items)

    class SetAttr:
        def __get__(self, obj, typ=None):
            if obj is None:
                return self
            return obj.__dict__['_jv_set']

        def __set__(self, obj, value):
            obj.__dict__['_jv_set'] = value if type(value) is OFS else OFS(value)

    # value sets created before installation (NO_VALUES, ...) keep their plain slot
    for vs in [base_value.NO_VALUES]:
        vs.__dict__['_jv_set'] = OFS(vs.__dict__.get('_set', frozenset()))
    import gc
    for o in gc.get_objects():
        if isinstance(o, base_value.ValueSet) and '_jv_set' not in o.__dict__:
            o.__dict__['_jv_set'] = OFS(o.__dict__.get('_set', frozenset()))
    base_value.ValueSet._set = SetAttr()
    _Sched.installed = True


def _run_schedule(text, tag, m, l, c, deviate):
    _Sched.seq = {}
    _Sched.keep = []
    _Sched.counter = 0
    _Sched.deviate = tuple(deviate)
    s = new_script(text, tag)
    r = query(s, m, l, c)
    n = _Sched.counter
    _Sched.deviate = ()
    return r, n


def _work_sched(task):
    _install_order_seam()
    text = task['text']
    out = {'id': task['id'], 'fails': [], 'runs': 0, 'points': 0, 'probes': 0, 'multi': 0}
    k = 0
    for (l, c, e) in ident_positions(text):
        for m in task['methods']:
            col = e if m == 'complete' else c
            k += 1
            base, n = _run_schedule(text, 'sch%d_%d' % (os.getpid(), k), m, l, col, ())
            out['runs'] += 1
            out['probes'] += 1
            if n == 0:
                continue
            out['multi'] += 1
            cap = min(n, task['cap'])
            out['points'] += cap
            plans = [(i,) for i in range(cap)]
            if task.get('pairs'):
                plans += list(itertools.combinations(range(min(n, task['pairs'])), 2))
            for plan in plans:
                k += 1
                got, _ = _run_schedule(text, 'sch%d_%d' % (os.getpid(), k), m, l, col, plan)
                out['runs'] += 1
                if got != base:
                    only_order = m == 'help' and _as_set(got) == _as_set(base)
                    out['fails'].append({
                        'site': ('help-order-is-set-order@help' if only_order
                                 else 'order-dependent-result@%s' % m),
                        # help() does not sort its definitions at all (one call site): every
                        # order-only difference is the same finding, whatever the program
                        'input': ('help-result-order' if only_order
                                  else '%s|%s@%d:%d' % (task['id'], m, l, col)),
                        'detail': {'text': text, 'query': [m, l, col], 'schedule': list(plan),
                                   'canonical': base, 'deviated': got}})
                    break
    return out


# ---------------------------------------------------------------- (ii) repetition
def _events(text, pid=None):
    pos = ident_positions(text)
    mid = pos[len(pos) // 2]
    last = pos[-1]
    nlines = text.count('\n') + 1
    lone = [p for p in pos if text.split('\n')[p[0] - 1].strip().isidentifier()]
    if lone:
        mid = lone[0]       # a name alone on its line: inferring it runs the whole flow to it
    evs = _base_events(text, pos, mid, last, nlines)
    for k, ev in EVENT_OVERRIDES.get(pid, {}).items():
        evs[k] = ev
    return evs


def _base_events(text, pos, mid, last, nlines):
    return [('infer', mid[0], mid[1]), ('complete', last[0], last[2]), ('goto', last[0], last[1]),
            ('get_references', mid[0], mid[1]), ('get_references_file', mid[0], mid[1]),
            ('infer', nlines + 5, 0),                      # raises ValueError
            ('rename', 1, 0),                              # keyword/def position: may raise
            ('get_signatures', mid[0], mid[2])]


def _do_event(script, ev):
    m, l, c = ev
    try:
        if m == 'get_references_file':
            script.get_references(l, c, scope='file')
            script.get_names(all_scopes=True)
        elif m == 'rename':
            script.rename(l, c, new_name='zz')
        else:
            getattr(script, m)(l, c)
    except Exception:
        pass


def _work_rep(task):
    text = task['text']
    events = _events(text, task['id'])
    # reference: every probe asked on its OWN fresh Script (nothing asked before it)
    keys = list(battery_plan(text, limit=task['limit']))
    fresh = {}
    for n, (key, m, l, c) in enumerate(keys):
        fresh[key] = query(new_script(text, 'rep%d_fresh%d' % (os.getpid(), n)), m, l, c)
    out = {'id': task['id'], 'fails': [], 'sequences': 0, 'queries': 0}
    k = 0
    for seq in task['seqs']:
        k += 1
        s = new_script(text, 'rep%d_%d' % (os.getpid(), k))
        for i in seq:
            _do_event(s, events[i])
        got = battery(s, text, limit=task['limit'])
        out['sequences'] += 1
        out['queries'] += len(seq) + len(got)
        if got != fresh:
            diff = sorted(q for q in fresh if fresh[q] != got.get(q))
            # identified by (program, history): which probe differs first can itself depend on
            # value-set order once a history has left a two-valued set behind
            out['fails'].append({
                'site': 'answer-depends-on-earlier-queries',
                'input': '%s|after%s' % (task['id'], list(seq)),
                'detail': {'text': text, 'events': [events[i] for i in seq], 'probe': diff[0],
                           'fresh': fresh[diff[0]], 'after_history': got.get(diff[0])}})
    return out


# ---------------------------------------------------------------- (iii) process menu
def menu_child():
    """Runs in a fresh interpreter: prints the battery for the programs given on stdin."""
    spec = json.load(sys.stdin)
    if spec.get('junk'):
        junk = [object() for _ in range(100000)]     # perturb the heap before importing jedi
        junk2 = [[i] for i in range(50000)]
        del junk2
    boot.boot()
    out = {}
    for pid, text in spec['programs']:
        out[pid] = battery(new_script(text, 'menu_%s' % abs(hash(pid))), text)
    out['interp:type-made-classes'] = interpreter_battery()
    del spec
    json.dump(out, sys.stdout)
    import shutil
    shutil.rmtree(boot.scratch_root(), ignore_errors=True)


def interpreter_battery():
    """Live objects without source positions: instances of type()-created classes in a list."""
    import jedi
    names = ['Alpha', 'Beta', 'Gamma', 'Delta', 'Epsilon', 'Zeta', 'Eta', 'Theta', 'Iota', 'Kappa']
    objs = [type(n, (), {'attr_' + n.lower(): 1})() for n in names]
    ns = {'objs': objs, 'first': objs[0]}
    out = {}
    code = 'for elem in objs:\n    elem\nfirst.\nelem.attr'
    for m, l, c in [('infer', 2, 5), ('goto', 2, 5), ('complete', 3, 6), ('complete', 4, 9),
                    ('help', 2, 5)]:
        out['%s@%d:%d' % (m, l, c)] = query(jedi.Interpreter(code, [ns]), m, l, c)
    return out


def _work_menu(task):
    env = dict(os.environ)
    env['PYTHONHASHSEED'] = str(task['seed'])
    env['JV_SCRATCH'] = os.path.join(boot.scratch_root(), 'menu_%d_%d_%d' % (
        os.getpid(), task['seed'], task['junk']))
    os.makedirs(env['JV_SCRATCH'], exist_ok=True)
    p = subprocess.run([sys.executable, '-B', '-c',
                        'from jv.props import c16; c16.menu_child()'],
                       input=json.dumps({'programs': task['programs'], 'junk': task['junk']}),
                       capture_output=True, text=True, env=env, timeout=1200)
    if p.returncode != 0:
        raise RuntimeError('menu child failed: ' + p.stderr[-800:])
    return json.loads(p.stdout)


def _programs(tier):
    progs = list(UNION_PROGRAMS.items())
    union_carriers = ['condexpr', 'if_else', 'try_else']
    for c in union_carriers:
        progs.append((pf.build('inst', [c]).pid(), pf.build('inst', [c]).render()['main.py']))
    if tier != 'quick':
        for a in union_carriers:
            for b in [c for c in pf.CARRIER_NAMES if c in pf.CORE][:8]:
                p = pf.build('inst', [a, b])
                if not p.files:
                    progs.append((p.pid(), p.render()['main.py']))
    return progs


def run(ctx):
    tier = ctx.tier
    progs = _programs(tier)
    states = trans = 0
    done = []
    exhaustive = True
    cov = {}
    # (i) schedules
    tasks = [dict(id=pid, text=text, methods=['infer', 'goto', 'complete', 'help', 'get_signatures'],
                  cap=40 if tier == 'quick' else 120, pairs=0 if tier == 'quick' else 12)
             for pid, text in progs]
    pres = pool.run(tasks, 'jv.props.c16:_work_sched', init='jv.props.c16:_init', seed=ctx.seed,
                    deadline=ctx.deadline, tag='c16s')
    ctx.absorb(pres, 'schedules')
    runs = points = multi = 0
    for i, t in enumerate(tasks):
        r = pres.results.get(i)
        if r is None:
            continue
        runs += r['runs']
        points += r['points']
        multi += r['multi']
        for f in r['fails']:
            ctx.violation(f['site'], f['input'], f['detail'],
                          {'kind': 'sched', 'task': t, 'input': f['input']})
    if pres.skipped:
        exhaustive = False
    else:
        done.append('schedules: %d programs, every single-point deviation%s' % (
            len(tasks), '' if tier == 'quick' else ' and pairs i<j<12'))
    cov.update({'schedule_runs': runs, 'deviation_points': points,
                'queries_with_multi_element_sets': multi})
    states += points
    trans += runs
    # (ii) repetition
    depth = 3 if tier == 'quick' else 4
    seqs = [list(s) for d in range(1, depth + 1) for s in itertools.product(range(8), repeat=d)]
    # repetition runs on programs whose answers do not depend on set order (the order-dependent
    # ones are the subject of (i) and would make "same answer again" depend on object addresses)
    det = [(p, t) for p, t in progs if p in ('u:exec-budget', 'u:rebinding', 'u:dynamic-params',
                                             'u:comprehension', 'u:syspath', 'u:flow-memo')]
    for chain in (['identity'], ['init_attr'], ['closure', 'method_ret'], ['generator_for']):
        pp = pf.build('inst', chain)
        det.append((pp.pid(), pp.render()['main.py']))
    rep_progs = det[:8] if tier == 'quick' else det
    tasks = []
    for pid, text in rep_progs:
        chunk = max(1, len(seqs) // 16)
        for k in range(0, len(seqs), chunk):
            tasks.append(dict(id=pid, text=text, seqs=seqs[k:k + chunk], limit=6))
    if ctx.time_left() > 20:
        pres = pool.run(tasks, 'jv.props.c16:_work_rep', init='jv.props.c16:_init', seed=ctx.seed,
                        deadline=ctx.deadline, tag='c16r')
        ctx.absorb(pres, 'repetition')
        nseq = nq = 0
        for i, t in enumerate(tasks):
            r = pres.results.get(i)
            if r is None:
                continue
            nseq += r['sequences']
            nq += r['queries']
            for f in r['fails']:
                ctx.violation(f['site'], f['input'], f['detail'],
                              {'kind': 'rep', 'task': dict(t, seqs=[json.loads(
                                  f['input'].split('|after')[1].split('|')[0])]),
                               'input': f['input']})
        if pres.skipped:
            exhaustive = False
        else:
            done.append('repetition: all %d event sequences of depth<=%d on %d programs'
                        % (len(seqs), depth, len(rep_progs)))
        cov.update({'repetition_sequences': nseq, 'repetition_queries': nq})
        states += nseq
        trans += nq
    else:
        exhaustive = False
    # (iii) process menu
    menu_progs = progs + ([('file:' + n, t) for n, t in corpus.quick_files()[:6]]
                          if tier == 'quick' else
                          [('file:' + n, t) for n, t in corpus.quick_files()])
    tasks = [dict(seed=s, junk=j, programs=menu_progs) for s in MENU_SEEDS for j in (0, 1)]
    if ctx.time_left() > 20:
        pres = pool.run(tasks, 'jv.props.c16:_work_menu', init='jv.props.c16:_init',
                        seed=ctx.seed, deadline=ctx.deadline, tag='c16m')
        ctx.absorb(pres, 'menu')
        ref = pres.results.get(0)
        nobs = 0
        if ref is not None:
            for i, t in enumerate(tasks[1:], 1):
                r = pres.results.get(i)
                if r is None:
                    continue
                for pid in ref:
                    for q in ref[pid]:
                        nobs += 1
                        if r[pid].get(q) != ref[pid][q]:
                            only_order = q.startswith('help@') and \
                                _as_set(r[pid].get(q) or []) == _as_set(ref[pid][q])
                            ctx.violation(
                                'help-order-is-set-order@help' if only_order else
                                'differs-between-processes@%s' % q.split('@')[0],
                                'help-result-order' if only_order else '%s|%s' % (pid, q),
                                {'program': dict(menu_progs).get(pid), 'query': q,
                                 'seed0': ref[pid][q], 'seed%d_junk%d' % (t['seed'], t['junk']):
                                 r[pid].get(q)},
                                {'kind': 'menu', 'no_confirm': True, 'program': [pid, dict(menu_progs).get(pid, '')],
                                 'seed': t['seed'], 'junk': t['junk'],
                                 'input': '%s|%s' % (pid, q)})
        if pres.skipped or ref is None:
            exhaustive = False
        else:
            done.append('process menu: %d programs x seeds %s x {plain, junk}' %
                        (len(menu_progs), MENU_SEEDS))
        cov.update({'menu_observations_compared': nobs, 'menu_processes': len(tasks)})
        states += len(tasks)
        trans += nobs
    else:
        exhaustive = False
    # de-duplicate menu violations by input
    seen = set()
    uniq = []
    for v in ctx.violations:
        k = (v['site'], v['input'])
        if k not in seen:
            seen.add(k)
            uniq.append(v)
    ctx.violations[:] = uniq
    cov.update({
        'states': states, 'transitions': trans, 'evaluations': trans,
        'distinct_nontrivial': cov.get('queries_with_multi_element_sets', 0)
        + cov.get('repetition_sequences', 0),
        'rule': 'states = schedule deviation points + event sequences + menu processes; '
                'transitions = query executions compared; distinct_nontrivial = queries that '
                'really iterated a multi-element value set (so a deviation can matter) + distinct '
                'event sequences replayed on one Script',
        'levels_completed': done, 'exhaustive': exhaustive,
        'samples': [{'program': progs[0][0], 'text': progs[0][1][:300]},
                    {'event_alphabet': [list(e) for e in _events(progs[0][1])]}],
    })
    ctx.coverage.update(cov)
    ctx.assumptions += [
        'configuration `stubs`',
        'orders of plain built-in sets inside jedi cannot be intercepted; they are covered by the '
        'finite PYTHONHASHSEED x allocation-perturbation menu, not exhaustively',
        'goto results are compared as sets, everything else as ordered lists',
    ]


def replay(case):
    _init()
    out = []
    if case['kind'] == 'sched':
        r = _work_sched(case['task'])
    elif case['kind'] == 'rep':
        r = _work_rep(case['task'])
    else:
        pid, text = case['program']
        a = _work_menu(dict(seed=0, junk=0, programs=[[pid, text]]))
        b = _work_menu(dict(seed=case['seed'], junk=case['junk'], programs=[[pid, text]]))
        for q in a[pid]:
            if a[pid][q] != b[pid].get(q):
                out.append(('differs-between-processes@%s' % q.split('@')[0],
                            '%s|%s' % (pid, q), None))
        return [o for o in out if o[1] == case['input']]
    return [(f['site'], f['input'], None) for f in r['fails']
            if f['input'] == case.get('input')]
