"""C12 -- analysing sources with Script/Project never executes them.

Engine E1 (smallscope) + host/helper observation.  Full product (no sampling) of

    tree variant {every settings.auto_import_modules name as module | as package}
  x file-name alphabet: every Python file of the generated tree appends "<pid> <own relative
    path>" to a sentinel file when it is imported/executed: conftest.py (fixtures +
    pytest_plugins -> plug.py), tests/conftest.py, setup.py, sitecustomize.py,
    usercustomize.py, gi.py | gi/__init__.py + gi/repository.py, pkg/__init__.py,
    pkg/__main__.py, pkg/mod.py, __main__.py, evil.pth, buildout.cfg + bin/script -> egg.py,
    dj/manage.py (DJANGO_SETTINGS_MODULE) + app/, a text file AND a real shared object (load
    time constructor writes the sentinel) carrying the extension suffix, both.py + both.pyi,
    stubbed/ + stubbed-stubs/, a namespace package
  x import form (19 ways a buffer can mention the module, incl. docstring types, type
    comments, __import__, importlib, sys.path edits, half-typed imports) + 3 special buffers
    (pytest fixture parameters, bare `import `, the project's conftest.py being edited)
  x Project option {none (get_default_project), default, sys_path=[root],
    added_sys_path=[root], smart_sys_path=False; thorough: 3 combinations more; in the
    cwd=project levels also Script(code) without path}
  x environment {helper process (SameEnvironment), in-process (InterpreterEnvironment)}
  x (own level) host sys.path shape {no '' | '' first | '' in the middle | '' twice | relative
    entries} x environment kind {SameEnvironment | Script(environment=InterpreterEnvironment())
    | jedi.Interpreter} x options x symbols x forms: the in-process environment hands jedi the
    host's LIVE sys.path, which must be entry-for-entry the same after every call
  x working directory {neutral, project root (helpers are spawned inside the tree)}
  x every Script query and refactoring method (17 calls) at every marked position + the
    file-level methods, result attributes touched; Project.search / Project.complete_search
    x search strings x options (in the project's own default environment).

Oracle (the generator's own knowledge of what it wrote, DESIGN 2.4), evaluated after EVERY api
call: the sentinel is absent; no module whose file lies in the tree (or that is named like a
tree module and appeared during the call) is in sys.modules of the host or of any helper;
sys.path, os.getcwd(), os.environ of host and helpers equal their value before the call.
Helpers are observed through the unmodified request protocol:
    env._get_subprocess()._send(None, eval, (EXPR,))            (no hook)

Non-vacuity is measured, not assumed: (1) generator control: CPython importing/running each
file in a clean child MUST produce its sentinel line; (2) sensitivity control: the very same
(tree, buffer) pairs analysed with Project(load_unsafe_extensions=True), the documented
opt-in, MUST execute the auto-import and shared-object symbols in helper and in-process
(shows that those routes reach __import__ and that the observation channel sees it; otherwise
harness error); (3) per symbol/form/option hit counts: results pointing into the symbol's
files, tree files parsed by jedi, load_module refusals seen in-process.
"""
import importlib.machinery
import json
import os
import re
import shutil
import subprocess
import sys
import warnings

from .. import boot, canon, pool

ID = 'C12'
BUDGET = {'quick': 900, 'thorough': 3600}

EXT = importlib.machinery.EXTENSION_SUFFIXES[0]
MARK = '\u00a6'
PLACEHOLDER = b'@@C12-SENTINEL-PATH@@'
PATHBUF = 1024

# ------------------------------------------------------------------------------------------
# the generated project tree
# ------------------------------------------------------------------------------------------

def _pre(sentinel, rel):
    return ("import os as _c12os\n"
            "_c12f = open(%r, 'a')\n"
            "_c12f.write('%%d %s\\n' %% _c12os.getpid())\n"
            "_c12f.close()\n" % (sentinel, rel))


BODY = ('VALUE = 1\n\n\ndef func(a=VALUE):\n    """doc of func"""\n    return a\n\n\n'
        'class K:\n    attr = 1\n\n    def meth(self):\n        return self\n')
STUB = ('VALUE: int\n\n\ndef func(a: int = ...) -> int: ...\n\n\n'
        'class K:\n    attr: int\n\n    def meth(self) -> "K": ...\n')


def _fixture(name):
    return ('\n\n@pytest.fixture\ndef %s():\n    """fixture %s"""\n    return K()\n' % (name, name))


SO_SOURCE = r'''
#include <stdio.h>
#include <unistd.h>
char c12_sentinel_path[%d] = "%s";
__attribute__((constructor)) static void c12_loaded(void) {
    FILE *f = fopen(c12_sentinel_path, "a");
    if (f) { fprintf(f, "%%d %%s\n", (int) getpid(), "xs%s"); fclose(f); }
}
''' % (PATHBUF, PLACEHOLDER.decode(), EXT)


def build_so_template(dest_dir):
    """Compile (once per run) a shared object whose load-time constructor writes the sentinel.
    -> bytes with a placeholder for the path, or None when no compiler is available."""
    gcc = shutil.which('gcc') or shutil.which('cc')
    if not gcc:
        return None
    os.makedirs(dest_dir, exist_ok=True)
    src = os.path.join(dest_dir, 'c12so.c')
    out = os.path.join(dest_dir, 'c12so.so')
    with open(src, 'w') as f:
        f.write(SO_SOURCE)
    p = subprocess.run([gcc, '-O0', '-shared', '-fPIC', '-o', out, src], capture_output=True)
    if p.returncode != 0 or not os.path.exists(out):
        return None
    with open(out, 'rb') as f:
        data = f.read()
    if data.count(PLACEHOLDER) != 1:
        return None
    return data


def _patch_so(template, sentinel):
    raw = sentinel.encode()
    assert len(raw) < PATHBUF - 1
    i = template.index(PLACEHOLDER)
    return template[:i] + raw + b'\0' + template[i + len(raw) + 1:]


def auto_names():
    boot.boot()
    from jedi import settings
    return [n for n in settings.auto_import_modules if n.isidentifier()]


def tree_spec(variant, root, sentinel, autos, so_template):
    """-> (files: rel -> str|bytes, modules: [record]).  Every Python file has the preamble.
    so_template: bytes (patched per tree), True (symbol listed, content not needed) or None."""
    files = {}
    mods = []

    def py(rel, body=BODY, head=''):
        files[rel] = head + _pre(sentinel, rel) + body

    def mod(sym, name, rels, bufdir='', topdir=''):
        mods.append({'sym': sym, 'name': name, 'files': rels, 'bufdir': bufdir, 'topdir': topdir})

    py('setup.py', "from setuptools import setup\nsetup(name='c12proj')\n" + BODY)
    mod('setup.py', 'setup', ['setup.py'])
    py('conftest.py', "import pytest\npytest_plugins = ['plug']\n" + BODY + _fixture('fix'))
    mod('conftest.py', 'conftest', ['conftest.py'])
    py('plug.py', 'import pytest\n' + BODY + _fixture('plugfix'))
    mod('plug.py(pytest_plugins)', 'plug', ['plug.py'])
    py('tests/__init__.py', '')
    py('tests/conftest.py', 'import pytest\n' + BODY + _fixture('tfix'))
    mod('tests/conftest.py', 'tests.conftest', ['tests/conftest.py', 'tests/__init__.py'])
    py('sitecustomize.py')
    mod('sitecustomize.py', 'sitecustomize', ['sitecustomize.py'])
    py('usercustomize.py')
    mod('usercustomize.py', 'usercustomize', ['usercustomize.py'])
    for a in autos:
        if variant == 'm':
            py(a + '.py')
            mod('auto:%s.py' % a, a, [a + '.py'])
        else:
            py(a + '/__init__.py')
            py(a + '/repository.py')
            mod('auto:%s/__init__.py' % a, a, [a + '/__init__.py'])
            mod('auto:%s/repository.py' % a, a + '.repository',
                [a + '/repository.py', a + '/__init__.py'])
    py('pkg/__init__.py')
    py('pkg/__main__.py')
    py('pkg/mod.py')
    mod('pkg/__init__.py', 'pkg', ['pkg/__init__.py'])
    mod('pkg/__main__.py', 'pkg.__main__', ['pkg/__main__.py', 'pkg/__init__.py'])
    mod('pkg/mod.py', 'pkg.mod', ['pkg/mod.py', 'pkg/__init__.py'])
    py('__main__.py')
    mod('__main__.py', '__main__', ['__main__.py'])
    files['evil.pth'] = ("import os; f = open(%r, 'a'); f.write('%%d evil.pth\\n' %% os.getpid()); "
                         "f.close()\nbo/eggs/foo\n" % sentinel)
    files['x' + EXT] = _pre(sentinel, 'x' + EXT) + BODY
    mod('x%s(text)' % EXT, 'x', ['x' + EXT])
    if so_template is not None:
        files['xs' + EXT] = b'' if so_template is True else _patch_so(so_template, sentinel)
        mod('xs%s(real)' % EXT, 'xs', ['xs' + EXT])
    py('both.py')
    files['both.pyi'] = _pre(sentinel, 'both.pyi') + STUB
    mod('both.py+both.pyi', 'both', ['both.py', 'both.pyi'])
    py('ns/inner.py')
    mod('ns/inner.py(namespace)', 'ns.inner', ['ns/inner.py'])
    py('stubbed/__init__.py')
    files['stubbed-stubs/__init__.pyi'] = _pre(sentinel, 'stubbed-stubs/__init__.pyi') + STUB
    mod('stubbed+stubbed-stubs', 'stubbed', ['stubbed/__init__.py', 'stubbed-stubs/__init__.pyi'])
    # buildout: bin/script is parsed by jedi for sys.path modifications
    files['bo/buildout.cfg'] = '[buildout]\nparts =\n'
    files['bo/bin/script'] = ('#!/usr/bin/python\n' + _pre(sentinel, 'bo/bin/script')
                              + "import sys\nsys.path[0:0] = [\n    %r,\n]\nimport egg\n"
                              % os.path.join(root, 'bo', 'eggs', 'foo'))
    py('bo/eggs/foo/egg.py')
    files['bo/src/.keep'] = ''
    mod('buildout.cfg+bin/script->egg.py', 'egg', ['bo/eggs/foo/egg.py', 'bo/bin/script'],
        bufdir='bo/src', topdir='bo/eggs/foo')
    # django: get_default_project() looks for manage.py mentioning DJANGO_SETTINGS_MODULE
    py('dj/manage.py', "import os\nos.environ.setdefault('DJANGO_SETTINGS_MODULE', "
                       "'app.settings')\nos.environ['C12_EXECUTED'] = '1'\n" + BODY,
       head='#!/usr/bin/env python\n')
    py('dj/app/__init__.py', '')
    py('dj/app/settings.py')
    py('dj/app/models.py')
    mod('manage.py(DJANGO_SETTINGS_MODULE)', 'manage', ['dj/manage.py'], bufdir='dj', topdir='dj')
    mod('django app.models', 'app.models', ['dj/app/models.py', 'dj/app/__init__.py'],
        bufdir='dj/app', topdir='dj')
    return files, mods


def write_tree(root, files):
    for rel, data in sorted(files.items()):
        p = os.path.join(root, rel)
        os.makedirs(os.path.dirname(p), exist_ok=True)
        with open(p, 'wb' if isinstance(data, bytes) else 'w') as f:
            f.write(data)
        if rel.endswith('bin/script') or rel.endswith(EXT):
            os.chmod(p, 0o755)


def module_dir(m):
    """Directory (relative to root) that contains the module's own file / package dir."""
    parts = m['name'].split('.')
    d = m['topdir']
    for p in parts[:-1]:
        d = os.path.join(d, p) if d else p
    return d


# ------------------------------------------------------------------------------------------
# buffers: import forms
# ------------------------------------------------------------------------------------------

FORMS = ['import', 'import-as', 'from', 'from-as', 'star', 'from-parent', 'rel-dot', 'rel-mod',
         'in-function', 'try-except', 'type-checking', 'dunder-import', 'importlib',
         'incomplete', 'subclass', 'call', 'syspath-mod', 'docstring', 'type-comment']
SPECIALS = ['pytest-params', 'bare-import', 'conftest-itself']


def form_buffer(form, m, root):
    """-> (bufdir, code with MARK at the probe positions) or None when not applicable."""
    n = m['name']
    first = n.split('.')[0]
    last = n.rsplit('.', 1)[-1]
    parent = n.rsplit('.', 1)[0] if '.' in n else None
    bd = m['bufdir']
    M = MARK
    if form == 'import':
        return bd, 'import %s%s\n%s.fu%snc\n%s.%s\n' % (n, M, n, M, n, M)
    if form == 'import-as':
        return bd, 'import %s as z%s\nz.fu%snc\nz.%s\n' % (n, M, M, M)
    if form == 'from':
        return bd, 'from %s%s import fu%snc\nfu%snc\n' % (n, M, M, M)
    if form == 'from-as':
        return bd, 'from %s import func as z%s\nz%s\n' % (n, M, M)
    if form == 'star':
        return bd, 'from %s import *%s\nfu%snc\nK().%s\n' % (n, M, M, M)
    if form == 'from-parent':
        if parent is None:
            return None
        return bd, 'from %s import %s%s\n%s.fu%snc\n%s.%s\n' % (parent, last, M, last, M, last, M)
    if form == 'rel-dot':
        return module_dir(m), 'from . import %s%s\n%s.fu%snc\n%s.%s\n' % (last, M, last, M, last, M)
    if form == 'rel-mod':
        return module_dir(m), 'from .%s%s import fu%snc\nfu%snc\n' % (last, M, M, M)
    if form == 'in-function':
        return bd, 'def f():\n    import %s\n    return %s.fu%snc\n\n\nf()%s\nf%s\n' % (n, n, M, M, M)
    if form == 'try-except':
        return bd, ('try:\n    import %s%s\nexcept ImportError:\n    %s = None\n%s.fu%snc\n'
                    % (n, M, first, n, M))
    if form == 'type-checking':
        return bd, ('from typing import TYPE_CHECKING\nif TYPE_CHECKING:\n    import %s\n'
                    "v: '%s.K'\nv.at%str\nv.%s\n" % (n, n, M, M))
    if form == 'dunder-import':
        return bd, "z = __import__('%s%s')\nz.fu%snc\nz.%s\n" % (n, M, M, M)
    if form == 'importlib':
        return bd, ("import importlib\nz = importlib.import_module('%s%s')\nz.fu%snc\nz.%s\n"
                    % (n, M, M, M))
    if form == 'incomplete':
        return bd, 'import %s%s\nfrom %s import %s\nimport %s.%s\n' % (n[:-1], M, n, M, n, M)
    if form == 'subclass':
        return bd, ('import %s\n\n\nclass D(%s.K%s):\n    pass\n\n\nD().meth().at%str\nD().%s\n'
                    % (n, n, M, M, M))
    if form == 'call':
        return bd, 'import %s\n%s.func(%s\n%s.K(%s)\n' % (n, n, M, n, M)
    if form == 'syspath-mod':
        top = os.path.join(root, m['topdir']) if m['topdir'] else root
        return bd, ('import sys\nsys.path.insert(0, %r)\nimport %s%s\n%s.fu%snc\n'
                    % (top, n, M, n, M))
    if form == 'docstring':
        # no import statement at all: jedi itself synthesises `import <module>` for dotted
        # names found in docstring types (jedi/inference/docstrings.py)
        return bd, ('def f(a):\n    """\n    :type a: %s.K\n    :rtype: %s.K\n    """\n'
                    '    return a.at%str\n\n\nf(1).at%str\nf(1).%s\n' % (n, n, M, M, M))
    if form == 'type-comment':
        return bd, 'import %s\nv = None  # type: %s.K\nv.at%str\nv.%s\n' % (n, n, M, M)
    raise ValueError(form)


def special_buffer(name, root):
    M = MARK
    if name == 'pytest-params':
        return 'tests', 'test_c12', ('def test_a(fix%s, plugfix%s, tfix%s):\n    fix.me%sth\n'
                                     '    plugfix.%s\n    tfix.at%str\n\n\ndef test_b(%s\n'
                                     % (M, M, M, M, M, M, M))
    if name == 'bare-import':
        return '', 'c12b', 'import %s\nfrom %s\nfrom . import %s\nfrom .pkg import %s\n' % (M, M, M, M)
    if name == 'conftest-itself':
        # the buffer IS the project's conftest.py being edited (path of an existing file)
        return '', None, ('import pytest\nfrom plug import plugfix%s\n\n\n@pytest.fixture\n'
                          'def other(fix%s):\n    return fix.%s\n' % (M, M, M))
    raise ValueError(name)


def split_marks(code):
    """-> (plain code, [(line, column)])"""
    out = []
    pos = []
    line, col = 1, 0
    for ch in code:
        if ch == MARK:
            pos.append((line, col))
            continue
        out.append(ch)
        if ch == '\n':
            line += 1
            col = 0
        else:
            col += 1
    return ''.join(out), pos


# ------------------------------------------------------------------------------------------
# methods
# ------------------------------------------------------------------------------------------

POS_METHODS = [
    ('complete', {}), ('complete', {'fuzzy': True}),
    ('infer', {}), ('infer', {'prefer_stubs': True}), ('infer', {'only_stubs': True}),
    ('goto', {}), ('goto', {'follow_imports': True, 'follow_builtin_imports': True}),
    ('goto', {'only_stubs': True}),
    ('help', {}),
    ('get_references', {}), ('get_references', {'scope': 'file', 'include_builtins': False}),
    ('get_signatures', {}), ('get_context', {}),
    ('rename', {'new_name': 'c12zz'}), ('inline', {}),
    ('extract_variable', {'new_name': 'c12ev'}), ('extract_function', {'new_name': 'c12ef'}),
]
PROJECT_OPTIONS = ['none', 'default', 'sys_path', 'added_sys_path', 'nosmart']
PROJECT_OPTIONS_MORE = ['sys_path+env', 'sys_path+nosmart', 'added+nosmart']


# shapes of the HOST's sys.path while a query runs (the in-process environment hands out the live
# list): no '' entry at all | '' first (REPL, python -c) | '' in the middle | '' twice | a relative
# entry.  '' and '.' mean the working directory, which is the neutral directory in this family.
HOST_SHAPES = ['no-empty', 'empty-first', 'empty-middle', 'empty-twice', 'relative']
ENV_KINDS = ['helper', 'inproc', 'interpreter']   # SameEnvironment | Script(environment=
#                                   InterpreterEnvironment()) | jedi.Interpreter(code, [{}])


def shaped_path(base, shape):
    base = [p for p in base if p not in ('', '.')]
    k = len(base) // 2
    if shape == 'no-empty':
        return base
    if shape == 'empty-first':
        return [''] + base
    if shape == 'empty-middle':
        return base[:k] + [''] + base[k:]
    if shape == 'empty-twice':
        return [''] + base[:k] + [''] + base[k:]
    if shape == 'relative':
        return ['.'] + base[:k] + [os.path.join('c12rel', 'lib')] + base[k:]
    raise ValueError(shape)


def make_project(jedi, opt, root, env):
    if opt in ('none', 'nopath'):       # discovered by get_default_project(); nopath: from cwd
        return None
    if opt == 'default':
        return jedi.Project(root)
    if opt == 'sys_path':
        return jedi.Project(root, sys_path=[root])
    if opt == 'added_sys_path':
        return jedi.Project(root, added_sys_path=[root])
    if opt == 'nosmart':
        return jedi.Project(root, smart_sys_path=False)
    if opt == 'sys_path+env':
        return jedi.Project(root, sys_path=list((env or Procs.env('helper')).get_sys_path()) + [root])
    if opt == 'sys_path+nosmart':
        return jedi.Project(root, sys_path=[root], smart_sys_path=False)
    if opt == 'added+nosmart':
        return jedi.Project(root, added_sys_path=[root], smart_sys_path=False)
    if opt == 'UNSAFE-OPT-IN':       # only used by the sensitivity control
        return jedi.Project(root, load_unsafe_extensions=True)
    raise ValueError(opt)


# ------------------------------------------------------------------------------------------
# observation of one process (host, or a helper through the unmodified request protocol)
# ------------------------------------------------------------------------------------------

MODS_EXPR = ("[(k, getattr(v, '__file__', None), [str(p) for p in getattr(v, '__path__', None)] "
             "if type(getattr(v, '__path__', None)).__name__ in ('list', 'tuple', "
             "'_NamespacePath') else []) for k, v in sorted(sys.modules.items())]")
# the module table is only shipped when the number of loaded modules changed (or n == -1)
HELPER_EXPR = ("((" + MODS_EXPR + ") if len(sys.modules) != %d else None, "
               "list(sys.path), os.getcwd(), dict(os.environ), os.getpid())")


def _under(p, root):
    return isinstance(p, str) and (p == root or p.startswith(root + os.sep))


class Watch:
    """Last observation of one process and the comparison with the next one."""

    def __init__(self, where, env=None):
        self.where = where              # 'host' | 'helper' | 'default'
        self.who = 'host' if env is None else 'helper'
        self.env = env
        self.n = -1
        self.mods = None
        self.path = self.cwd = self.environ = self.pid = None

    def _raw(self, full):
        n = -1 if full else self.n
        if self.env is None:
            mods = None
            if len(sys.modules) != n:
                mods = eval(MODS_EXPR)
            return mods, list(sys.path), os.getcwd(), dict(os.environ), os.getpid()
        return self.env._get_subprocess()._send(None, eval, (HELPER_EXPR % n,))

    def step(self, root, names, full=False):
        """Observe, compare with the previous observation, remember.  -> [(site, detail)]"""
        mods, path, cwd, environ, pid = self._raw(full)
        out = []
        if mods is not None:
            had = self.mods or {}
            bad = []
            for k, f, p in mods:
                if _under(f, root) or any(_under(x, root) for x in p):
                    bad.append([k, f, list(p)])
                elif self.mods is not None and k not in had and k in names and k != '__main__':
                    bad.append([k, f, list(p)])
            if bad:
                out.append(('project-module-in-sys.modules@' + self.who, {'modules': bad[:10]}))
            self.mods = {k: (f, p) for k, f, p in mods}
            self.n = len(mods)
        path = list(path)
        if self.path is not None:
            if path != self.path:
                out.append(('sys.path-changed@' + self.who, {'before': self.path, 'after': path}))
            if cwd != self.cwd:
                out.append(('cwd-changed@' + self.who, {'before': self.cwd, 'after': cwd}))
            if environ != self.environ:
                b, a = self.environ, environ
                diff = {k: [b.get(k), a.get(k)] for k in sorted(set(b) | set(a))
                        if b.get(k) != a.get(k)}
                out.append(('environ-changed@' + self.who, {'diff': diff}))
        self.path, self.cwd, self.environ, self.pid = path, cwd, dict(environ), pid
        for _, d in out:
            d['process'] = self.where
        return out


# ------------------------------------------------------------------------------------------
# worker state: one generated tree + the processes being watched
# ------------------------------------------------------------------------------------------

_HOST_MODULES_AT_START = frozenset(sys.modules)


class Procs:
    """The processes of this worker that are being watched: the host itself and the helpers
    of the environments in use.  Helpers inherit the host's working directory when they are
    spawned, so a change of working directory retires them."""
    cwd = None
    envs = {}
    watch = {}

    @classmethod
    def switch(cls, cwd):
        if cls.cwd != cwd:
            cls.kill_helpers()
            cls.watch = {}
            os.chdir(cwd)
            cls.cwd = cwd

    @classmethod
    def env(cls, kind):
        if kind not in cls.envs:
            jedi = boot.boot()
            if kind == 'helper':
                from jedi.api.environment import SameEnvironment
                cls.envs[kind] = SameEnvironment()
            elif kind == 'inproc':
                cls.envs[kind] = jedi.InterpreterEnvironment()
            elif kind == 'default':
                # what Project.search uses: Project.get_environment() without environment_path
                from jedi.api.environment import get_cached_default_environment
                cls.envs[kind] = get_cached_default_environment()
            else:
                raise ValueError(kind)
        return cls.envs[kind]

    @classmethod
    def adopt(cls, kind, env):
        """Watch `env` under the name `kind` from now on (jedi's cached default environment is
        replaced by a new object every 10 minutes of wall time; whichever object the project
        under test really uses is the one that must be observed)."""
        old = cls.envs.get(kind)
        if old is env:
            return
        if old is not None:
            try:
                old._get_subprocess()._kill()
            except Exception:
                pass
        cls.envs[kind] = env
        cls.watch.pop(kind, None)

    @classmethod
    def kill_helpers(cls):
        for kind in ('helper', 'default'):
            e = cls.envs.pop(kind, None)
            if e is not None:
                try:
                    e._get_subprocess()._kill()
                except Exception:
                    pass
                if kind == 'default':
                    from jedi.api import environment
                    environment._get_cached_default_environment.clear_cache()
            cls.watch.pop(kind, None)


class World:
    """One generated tree."""

    def __init__(self, variant, so_template, tag=''):
        self.jedi = boot.boot()
        base = os.path.join(boot.scratch_root(), 'c12', 'w%d%s' % (os.getpid(), tag))
        self.root = os.path.join(base, 'tree-' + variant)
        self.sentinel = os.path.join(base, 'sentinel-%s.log' % variant)
        self.neutral = os.path.join(base, 'neutral')
        os.makedirs(self.neutral, exist_ok=True)
        self.variant = variant
        self.autos = auto_names()
        self.files, self.mods = tree_spec(variant, self.root, self.sentinel, self.autos,
                                          so_template)
        if os.path.exists(self.root):
            shutil.rmtree(self.root)
        write_tree(self.root, self.files)
        self.clear_sentinel()
        self.by_sym = {m['sym']: m for m in self.mods}
        self.names = {'bo', 'dj', 'app', 'app.settings', 'tests', 'ns'}
        for m in self.mods:
            parts = m['name'].split('.')
            for i in range(1, len(parts) + 1):
                self.names.add('.'.join(parts[:i]))
        self.touch_names = {n.split('.')[-1] for n in self.names} | {'func', 'K', 'attr', 'meth',
                                                                      'VALUE', 'fix', 'plugfix',
                                                                      'tfix'}
        self.seq = 0

    def enter(self, cwd_mode):
        Procs.switch(self.root if cwd_mode == 'project' else self.neutral)
        return self

    def env(self, kind):
        return Procs.env(kind)

    def clear_sentinel(self):
        try:
            os.unlink(self.sentinel)
        except FileNotFoundError:
            pass

    def sentinel_lines(self):
        try:
            with open(self.sentinel) as f:
                return [x for x in f.read().split('\n') if x]
        except FileNotFoundError:
            return []

    def executed(self):
        """Relative paths of tree files that ran since the sentinel was last cleared."""
        return sorted({ln.partition(' ')[2] for ln in self.sentinel_lines()})

    def _watch(self, w):
        if w not in Procs.watch:
            Procs.watch[w] = Watch(w, None if w == 'host' else Procs.env(w))
            return Procs.watch[w], True
        return Procs.watch[w], False

    def check(self, wheres, full=False, repair='purge'):
        """One observation of every watched process.  -> [(site, detail)]"""
        found = []
        for w in wheres:
            watch, new = self._watch(w)
            found += watch.step(self.root, self.names, full=full or new)
        if os.path.exists(self.sentinel):
            pids = {Procs.watch[w].pid: Procs.watch[w].who for w in wheres}
            by = {}
            for ln in self.sentinel_lines():
                pid, _, rel = ln.partition(' ')
                who = pids.get(int(pid), 'other-process') if pid.isdigit() else 'other-process'
                by.setdefault(who, set()).add(rel)
            for who, rels in sorted(by.items()):
                found.insert(0, ('project-code-executed@' + who, {'executed_files': sorted(rels)}))
        if found:
            self.repair(wheres, repair)
        return found

    def repair(self, wheres, how='purge'):
        """After a violation: put the watched state back so that later cases are judged alone.
        how='purge': the helper is asked (eval request, harness only) to forget the tree's
        modules and to restore its sys.path/cwd; how='restart' or a failing purge: the helpers
        are replaced."""
        self.clear_sentinel()
        for k, v in list(sys.modules.items()):
            f = getattr(v, '__file__', None)
            if _under(f, self.root) or (k in self.names and k not in _HOST_MODULES_AT_START):
                del sys.modules[k]
        h = Procs.watch.get('host')
        if h is not None and h.path is not None:
            sys.path[:] = h.path
            os.chdir(h.cwd)
            for k in list(os.environ):
                if k not in h.environ:
                    del os.environ[k]
            os.environ.update(h.environ)
        if how == 'purge':
            try:
                for w in wheres:
                    watch = Procs.watch.get(w)
                    if w == 'host' or watch is None or watch.path is None:
                        continue
                    expr = ("[sys.modules.pop(k, None) for k in list(sys.modules) if k in %r or "
                            "str(getattr(sys.modules[k], '__file__', None)).startswith(%r)] and "
                            "None, sys.path.__setitem__(slice(None), %r), os.chdir(%r), "
                            "[os.environ.pop(k) for k in list(os.environ) if k not in %r], "
                            "os.environ.update(%r)"
                            % (sorted(self.names - {'__main__'}), self.root + os.sep, watch.path,
                               watch.cwd, sorted(watch.environ), watch.environ))
                    watch.env._get_subprocess()._send(None, eval, (expr,))
            except Exception:
                how = 'restart'
        if how == 'restart':
            Procs.kill_helpers()
        Procs.watch = {}
        for w in wheres:
            self._watch(w)[0].step(self.root, self.names, full=True)

    def fresh_path(self, bufdir, stem='c12b'):
        self.seq += 1
        return os.path.join(self.root, bufdir, '%s_%d_%d.py' % (stem, os.getpid(), self.seq))


_worlds = {}
_so_template = None
_history = []               # indices of the tasks this worker has run (this pool run)
_reported_sites = set()


def _so_path():
    return os.path.join(boot.scratch_root(), 'c12', 'so', 'c12so.so')


def _init():
    global _so_template
    boot.boot()
    warnings.simplefilter('ignore')
    # the parent has booted already (warm-up), so boot() is a no-op in a forked worker: give
    # every worker its own pickle cache directory (concurrent writers corrupt each other)
    from jedi import settings
    cd = os.path.join(boot.scratch_root(), 'cache-%d' % os.getpid())
    os.makedirs(cd, exist_ok=True)
    settings.cache_directory = cd
    if _so_template is None and os.path.exists(_so_path()):
        with open(_so_path(), 'rb') as f:
            _so_template = f.read()


def _world(variant, cwd_mode):
    if variant not in _worlds:
        _worlds[variant] = World(variant, _so_template)
    return _worlds[variant].enter(cwd_mode)


# ------------------------------------------------------------------------------------------
# batteries
# ------------------------------------------------------------------------------------------

REFACTORINGS = ('rename', 'inline', 'extract_variable', 'extract_function')


def _touch(method, res, root, deep, names=()):
    """Touch the documented attributes of the results; -> module paths the results point to."""
    paths = []
    if method in REFACTORINGS:
        res.get_diff()
        res.get_renames()
        for p, cf in sorted(res.get_changed_files().items(), key=lambda kv: str(kv[0])):
            cf.get_new_code()
            cf.get_diff()
            paths.append(str(p))
        return paths
    if method == 'get_syntax_errors':
        for e in res:
            canon.touch_syntax_error(e)
        return paths
    if method == 'Script':
        return paths
    if method == 'get_context':
        res = [res]
    res = list(res)
    if method == 'get_signatures':
        for s in res:
            canon.sig_core(s)
    for i, r in enumerate(res):
        # cheap attributes (they force the inference of the name) of every result that is named
        # like something of the tree, and of the first 5 others: `import ` completes to every
        # module of the standard library, whose analysis is not the subject here
        if i >= 5 and r.name not in names and len(res) > 40:
            continue
        mp = r.module_path
        if mp is not None:
            paths.append(str(mp))
        (r.name, r.type, r.module_name, r.line, r.column, r.description, r.full_name)
    # quick: every attribute of the first result; thorough: first 3 + last, recursively
    for r in (canon.cap(res, 3, 1) if deep else res[:1]):
        canon.touch_name(r, root, deep=deep)
    return paths


class Battery:
    """Runs api calls one by one; after each one all watched processes are observed."""

    def __init__(self, world, wheres, deep):
        self.w = world
        self.wheres = wheres
        self.deep = deep
        self.calls = 0
        self.exceptions = {}
        self.hit_files = {}
        self.nonempty = 0
        self.found = []           # (site, detail incl. call)
        self.warned = set()
        world.check(wheres, full=True)        # baseline before anything of this battery runs

    def call(self, label, fn, method):
        self.calls += 1
        try:
            with warnings.catch_warnings(record=True) as wl:
                warnings.simplefilter('always')
                res = fn()
                paths = _touch(method, res, self.w.root, self.deep, self.w.touch_names)
            for wmsg in wl:
                s = str(wmsg.message)
                if 'not importable' in s or 'Cannot import' in s:
                    self.warned.add(s.split(' in path')[0][:80])
            if paths or (method not in ('get_context', 'Script') and res):
                self.nonempty += 1
            for p in paths:
                if _under(p, self.w.root):
                    rel = os.path.relpath(p, self.w.root)
                    self.hit_files[rel] = self.hit_files.get(rel, 0) + 1
        except BaseException as e:
            if isinstance(e, (KeyboardInterrupt, SystemExit)):
                raise
            site = canon.exc_site(e)
            self.exceptions[site] = self.exceptions.get(site, 0) + 1
        self.observe(label)

    def observe(self, label, full=False):
        for site, detail in self.w.check(self.wheres, full=full):
            detail['call'] = label
            self.found.append((site, detail))

    def result(self):
        self.observe(['<end of battery: full observation>'], full=True)
        return {'calls': self.calls, 'exceptions': self.exceptions, 'hit_files': self.hit_files,
                'nonempty': self.nonempty, 'warned': sorted(self.warned),
                'found': [[s, d] for s, d in self.found]}


def _script_battery(world, envkind, opt, bufdir, stem, code_marked, deep, path=None,
                    only_call=None):
    jedi = world.jedi
    env = None if envkind == 'interpreter' else world.env(envkind)
    wheres = ['host'] + ([envkind] if envkind not in ('inproc', 'interpreter') else [])
    code, positions = split_marks(code_marked)
    if opt == 'nopath':
        path = None         # Script(code) as typed into an unsaved buffer: project found from cwd
    elif path is None:
        path = world.fresh_path(bufdir, stem or 'c12b')
    b = Battery(world, wheres, deep)
    holder = {}

    def mk():
        project = make_project(jedi, opt, world.root, env)
        if envkind == 'interpreter':
            # the REPL API: creates its own InterpreterEnvironment; project None -> Project(cwd)
            holder['s'] = jedi.Interpreter(code, [{}], path=path, project=project)
        else:
            holder['s'] = jedi.Script(code, path=path, environment=env, project=project)
    b.call(['Script'], mk, 'Script')
    script = holder.get('s')
    if script is None:
        return b
    for line, col in positions:
        for m, kw in POS_METHODS:
            label = [m, line, col, kw]
            if only_call is not None and label != only_call:
                continue
            b.call(label, lambda: getattr(script, m)(line, col, **kw), m)
    words = re.findall(r'[^\W\d]\w*', code)
    idents = [w for w in ('func', 'K') if w in words]
    imported = re.search(r"import\w*[ (']+([\w.]+)", code)
    if imported:
        idents.append(imported.group(1))
    file_calls = [('get_names', {}), ('get_names', {'all_scopes': True, 'references': True}),
                  ('get_syntax_errors', {})]
    for ident in idents + ['']:
        file_calls.append(('search', {'string': ident}))
        file_calls.append(('complete_search', {'string': ident}))
    for m, kw in file_calls:
        label = [m, None, None, kw]
        if only_call is not None and label != only_call:
            continue
        b.call(label, lambda: list(getattr(script, m)(**kw)), m)
    return b


PROJECT_CALLS = [('search', {}), ('search', {'all_scopes': True}), ('complete_search', {}),
                 ('complete_search', {'all_scopes': True})]


def _project_battery(world, opt, string, deep, only_call=None):
    """Project.search / complete_search run in the project's own (default) environment."""
    jedi = world.jedi
    if opt == 'none':
        project = jedi.get_default_project(world.root)
    else:
        project = make_project(jedi, opt, world.root, None)
    # no environment is passed anywhere: Project.get_environment() -> jedi's cached default
    # environment (remembered by the Project object); that helper is the one to watch
    denv = project.get_environment()
    Procs.adopt('default', denv)
    b = Battery(world, ['host', 'default'], deep)
    for m, kw in PROJECT_CALLS:
        label = ['Project.' + m, string, kw]
        if only_call is not None and label != only_call:
            continue
        b.call(label, lambda: list(getattr(project, m)(string, **kw)), m)
    if project.get_environment() is not denv:
        b.exceptions['harness:project-used-an-unwatched-environment'] = 1
    return b


def parsed_files(world):
    """Which files of the tree jedi has read and parsed in this process (parso's cache keys)."""
    import parso.cache
    out = set()
    for per_grammar in parso.cache.parser_cache.values():
        for p in list(per_grammar):
            if p is not None and _under(str(p), world.root):
                rel = os.path.relpath(str(p), world.root)
                if rel in world.files:
                    out.add(rel)
    return sorted(out)


def _work(task):
    """One cell of the product."""
    shape = task.get('shape')
    if shape:
        return _work_shaped(task, shape)
    return _work_plain(task)


def _work_shaped(task, shape):
    """Run the battery while the host's sys.path has the given shape (restored afterwards).
    The host's baseline observation is taken after shaping, so only jedi's changes count."""
    _world(task['variant'], task['cwd'])
    saved = list(sys.path)
    sys.path[:] = shaped_path(saved, shape)
    Procs.watch.pop('host', None)
    try:
        return _work_plain(task)
    finally:
        sys.path[:] = saved
        Procs.watch.pop('host', None)


def _work_plain(task):
    world = _world(task['variant'], task['cwd'])
    deep = task.get('deep', False)
    kind = task['kind']
    if kind == 'form':
        m = world.by_sym.get(task['sym'])
        if m is None:
            return {'na': 'symbol not in this tree'}
        fb = form_buffer(task['form'], m, world.root)
        if fb is None:
            return {'na': 'form not applicable'}
        bufdir, code = fb
        b = _script_battery(world, task['env'], task['opt'], bufdir, None, code, deep,
                            only_call=task.get('only_call'))
    elif kind == 'special':
        bufdir, stem, code = special_buffer(task['special'], world.root)
        path = os.path.join(world.root, 'conftest.py') if stem is None else None
        b = _script_battery(world, task['env'], task['opt'], bufdir, stem, code, deep, path=path,
                            only_call=task.get('only_call'))
    elif kind == 'project':
        b = _project_battery(world, task['opt'], task['string'], deep,
                             only_call=task.get('only_call'))
    else:
        raise ValueError(kind)
    r = b.result()
    # (jv.pool prunes parso's cache entries for scratch files after every task)
    r['parsed'] = parsed_files(world)
    r = json.loads(json.dumps(r, default=repr))     # e.g. Path objects left in sys.path
    sites = {site for site, _ in r['found']}
    if sites - _reported_sites:
        # first time this worker sees the site: ship what it had analysed before, because a
        # state leak from one query into a later one (C12's very subject) may only be
        # reproducible after the same history
        r['history'] = list(_history)
        _reported_sites.update(sites)
    if 'i' in task:
        _history.append(task['i'])
    return r


# ------------------------------------------------------------------------------------------
# controls (non-vacuity of generator and observation channel)
# ------------------------------------------------------------------------------------------

CONTROL_CHILD = r"""
import os, runpy, site, sys
root, sentinel, out = sys.argv[1:4]
mods = eval(sys.argv[4])
ran = {}
def take(label):
    try:
        with open(sentinel) as f:
            lines = sorted({ln.partition(' ')[2] for ln in f.read().split('\n') if ln})
        os.unlink(sentinel)
    except FileNotFoundError:
        lines = []
    ran[label] = lines
for sym, name, top in mods:
    sys.path.insert(0, top)
    try:
        __import__(name)
    except BaseException:
        pass
    sys.path.remove(top)
    take(sym)
for label, fn in [('site.addsitedir(root): *.pth', lambda: site.addsitedir(root)),
                  ('runpy <root> (__main__.py)', lambda: runpy.run_path(root)),
                  ('runpy bo/bin/script', lambda: runpy.run_path(os.path.join(root, 'bo', 'bin', 'script'))),
                  ('import app.settings', lambda: (sys.path.insert(0, os.path.join(root, 'dj')),
                                                   __import__('app.settings')))]:
    try:
        fn()
    except BaseException:
        pass
    take(label)
import json
with open(out, 'w') as f:
    json.dump(ran, f)
"""


def _control_cpython(task):
    """Positive control of the generator: CPython really importing/running each file of the
    tree (in one clean child interpreter) writes the sentinel line of that file."""
    world = World(task['variant'], _so_template, tag='-ctl')
    env = dict(os.environ)
    env.pop('LD_PRELOAD', None)
    out = os.path.join(world.neutral, 'control.json')
    mods = [(m['sym'], m['name'], os.path.join(world.root, m['topdir']) if m['topdir']
             else world.root) for m in world.mods]
    subprocess.run([sys.executable, '-S', '-B', '-c', CONTROL_CHILD, world.root, world.sentinel,
                    out, repr(mods)], cwd=world.neutral, env=env, capture_output=True,
                   timeout=300)
    try:
        with open(out) as f:
            per = json.load(f)
    except (OSError, ValueError):
        per = {}
    ran = set()
    for v in per.values():
        ran.update(v)
    baited = sorted(rel for rel, data in world.files.items()
                    if isinstance(data, bytes) or 'c12os' in data or rel.endswith('.pth'))
    return {'per_symbol': per, 'side_effecting_files': baited,
            'never_ran_under_cpython': sorted(set(baited) - ran), 'files': sorted(world.files)}


def _control_optin(task):
    """Sensitivity control: the same tree and buffers, but with the documented opt-in
    Project(load_unsafe_extensions=True).  Reports per import form whether project code ran."""
    world = World(task['variant'], _so_template, tag='-opt').enter('neutral')
    m = world.by_sym.get(task['sym'])
    if m is None:
        return {'na': True}
    jedi = world.jedi
    out = {}
    for form in FORMS:
        fb = form_buffer(form, m, world.root)
        if fb is None:
            continue
        bufdir, marked = fb
        code, positions = split_marks(marked)
        res = {}
        for envkind in ('helper', 'inproc'):
            env = world.env(envkind)
            wheres = ['host'] + ([envkind] if envkind == 'helper' else [])
            world.check(wheres, full=True, repair='purge')
            project = make_project(jedi, 'UNSAFE-OPT-IN', world.root, env)
            try:
                with warnings.catch_warnings():
                    warnings.simplefilter('ignore')
                    s = jedi.Script(code, path=world.fresh_path(bufdir), environment=env,
                                    project=project)
                    for line, col in positions:
                        s.infer(line, col)
                        s.complete(line, col)
            except Exception as e:
                res[envkind + ':exception'] = canon.exc_site(e)
            res[envkind] = sorted(s for s, _ in world.check(wheres, full=True, repair='purge'))
        out[form] = res
    Procs.kill_helpers()
    return {'forms': out}


def _probe_project_json(task):
    """NOT judged (outside the property's premise, see assumptions): what happens when the
    analysed tree itself carries jedi's project configuration and Script() is used without an
    explicit project.  Recorded in the evidence so the fact is not lost."""
    world = World('m', _so_template, tag='-cfg').enter('neutral')
    jedi = world.jedi
    out = {}
    cfg = os.path.join(world.root, '.jedi', 'project.json')
    os.makedirs(os.path.dirname(cfg), exist_ok=True)
    name = world.autos[0] if world.autos else 'gi'
    with open(cfg, 'w') as f:
        json.dump([1, {'path': world.root, 'load_unsafe_extensions': True}], f)
    env = world.env('helper')
    world.check(['host', 'helper'], full=True)
    try:
        s = jedi.Script('import %s\n%s.func\n' % (name, name), path=world.fresh_path(''),
                        environment=env)
        s.infer(2, len(name) + 2)
    except Exception as e:
        out['exception'] = canon.exc_site(e)
    found = world.check(['host', 'helper'], full=True)
    out['load_unsafe_extensions=true in <tree>/.jedi/project.json'] = sorted(
        '%s %s' % (site, d.get('executed_files', '')) for site, d in found)
    fake = os.path.join(world.root, 'venv', 'bin', 'python')
    os.makedirs(os.path.dirname(fake), exist_ok=True)
    with open(fake, 'w') as f:
        f.write('#!/bin/sh\necho "$$ venv/bin/python" >> %s\nexec %s "$@"\n'
                % (world.sentinel, sys.executable))
    os.chmod(fake, 0o755)
    with open(cfg, 'w') as f:
        json.dump([1, {'path': world.root, 'environment_path': fake}], f)
    try:
        s = jedi.Script('import os\nos.path\n', path=world.fresh_path(''))
        s.infer(2, 4)
    except Exception as e:
        out['exception2'] = canon.exc_site(e)
    out['environment_path=<tree>/venv/bin/python in <tree>/.jedi/project.json'] = world.executed()
    world.clear_sentinel()
    Procs.kill_helpers()
    return out


def _probe_host_path_in_tree(task):
    """Recorded for all shapes; the '' shapes are ALSO judged by the explorer, the relative
    entry shape is not (see assumptions): the host's OWN sys.path has an entry that resolves
    to the analysed tree ('' or '.' while the working directory is the tree) and the analysis
    runs in-process.  Which shapes let jedi import the tree's auto-import module?"""
    world = World('m', _so_template, tag='-hp').enter('project')
    jedi = world.jedi
    name = world.autos[0] if world.autos else 'gi'
    code = 'import %s\n%s.func\n' % (name, name)
    saved = list(sys.path)
    out = {}
    for shape in HOST_SHAPES:
        for kind in ('inproc', 'interpreter'):
            sys.path[:] = shaped_path(saved, shape)
            # probe only: importlib's finder cache for relative entries must not remember
            # another working directory of this worker
            for k in ('', '.', os.getcwd()):
                sys.path_importer_cache.pop(k, None)
            importlib.invalidate_caches()
            Procs.watch.pop('host', None)
            world.check(['host'], full=True)
            try:
                with warnings.catch_warnings():
                    warnings.simplefilter('ignore')
                    project = jedi.Project(world.root)
                    if kind == 'inproc':
                        sc = jedi.Script(code, path=world.fresh_path(''), project=project,
                                         environment=jedi.InterpreterEnvironment())
                    else:
                        sc = jedi.Interpreter(code, [{}], path=world.fresh_path(''),
                                              project=project)
                    sc.infer(2, len(name) + 2)
                    sc.complete(2, len(name) + 2)
            except Exception as e:
                out['%s/%s:exception' % (shape, kind)] = canon.exc_site(e)
            found = world.check(['host'], full=True)
            out['%s/%s' % (shape, kind)] = sorted(
                '%s %s' % (site, d.get('executed_files', '')) for site, d in found)
            sys.path[:] = saved
            Procs.watch.pop('host', None)
    return out


def _control_any(task):
    return {'cpython': _control_cpython, 'optin': _control_optin,
            'project_json': _probe_project_json,
            'host_path_in_tree': _probe_host_path_in_tree}[task['control']](task)


# ------------------------------------------------------------------------------------------
# explorer
# ------------------------------------------------------------------------------------------

def _input_id(t):
    head = '%s/cwd=%s/env=%s/opt=%s' % (t['variant'], t['cwd'], t.get('env', 'default'), t['opt'])
    if t.get('shape'):
        head += '/host-sys.path=' + t['shape']
    if t['kind'] == 'form':
        return '%s/%s/%s' % (head, t['sym'], t['form'])
    if t['kind'] == 'special':
        return '%s/special:%s' % (head, t['special'])
    return '%s/Project.search:%r' % (head, t['string'])


def _is_compiled_or_auto(sym):
    return sym.startswith('auto:') or sym.endswith('(text)') or sym.endswith('(real)')


def _levels(tier, autos, have_so):
    """-> [(name, [task])], simplest first.  Every level is a full product of its domains."""
    so = True if have_so else None
    mods = {v: tree_spec(v, '/R', '/S', autos, so)[1] for v in ('m', 'p')}
    syms_m = [m['sym'] for m in mods['m']]
    # variant p differs from m only in the auto-import symbols; every other file is identical
    auto_p = [m['sym'] for m in mods['p'] if m['sym'].startswith('auto:')]
    compiled_m = [s for s in syms_m if _is_compiled_or_auto(s)]
    opts = list(PROJECT_OPTIONS)
    if tier == 'thorough':
        opts += PROJECT_OPTIONS_MORE
    deep = tier == 'thorough'

    def product(variant_syms, envs, cwd, specials, options=None):
        ts = []
        for variant, syms in variant_syms:
            for env in envs:
                for opt in (options or opts):
                    for sym in syms:
                        for form in FORMS:
                            ts.append({'kind': 'form', 'variant': variant, 'cwd': cwd, 'env': env,
                                       'opt': opt, 'sym': sym, 'form': form, 'deep': deep})
                    for sp in specials:
                        ts.append({'kind': 'special', 'variant': variant, 'cwd': cwd, 'env': env,
                                   'opt': opt, 'special': sp, 'deep': deep})
        return ts

    def searches(variant, cwd, strings):
        return [{'kind': 'project', 'variant': variant, 'cwd': cwd, 'opt': opt, 'string': s,
                 'deep': False} for opt in opts for s in strings]

    base_strings = ['func', 'K', 'K.attr', 'def func', 'class K', 'fix', '']
    strings = {}
    for v in ('m', 'p'):
        strings[v] = []
        for m in mods[v]:
            if v == 'm' or m['sym'].startswith('auto:'):
                strings[v] += [m['name'], m['name'] + '.func']
    levels = [
        ('helper environment x symbols x forms x options (cwd neutral)',
         product([('m', syms_m), ('p', auto_p)], ['helper'], 'neutral', SPECIALS)),
        ('in-process environment x %s symbols x forms x options (cwd neutral)'
         % ('all' if deep else 'compiled/auto-import'),
         product([('m', syms_m if deep else compiled_m), ('p', auto_p)], ['inproc'], 'neutral',
                 ['bare-import'])),
        ('Project.search/complete_search x strings x options (cwd neutral)',
         searches('m', 'neutral', base_strings + strings['m'])
         + searches('p', 'neutral', strings['p'])),
    ]
    # the host's own sys.path as a dimension: environment kind x shape, complete product
    shape_syms = [x for x in compiled_m if not x.endswith('(text)')] + ['setup.py']
    shape_forms = FORMS if deep else ['import', 'from', 'docstring', 'incomplete']
    levels.insert(2, (
        'host sys.path shape x environment kind (SameEnvironment | Script(environment='
        'InterpreterEnvironment()) | jedi.Interpreter) x options x symbols x forms (cwd neutral)',
        [{'kind': 'form', 'variant': 'm', 'cwd': 'neutral', 'env': env, 'opt': opt, 'sym': sym,
          'form': form, 'deep': deep, 'shape': shape}
         for shape in HOST_SHAPES for env in ENV_KINDS for opt in PROJECT_OPTIONS
         for sym in shape_syms for form in shape_forms]))
    # helpers are spawned with the tree as working directory; 'nopath' = Script(code) without
    # path and project, i.e. the project is discovered from the working directory
    opts_cwd = opts + ['nopath']
    for variant, syms in (('m', syms_m if deep else compiled_m), ('p', auto_p)):
        ts = product([(variant, syms)], ['helper'], 'project',
                     SPECIALS if deep else ['pytest-params'], opts_cwd)
        ts += product([(variant, [s for s in syms if _is_compiled_or_auto(s)])], ['inproc'],
                      'project', [], opts_cwd if deep else ['none', 'nopath'])
        ts += searches(variant, 'project',
                       (base_strings[:2] + strings['m'][:8]) if variant == 'm' else strings['p'])
        levels.append(('cwd = project root, helpers spawned inside the tree (variant %s)'
                       % variant, ts))
        if variant == 'm':
            # the REPL situation: the host's sys.path says '' and the working directory IS the
            # analysed tree.  jedi must not take '' for a trusted place (judged); a host that
            # lists '.' or another relative entry trusts that directory itself (probe only).
            levels.append((
                "host sys.path containing '' x environment kind x options x symbols x forms, "
                'cwd = the analysed tree',
                [{'kind': 'form', 'variant': 'm', 'cwd': 'project', 'env': env, 'opt': opt,
                  'sym': sym, 'form': form, 'deep': deep, 'shape': shape}
                 for shape in HOST_SHAPES if shape.startswith('empty-')
                 for env in ENV_KINDS for opt in PROJECT_OPTIONS
                 for sym in shape_syms for form in shape_forms]))
    return levels, mods


def _controls(ctx, autos, have_so):
    """Run the control families; harness error when the check would be vacuous."""
    unsafe = [('m', 'auto:%s.py' % a) for a in autos]
    unsafe += [('p', 'auto:%s/__init__.py' % a) for a in autos]
    unsafe += [('p', 'auto:%s/repository.py' % a) for a in autos]
    if have_so:
        unsafe.append(('m', 'xs%s(real)' % EXT))
    negative = [('m', 'x%s(text)' % EXT), ('m', 'setup.py'), ('m', 'conftest.py')]
    tasks = [{'control': 'cpython', 'variant': 'm'}, {'control': 'cpython', 'variant': 'p'},
             {'control': 'project_json'}, {'control': 'host_path_in_tree'}]
    tasks += [{'control': 'optin', 'variant': v, 'sym': s} for v, s in unsafe + negative]
    pres = pool.run(tasks, 'jv.props.c12:_control_any', init='jv.props.c12:_init',
                    seed=ctx.seed, tag='c12c')
    ctx.absorb(pres, 'controls')
    cp = {}
    n_files = {}
    optin = {}
    cfg = hostpath = None
    for i, t in enumerate(tasks):
        r = pres.results.get(i)
        if r is None:
            ctx.harness_error('control %s did not run' % t)
            continue
        if t['control'] == 'project_json':
            cfg = r
        elif t['control'] == 'host_path_in_tree':
            hostpath = r
        elif t['control'] == 'cpython':
            n_files[t['variant']] = len(r['files'])
            # .pyi files and the text file with the extension suffix cannot be run by CPython
            # either: they are bait only.  Everything else must have run at least once.
            must = [f for f in r['never_ran_under_cpython']
                    if not f.endswith('.pyi') and not f == 'x' + EXT]
            cp[t['variant']] = {
                'side_effecting_files': len(r['side_effecting_files']),
                'ran_under_cpython': len(r['side_effecting_files'])
                - len(r['never_ran_under_cpython']),
                'bait_only(not executable by CPython either)':
                    sorted(set(r['never_ran_under_cpython']) - set(must))}
            if must:
                ctx.harness_error('generator control: CPython ran these files without a sentinel '
                                  'line: %s -- the tree is not side-effecting' % must)
        elif not r.get('na'):
            d = optin.setdefault('%s:%s' % (t['variant'], t['sym']),
                                 {'forms': 0, 'forms_executing_in_helper': [],
                                  'forms_executing_in_host(in-process env)': []})
            for form, res in r['forms'].items():
                d['forms'] += 1
                if any(s.startswith('project-code-executed') for s in res.get('helper', [])):
                    d['forms_executing_in_helper'].append(form)
                if any(s.startswith('project-code-executed') for s in res.get('inproc', [])):
                    d['forms_executing_in_host(in-process env)'].append(form)
    for v, s in unsafe:
        d = optin.get('%s:%s' % (v, s))
        if d is None or not d['forms_executing_in_helper'] \
                or not d['forms_executing_in_host(in-process env)']:
            ctx.harness_error('sensitivity control: with load_unsafe_extensions=True the symbol '
                              '%s:%s was NOT executed (%s): the guarded route is not reached, '
                              'the check would be vacuous' % (v, s, d))
    return cp, optin, n_files, cfg, hostpath


def _warm_up():
    """Parse the typeshed builtins once in the parent (in-process environment, no helper is
    created): forked workers inherit parso's in-memory cache instead of each paying ~2 s."""
    jedi = boot.boot()
    try:
        with warnings.catch_warnings():
            warnings.simplefilter('ignore')
            env = jedi.InterpreterEnvironment()
            d = os.path.join(boot.scratch_root(), 'c12', 'warm')
            project = jedi.Project(d, smart_sys_path=False)
            s = jedi.Script('import os, typing, importlib\nos.path\n"".join\n',
                            path=os.path.join(d, 'warm1.py'), environment=env, project=project)
            s.infer(2, 5)
            s.complete(3, 7)
            s = jedi.Script('import pytest\n\n\n@pytest.fixture\ndef fx():\n    pass\n\n\n'
                            'def test_x(fx, monkeypatch, f):\n    fx\n',
                            path=os.path.join(d, 'test_warm2.py'), environment=env,
                            project=project)
            s.complete(9, 29)
            s.infer(9, 12)
            s.goto(10, 5)
    except Exception:
        pass


def run(ctx):
    global _so_template
    boot.boot()
    warnings.simplefilter('ignore')
    autos = auto_names()
    template = build_so_template(os.path.dirname(_so_path()))
    have_so = template is not None
    if not have_so:
        ctx.note('no C compiler: the real shared-object symbol is not generated')
    _so_template = template
    _warm_up()
    cp_control, optin, n_files, cfg_probe, hostpath_probe = _controls(ctx, autos, have_so)

    levels, mods = _levels(ctx.tier, autos, have_so)
    sym_files = {(v, m['sym']): m['files'] for v in mods for m in mods[v]}
    tree_files = {v: sym_files_all(mods, {'variant': v}) for v in mods}
    # one pool run over the concatenated levels (simplest first): a worker keeps its helpers
    # while the working directory stays the same (Procs.switch)
    tasks = []
    level_of = []
    for li, (name, ts) in enumerate(levels):
        tasks += ts
        level_of += [li] * len(ts)
    for i, t in enumerate(tasks):
        t['i'] = i
    pres = pool.run(tasks, 'jv.props.c12:_work', init='jv.props.c12:_init',
                    seed=ctx.seed, deadline=ctx.deadline, tag='c12')
    ctx.absorb(pres, 'exploration')
    states = transitions = na = 0
    sym_hits, form_hits, opt_hits, env_hits, shape_hits = {}, {}, {}, {}, {}
    exc_sites = {}
    parsed = set()
    pointed = set()
    warned_syms = {}
    shapes = set()
    skipped = set(pres.skipped)
    level_skipped = [0] * len(levels)
    for i in skipped:
        level_skipped[level_of[i]] += 1
    for i, t in enumerate(tasks):
        iid = _input_id(t)
        if i in pres.crashed:
            ctx.violation('WorkerDied(exit=%s)' % pres.crashed[i], iid, {'task': t}, {'task': t})
            continue
        r = pres.results.get(i)
        if r is None:
            continue
        if 'na' in r:
            na += 1
            continue
        states += 1
        transitions += r['calls']
        files_v = tree_files[t['variant']]
        key = '%s:%s' % (t['variant'], t.get('sym') or (
            'special:' + t['special'] if t['kind'] == 'special' else 'Project.search'))
        h = sym_hits.setdefault(key, {'batteries': 0, 'calls': 0, 'calls_with_results': 0,
                                      'results_in_own_files': 0})
        own = set(sym_files.get((t['variant'], t.get('sym')), ()))
        in_tree = sum(n for f, n in r['hit_files'].items() if f in files_v)
        h['batteries'] += 1
        h['calls'] += r['calls']
        h['calls_with_results'] += r['nonempty']
        h['results_in_own_files'] += sum(n for f, n in r['hit_files'].items()
                                         if (f in own if own else f in files_v))
        pointed.update(f for f in r['hit_files'] if f in files_v)
        if t['kind'] == 'form':
            fh = form_hits.setdefault(t['form'], {'batteries': 0, 'calls_with_results': 0,
                                                  'results_in_tree_files': 0})
            fh['batteries'] += 1
            fh['calls_with_results'] += r['nonempty']
            fh['results_in_tree_files'] += in_tree
        oh = opt_hits.setdefault(t['opt'], {'batteries': 0, 'results_in_tree_files': 0})
        oh['batteries'] += 1
        oh['results_in_tree_files'] += in_tree
        if t.get('shape'):
            sh = shape_hits.setdefault('%s/env=%s' % (t['shape'], t['env']),
                                       {'batteries': 0, 'calls': 0, 'calls_with_results': 0})
            sh['batteries'] += 1
            sh['calls'] += r['calls']
            sh['calls_with_results'] += r['nonempty']
        eh = env_hits.setdefault('env=%s/cwd=%s' % (t.get('env', 'default(Project.search)'),
                                                    t['cwd']), {'batteries': 0, 'calls': 0})
        eh['batteries'] += 1
        eh['calls'] += r['calls']
        for site, n in r['exceptions'].items():
            exc_sites[site] = exc_sites.get(site, 0) + n
        if r['warned']:
            warned_syms[key] = warned_syms.get(key, 0) + 1
        shapes.add((key, t.get('form'), t['opt'], t.get('env'), t.get('shape'), r['nonempty'] > 0,
                    tuple(sorted(f for f in r['hit_files'] if f in files_v))))
        parsed.update(r.get('parsed', ()))
        for site, detail in r['found']:
            case = {'task': t, 'call': detail.get('call'), 'site': site, 'tier': ctx.tier,
                    'have_so': have_so}
            if 'history' in r:
                case['history'] = r['history']
            ctx.violation(site, iid, detail, case)
    done_levels = []
    exhaustive = True
    samples = []
    for li, (name, ts) in enumerate(levels):
        if level_skipped[li]:
            exhaustive = False
            ctx.note('level %s: %d of %d batteries not explored (time cap)'
                     % (name, level_skipped[li], len(ts)))
        else:
            done_levels.append('%s: %d batteries' % (name, len(ts)))
        if ts:
            samples.append({'level': name, 'input': _input_id(ts[len(ts) // 3])})
    if pres.fatal or pres.harness_errors:
        exhaustive = False

    if exc_sites.pop('harness:project-used-an-unwatched-environment', None):
        ctx.harness_error('Project.search used an environment the harness does not watch')
    all_files = set(tree_files['m']) | set(tree_files['p'])
    ctx.coverage.update({
        'states': states, 'transitions': transitions, 'evaluations': transitions,
        'distinct_nontrivial': len(shapes),
        'rule': 'state = one battery = (tree variant, cwd, environment, project option, symbol, '
                'import form | special buffer | search string); transition = one API call '
                '(Script(), every query/refactoring method at every marked position, file-level '
                'methods, Project.search/complete_search) with result attributes touched, '
                'followed by an observation of host and helper(s); distinct_nontrivial = '
                'distinct (symbol, form, option, env, any result?, set of tree files the '
                'results point into)',
        'levels_completed': done_levels, 'exhaustive': exhaustive, 'samples': samples,
        'not_applicable_cells': na,
        'alphabet': {'forms': FORMS, 'specials': SPECIALS, 'options': sorted(opt_hits),
                     'methods': [m + (repr(k) if k else '') for m, k in POS_METHODS],
                     'project_methods': [m + (repr(k) if k else '') for m, k in PROJECT_CALLS]},
        'symbol_hits': sym_hits, 'form_hits': form_hits, 'option_hits': opt_hits,
        'environment_hits': env_hits,
        'host_sys.path_shape_x_environment_kind_hits': shape_hits,
        'symbols_with_no_result_in_own_files': sorted(
            k for k, h in sym_hits.items() if h['results_in_own_files'] == 0),
        'tree_files': n_files,
        'tree_files_parsed_by_jedi': sorted(parsed),
        'tree_files_never_parsed_by_jedi': sorted(all_files - parsed),
        'tree_files_results_point_into': sorted(pointed),
        'batteries_with_load_module_refusal_seen_in_process(UserWarning)': warned_syms,
        'control_cpython_executes': cp_control,
        'control_optin_executes': optin,
        'not_judged:tree_supplied_.jedi/project.json_with_default_project': cfg_probe,
        'not_judged:host_sys.path_entry_resolving_to_the_tree(cwd=tree,in-process)': hostpath_probe,
        'api_exceptions_not_judged_here': exc_sites,
        'auto_import_modules': autos, 'real_shared_object': have_so,
    })
    ctx.assumptions += [
        'configuration `stubs` (DESIGN 0); settings at their defaults: load_unsafe_extensions is '
        'never passed except in the sensitivity control',
        'sys.modules clause read as DESIGN C12 states it: no module whose __file__/__path__ lies '
        'in the analysed tree and no newly appeared module named like a tree module; stdlib '
        'modules that jedi itself imports lazily are not violations',
        'exceptions escaping the API are counted (api_exceptions_not_judged_here) but are C01\'s '
        'subject; RefactoringError at non-refactorable positions is the documented answer',
        'Project.search/complete_search run in the project\'s own environment '
        '(get_cached_default_environment): that second helper is observed in the same way',
        'per call the module table of a process is re-read only when len(sys.modules) changed; '
        'a full observation closes every battery',
        'host sys.path shapes: all five shapes are judged with a neutral working directory; '
        'with cwd = the analysed tree the shapes whose only tree-resolving entry is \'\' (first, '
        'middle, twice) are judged as well (jedi itself declares \'\' untrusted by dropping it); '
        'the relative-entry shape (\'.\', \'c12rel/lib\') with cwd = tree is recorded, not judged '
        '(not_judged:host_sys.path_entry...): a host that lists \'.\' on its own sys.path trusts '
        'that directory itself, which puts it inside the environment the property trusts',
        '.pth files are never read by jedi; the symbol is present in every tree and guarded by '
        'the sentinel and by the cwd=project levels (helpers started inside the tree)',
        '.jedi/project.json inside the analysed tree is jedi configuration (it can set '
        'load_unsafe_extensions / environment_path) and is outside the property\'s premise '
        '"load_unsafe_extensions left at its default"',
    ]


def sym_files_all(mods, t):
    """All generated file names of the tree variant of task t (excludes the buffers)."""
    v = t['variant']
    cache = sym_files_all.__dict__.setdefault('cache', {})
    if v not in cache:
        cache[v] = frozenset(tree_spec(v, '/R', '/S', auto_names(), True)[0])
    return cache[v]


def replay(case):
    global _so_template
    _init()
    if _so_template is None:
        _so_template = build_so_template(os.path.dirname(_so_path()))
    t = dict(case['task'])
    t.pop('only_call', None)

    def one():
        r = _work(t)
        return [(site, _input_id(t), detail) for site, detail in r.get('found', ())]
    out = one()
    want = case.get('site')
    if case.get('history') and not any(o[0] == want or want is None for o in out):
        # Not reproducible in a fresh process: the violation depended on what the same worker
        # had analysed before.  Re-walk that history (same code path as the explorer, repairs
        # included), then the case itself.
        levels, _ = _levels(case.get('tier', 'quick'), auto_names(), bool(case.get('have_so')))
        tasks = [x for _, ts in levels for x in ts]
        _reported_sites.clear()
        for i in case['history']:
            if 0 <= i < len(tasks):
                _work(tasks[i])
        out = one()
    Procs.kill_helpers()
    return out
