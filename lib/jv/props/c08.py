"""C08 — answers do not depend on the editing history of a buffer.

Engine E2 (histories, stateless search).  State = (buffer text, virtual time, hidden cache state
of parso's diff parser and of jedi's derived caches).  Every history of edit/clock events up to
the tier's depth is replayed from scratch - open the base text, then the events - under a path
never used before in that process (mode `path`) or in the shared path-less slot (mode `none`,
where a worker's consecutive histories deliberately form one long history).  After the opening
and after EVERY event a new `jedi.Script` is built in the same process and only that newest
Script is asked the battery (complete, infer, goto, help, get_signatures, get_context, get_names,
get_references at definitions) at every identifier, call slot and line end (c08_battery).

Oracle: the canonical answers of a fresh interpreter process for the text reached, memoised per
(base, text) and computed before the histories run (the model in c08_model is pure, so the set
of reachable texts is known beforehand); both sides are canonicalised by the same code, nothing
address-like leaks.  A mismatch is re-judged against two single-purpose fresh interpreters
before it is reported, and shrunk to the single history if that reproduces it alone.

Proviso (mechanical): after each step the tree jedi works on is compared (get_code(), structural
dump, parent links) with a from-scratch parse of the same text.  If it differs and a shadow
parso cache entry that was fed the same sequence of texts without jedi differs too, the step is
counted as "parso diff-parser divergence", listed in the evidence and NOT judged.

Clock: jedi.cache.time and parso.cache.time are one virtual clock object owned by the explorer
(0 s between Scripts by default; events wait4 / wait601 advance it).
"""
import hashlib
import json
import os
import shutil
import subprocess
import sys
import time as _real_time

from .. import boot, canon, findings, pool
from .. import c08_model as model
from .. import c08_battery as battery

ID = 'C08'
BUDGET = {'quick': 900, 'thorough': 2700}

T0 = 2_000_000_000.0          # virtual epoch (later than every real mtime on this machine)
FILE_MTIME = T0 - 1000.0      # mtime given to the saved version of the buffer and its directory
MODES = ('path', 'none')

# depth-3 (quick) / depth-4 (thorough) sub-alphabet: the events that change what names mean
CORE7 = ('rename_def', 'change_params', 'del_body', 'paste', 'type', 'undo', 'wait4')
CORE5 = ('rename_def', 'change_params', 'paste', 'type', 'undo')

_B = ('funcs', 'klass', 'mixed')
YIELD6 = model.YIELD_EVENTS + ('undo',)
_GEN = ('depth<=2/yield-tail events/gen', [('gen', 'YIELD6', 1), ('gen', 'YIELD6', 2)])
# unsaved buffer / save to disk / analyse the path without code, all orders (path mode only for
# histories that contain a disk event)
DISK6 = ('rename_def', 'change_params', 'paste', 'save', 'reload', 'undo')
_DISK = ('depth<=2/disk events/funcs', [('funcs', 'DISK6', 1), ('funcs', 'DISK6', 2)])
# a project with a sibling module on disk that holds the only caller of a buffer function
DYN4 = ('add_list_loop', 'rename_def', 'paste', 'undo')
_DYN = ('depth<=2/sibling-module project/dyn', [('dyn', 'DYN4', 1), ('dyn', 'DYN4', 2)])
# levels, simplest first: (name, [(base, alphabet name, depth), ...])
PLANS = {
    'quick': [('depth1/13 events', [(b, 'Q13', 1) for b in _B]),
              _GEN, _DISK, _DYN,
              ('depth2/13 events', [(b, 'Q13', 2) for b in _B]),
              ('depth3/core 5 events/funcs', [('funcs', 'CORE5', 3)])],
    'thorough': [('depth1/28 events', [(b, 'ALL28', 1) for b in _B]),
                 _GEN, _DISK, _DYN,
                 ('depth3/yield-tail events/gen', [('gen', 'YIELD6', 3)]),
                 ('depth3/disk events/funcs', [('funcs', 'DISK6', 3)]),
                 ('depth3/sibling-module project/dyn', [('dyn', 'DYN4', 3)]),
                 ('depth2/13 events', [(b, 'Q13', 2) for b in _B]),
                 ('depth2/28 events/mixed', [('mixed', 'ALL28', 2)]),
                 ('depth3/13 events', [(b, 'Q13', 3) for b in _B]),
                 ('depth4/core 5 events/funcs', [('funcs', 'CORE5', 4)])],
    'seedtest': [_DISK, _DYN],
    'tiny': [('depth1/core 7 events/funcs', [('funcs', 'CORE7', 1)])],
    'dev': [('depth1/13 events', [(b, 'Q13', 1) for b in _B]),
            ('depth2/core 7 events/funcs', [('funcs', 'CORE7', 2)])],
}
ALPHABETS = {'Q13': model.QUICK_ALPHABET, 'YIELD6': YIELD6, 'DISK6': DISK6, 'DYN4': DYN4, 'CORE7': CORE7, 'CORE5': CORE5,
             'ALL28': model.ALL_EVENTS}


# ---------------------------------------------------------------------------------------------
# virtual clock
# ---------------------------------------------------------------------------------------------

class VClock:
    """Stands in for the `time` module inside jedi.cache and parso.cache."""

    def __init__(self):
        self.now = T0

    def time(self):
        return self.now

    def advance(self, dt):
        self.now += dt

    def __getattr__(self, name):
        return getattr(_real_time, name)


_clock = None


def install_clock():
    global _clock
    if _clock is None:
        boot.boot()
        import jedi.cache
        import parso.cache
        _clock = VClock()
        jedi.cache.time = _clock
        parso.cache.time = _clock
    return _clock


def sha(s):
    return hashlib.sha256(s.encode('utf-8')).hexdigest()[:20]


def hist_id(base, mode, events):
    return '%s:%s:%s' % (base, mode, '/'.join(events))


# ---------------------------------------------------------------------------------------------
# history enumeration (pure; shared by parent, workers and replay)
# ---------------------------------------------------------------------------------------------

def plan_histories(plan, exclude=()):
    """-> list of (base, events tuple, texts list) for the entries of one level, no duplicates
    and nothing an earlier level (`exclude`) already covered."""
    seen = set()
    for base, aname, depth in exclude:
        for events, _ in model.histories(base, ALPHABETS[aname], depth):
            seen.add((base, events))
    out = []
    for base, aname, depth in plan:
        for events, texts in model.histories(base, ALPHABETS[aname], depth):
            k = (base, events)
            if k in seen:
                continue
            seen.add(k)
            out.append((base, events, texts))
    return out


def shard_histories(hs, seed, k, n):
    """The k-th of n shards; VERIF_SEED only rotates the list before dealing."""
    if hs:
        rot = (seed * 7919) % len(hs)
        hs = hs[rot:] + hs[:rot]
    return hs[k::n]


# ---------------------------------------------------------------------------------------------
# one process' view of a buffer: building the newest Script and asking it
# ---------------------------------------------------------------------------------------------

class Editor:
    """Owns the places a process edits in: a fresh directory + file per path-mode history, one
    empty project directory for the path-less slot."""

    def __init__(self, tag):
        self.jedi = boot.boot()
        self.env = boot.environment()
        self.clock = install_clock()
        self.top = os.path.join(boot.scratch_root(), 'c08-%s-%d' % (tag, os.getpid()))
        os.makedirs(self.top, exist_ok=True)
        self.counter = 0
        self.none_root = os.path.join(self.top, 'none')
        os.makedirs(self.none_root, exist_ok=True)
        self.none_project = self.jedi.Project(self.none_root)

    def open(self, mode, base, disk=None):
        """-> (path, root, project) for a new history.  `disk` = what the buffer's file holds
        (default: the base text; the buffer may differ from it)."""
        if mode == 'none':
            return None, self.none_root, self.none_project
        self.counter += 1
        root = os.path.join(self.top, 'h%d' % self.counter)
        os.makedirs(root)
        path = os.path.join(root, 'buf.py')
        for name, content in model.SIBLINGS.get(base, {}).items():
            with open(os.path.join(root, name), 'w', newline='') as f:
                f.write(content)
            os.utime(os.path.join(root, name), (FILE_MTIME, FILE_MTIME))
        self.saves = 0
        self.write_disk(path, model.BASES[base] if disk is None else disk)
        return path, root, self.jedi.Project(root)

    def write_disk(self, path, text):
        """(Re)write the buffer's file; file and directory mtimes come from the file clock:
        FILE_MTIME at the opening, +1 s per later save."""
        with open(path, 'w', newline='') as f:
            f.write(text)
        t = FILE_MTIME + self.saves
        self.saves += 1
        os.utime(path, (t, t))
        os.utime(os.path.dirname(path), (t, t))

    def close(self, mode, root):
        if mode == 'path':
            self.drop_shadow(os.path.join(root, 'buf.py'))
            shutil.rmtree(root, ignore_errors=True)

    def script(self, text, path, project, nocode=False):
        """The newest Script of the buffer (`nocode`: Script(path=...) only, jedi reads `text`
        from the file itself).  The same text is also fed to a *shadow* parso cache
        entry (same grammar, same call, its own key), so that the shadow sees exactly the
        sequence of re-parses the buffer's entry sees - without jedi in between."""
        s = self.jedi.Script(None if nocode else text, path=path, environment=self.env,
                             project=project)
        key = self.shadow_key(path)
        try:
            self.shadow_tree = s._inference_state.grammar.parse(
                code=text, path=key, cache=False, diff_cache=True)
        except Exception as e:
            self.shadow_tree = e
        return s

    def shadow_key(self, path):
        return '<c08-shadow-of-None>' if path is None else str(path) + '.c08-shadow'

    def drop_shadow(self, path):
        """A finished path-mode history never comes back: its entry and its shadow leave parso's
        in-memory cache, which therefore stays far below parso's 600-entry garbage collection
        (that collector's mtime-based ageing is a known long-lived-process defect outside C08)."""
        from parso.cache import parser_cache
        if path is not None:
            for d in parser_cache.values():
                d.pop(self.shadow_key(path), None)
                for k in [k for k in d if k is not None and str(k) == str(path)]:
                    del d[k]

    @staticmethod
    def _tree_problem(node, text, ref_dump):
        try:
            if node.get_code() != text:
                return 'get_code() differs from the text'
            if battery.tree_dump(node) != ref_dump:
                return 'structure differs from a from-scratch parse'
            if not battery.tree_links_ok(node):
                return 'parent links inconsistent'
        except Exception as e:     # a broken tree may break the dump itself
            return 'dump failed: %s' % type(e).__name__
        return ''

    def tree_state(self, script, text):
        """-> (parso_divergence, jedi_only): the first is non-empty iff parso's diff parser, fed
        the same sequence of texts on its own, also fails to produce the from-scratch tree (the
        property's proviso: such a step is not judged); the second is non-empty iff only the
        tree jedi works on is wrong (parso kept its promise: the step is judged)."""
        ref = battery.tree_dump(script._inference_state.grammar.parse(text))  # no cache, no diff
        mine = self._tree_problem(script._module_node, text, ref)
        if not mine:
            return '', ''
        if isinstance(self.shadow_tree, Exception):
            return 'parso raised %s' % type(self.shadow_tree).__name__, ''
        shadow = self._tree_problem(self.shadow_tree, text, ref)
        if shadow:
            return mine, ''
        return '', mine


def run_history(ed, mode, base, events, judge=None, refs=True):
    """Replay one history.  `judge(step_index, (text, disk, nocode), answers) -> mismatches`.
    -> dict(steps=[...], evals=n)."""
    path, root, project = ed.open(mode, base)
    buf = model.Buffer(base)
    steps = []
    evals = 0
    try:
        for i in range(len(events) + 1):
            before = buf.text
            if i == 0:
                ev, r = 'open', (buf.text, 0.0)     # the buffer is opened with the base text
            else:
                ev = events[i - 1]
                r = buf.apply(ev)
            if r is None:
                raise RuntimeError('event %s disabled in %s' % (ev, hist_id(base, mode, events)))
            text, dt = r
            ed.clock.advance(dt)
            if ev in model.DISK_EVENTS and mode != 'path':
                raise RuntimeError('disk event in a path-less history: ' +
                                   hist_id(base, mode, events))
            if ev == 'save':
                ed.write_disk(path, text)
            keystrokes = []
            if ev == 'type':
                for kt in model.typing_steps(before, base)[:-1]:
                    s = None
                    try:
                        s = ed.script(kt, path, project)
                        ans, n = battery.cursor_answers(s, kt, root)
                    except Exception as e:
                        ans, n = {'Script': {'exc': canon.exc_site(e),
                                             'tb': canon.short_tb(e, 4)}}, 1
                    evals += n
                    bad = {k: v for k, v in ans.items() if isinstance(v, dict)}
                    if bad:
                        keystrokes.append({'text': kt, 'exc': bad})
                    del s
            rec = {'event': ev, 'sha': sha(text), 'keystroke_exc': keystrokes}
            try:
                script = ed.script(text, path, project, nocode=buf.nocode)
            except Exception as e:
                rec['answers'] = {'Script': {'exc': canon.exc_site(e),
                                             'tb': canon.short_tb(e, 4)}}
                rec['diverged'] = rec['jedi_tree_wrong'] = ''
                evals += 1
            else:
                rec['diverged'], rec['jedi_tree_wrong'] = ed.tree_state(script, text)
                rec['answers'], n = battery.answers(script, text, root, refs=refs)
                evals += n
                del script
            if judge is not None:
                rec['mismatches'] = [] if rec['diverged'] else judge(i, buf.state(),
                                                                      rec['answers'])
            steps.append(rec)
    finally:
        ed.close(mode, root)
    return {'steps': steps, 'evals': evals}


def compare(expected, observed):
    """-> list of (key, expected, observed) for every query whose canonical answer differs."""
    out = []
    for k in sorted(set(expected) | set(observed)):
        e, o = expected.get(k, '<not asked>'), observed.get(k, '<not asked>')
        if isinstance(e, dict) and isinstance(o, dict) and e.get('exc') == o.get('exc'):
            continue        # same exception class at the same jedi frame on both sides
        if e != o:
            out.append((k, e, o))
    return out


def site_of(key, observed):
    method = key.split('@')[0]
    if isinstance(observed, dict) and 'exc' in observed:
        return '%s(history only)/%s' % (observed['exc'], method)
    return 'history-dependent@%s' % method


# ---------------------------------------------------------------------------------------------
# fresh-process oracle
# ---------------------------------------------------------------------------------------------

# most texts served by one fresh oracle interpreter: quick 12 (each under a never-used path, the
# path-less slot emptied in between; fewer when one round of NPROC interpreters covers the level),
# thorough 1 (one interpreter per text); JV_C08_ORACLE_BATCH overrides
ORACLE_BATCH = {'quick': 12, 'thorough': 1}


def oracle_batch(tier):
    v = os.environ.get('JV_C08_ORACLE_BATCH')
    return max(1, int(v)) if v else ORACLE_BATCH.get(tier, 1)


def _batches(plain, k):
    k = max(1, min(k, -(-len(plain) // pool.NPROC)))
    return [plain[i:i + k] for i in range(0, len(plain), k)]


def oracle_dir():
    """Oracle answers of this run (scratch).  Development knob JV_C08_ORACLE_DIR keeps them
    between runs of the same checkout (never used by bin/check on its own)."""
    keep = os.environ.get('JV_C08_ORACLE_DIR')
    if keep:
        d = os.path.join(keep, sha(os.path.abspath(boot.REPO)))
    else:
        d = os.path.join(boot.scratch_root(), 'c08-oracle')
    os.makedirs(d, exist_ok=True)
    return d


def oracle_file(base, text, strict_mode=None, disk=None, nocode=False):
    """One file per (base, text) - plus what is on disk when that is not the base text, plus the
    way the Script gets its text when jedi reads the file itself."""
    tag = sha(base + '\0' + text)
    if disk is not None and disk != model.BASES[base]:
        tag += '-d' + sha(disk)[:10]
    if nocode:
        tag += '-nocode'
    tag += '' if strict_mode is None else '-strict-' + strict_mode
    return os.path.join(oracle_dir(), tag + '.json')


def spawn_oracle(job, out_path):
    """Run one fresh interpreter; returns None on success or an error string."""
    job_path = out_path + '.job'
    with open(job_path, 'w') as f:
        json.dump(job, f)
    env = dict(os.environ)
    env['JV_SCRATCH'] = boot.scratch_root()
    p = subprocess.run([sys.executable, '-B', '-m', 'jv.props.c08', 'oracle', job_path, out_path],
                       env=env, capture_output=True, text=True, timeout=600)
    try:
        os.unlink(job_path)
    except OSError:
        pass
    if p.returncode != 0 or not os.path.exists(out_path):
        return 'oracle process failed (rc=%s): %s' % (p.returncode, (p.stderr or '')[-1500:])
    return None


def job_file(job):
    return oracle_file(job['base'], job['text'], job.get('strict'), job.get('disk'),
                       job.get('nocode', False))


def _oracle_task(task):
    """pool task: a fresh interpreter for one (base, text); answers for the requested modes."""
    out = job_file(task)
    if os.path.exists(out):
        return {'ok': True, 'cached': True}
    err = spawn_oracle(task, out)
    if err:
        raise RuntimeError(err)
    return {'ok': True}


def warm_dir():
    return os.path.join(boot.scratch_root(), 'c08-warm-cache')


def warm_main(dest):
    """python -m jv.props.c08 warm <dir>: write the parso pickles of the stubs every base needs
    (both modes; real clock, so that parso's purge of 'inactive' pickles leaves them alone)."""
    jedi = boot.boot()
    from jedi import settings
    env = boot.environment()
    top = os.path.join(boot.scratch_root(), 'c08-warm-%d' % os.getpid())
    os.makedirs(top)
    for base, text in model.BASES.items():
        for path in (os.path.join(top, base + '_w.py'), None):
            s = jedi.Script(text, path=path, environment=env, project=jedi.Project(top))
            battery.answers(s, text, top)
    tmp = dest + '.tmp%d' % os.getpid()
    shutil.copytree(settings.cache_directory, tmp)
    os.rename(tmp, dest)
    shutil.rmtree(top, ignore_errors=True)
    shutil.rmtree(settings.cache_directory, ignore_errors=True)


def copy_warm(src):
    """Private copy of the warm-up process' stub pickles.  Their timestamps are set to the
    virtual epoch: parso deletes pickles whose atime is 30 days behind *its* clock whenever it
    saves a new one, and its clock here is the virtual one."""
    from jedi import settings
    if src and os.path.isdir(src):
        for name in os.listdir(src):
            s = os.path.join(src, name)
            if os.path.isdir(s):
                d = os.path.join(settings.cache_directory, name)
                shutil.copytree(s, d, dirs_exist_ok=True)
                for f in os.listdir(d):
                    os.utime(os.path.join(d, f), (T0, T0))


def oracle_main(job_path, out_path):
    """Entry point of the fresh interpreter (python -m jv.props.c08 oracle <job> <out>)."""
    with open(job_path) as f:
        job = json.load(f)
    if job.get('perturb'):
        # a different heap layout: object addresses (and every id()-ordered set) move
        globals()['_ballast'] = [object() for _ in range(100003)] + [[i] for i in range(7919)]
    jedi = boot.boot()
    from jedi import settings
    cd = settings.cache_directory
    copy_warm(job.get('warm'))   # private copy of the stub pickles written by the warm-up process
    ed = Editor('o')
    items = [(job, out_path)]
    # batch > 1: further texts served by the same interpreter, each
    # under a never-used path, the path-less slot emptied in between
    items += [(j, job_file(j)) for j in job.get('more', [])]
    try:
        for it, out in items:
            base, text, nocode = it['base'], it['text'], it.get('nocode', False)
            res = {}
            for mode in job['modes']:
                if mode != 'path' and (nocode or it.get('disk') is not None):
                    continue        # states reached through disk events exist in path mode only
                path, root, project = ed.open(mode, base, it.get('disk'))
                script = ed.script(text, path, project, nocode=nocode)
                if job.get('cursor'):
                    res[mode] = battery.cursor_answers(script, text, root)[0]
                else:
                    res[mode] = battery.answers(script, text, root)[0]
                del script
                ed.close(mode, root)
            tmp = out + '.tmp%d' % os.getpid()
            with open(tmp, 'w') as f:
                json.dump(res, f)
            os.rename(tmp, out)
            if len(items) > 1:
                from parso.cache import parser_cache
                for d in parser_cache.values():
                    d.pop(None, None)
                    d.pop(ed.shadow_key(None), None)
    finally:
        shutil.rmtree(ed.top, ignore_errors=True)
        shutil.rmtree(cd, ignore_errors=True)


_oracle_memo = {}


def load_oracle(base, state, mode):
    """JSON-normalised expected answers (memoised in the worker); state = (text, disk, nocode)."""
    text, disk, nocode = state
    k = (base, text, disk, nocode)
    if k not in _oracle_memo:
        if len(_oracle_memo) > 400:
            _oracle_memo.clear()
        try:
            with open(oracle_file(base, text, None, disk, nocode)) as f:
                _oracle_memo[k] = json.load(f)
        except FileNotFoundError:
            _oracle_memo[k] = None
    d = _oracle_memo[k]
    return None if d is None else d.get(mode)


def jsonify(x):
    return json.loads(json.dumps(x))


# ---------------------------------------------------------------------------------------------
# history worker
# ---------------------------------------------------------------------------------------------

def _init():
    boot.boot()
    copy_warm(warm_dir() if os.path.isdir(warm_dir()) else None)
    install_clock()
    boot.environment()


def task_sequence(task):
    """The ordered list of (mode, base, events) a shard task replays."""
    hs = plan_histories([tuple(p) for p in task['plan']],
                        [tuple(p) for p in task.get('exclude', ())])
    mine = shard_histories(hs, task['seed'], task['shard'], task['nshards'])
    return [(mode, base, events) for mode in task['modes'] for base, events, _ in mine
            if mode == 'path' or not (model.path_only(events) or base in model.SIBLINGS)]


def _work(task):
    ed = Editor('w')
    seq = task_sequence(task)
    deadline = task.get('deadline')
    out = {'histories': 0, 'steps': 0, 'evals': 0, 'judged': 0, 'diverged': [], 'mism': [],
           'hits': {}, 'vectors': [], 'no_oracle': 0, 'keystroke_exc': [], 'not_run': 0,
           'modes': {}, 'jedi_tree_wrong': 0}
    vectors = set()
    for idx, (mode, base, events) in enumerate(seq):
        if deadline and _real_time.time() > deadline:
            out['not_run'] = len(seq) - idx
            break

        def judge(i, state, answers, mode=mode, base=base):
            exp = load_oracle(base, state, mode)
            if exp is None:
                out['no_oracle'] += 1
                return []
            out['judged'] += 1
            return compare(exp, jsonify(answers))

        r = run_history(ed, mode, base, events, judge)
        out['histories'] += 1
        out['modes'][mode] = out['modes'].get(mode, 0) + 1
        out['evals'] += r['evals']
        for i, st in enumerate(r['steps']):
            out['steps'] += 1
            out['hits'][st['event']] = out['hits'].get(st['event'], 0) + 1
            vectors.add(st['sha'][:10] + sha(json.dumps(st['answers'], sort_keys=True))[:10])
            if st.get('jedi_tree_wrong'):
                out['jedi_tree_wrong'] += 1
            if st['diverged']:
                out['diverged'].append({'history': hist_id(base, mode, events), 'step': i,
                                        'why': st['diverged'], 'seq': idx})
            for ks in st['keystroke_exc']:
                out['keystroke_exc'].append({'history': hist_id(base, mode, events), 'step': i,
                                             'seq': idx, 'text': ks['text'], 'exc': ks['exc']})
            if st.get('mismatches'):
                by_method = {}
                for k, e, o in st['mismatches']:
                    by_method.setdefault(site_of(k, o), []).append((k, e, o))
                for site, lst in sorted(by_method.items()):
                    k, e, o = lst[0]
                    out['mism'].append({'site': site, 'seq': idx, 'mode': mode, 'base': base,
                                        'events': list(events), 'step': i, 'key': k,
                                        'expected': e, 'observed': o,
                                        'other_keys': [x[0] for x in lst[1:]][:20]})
    out['vectors'] = sorted(vectors)
    shutil.rmtree(ed.top, ignore_errors=True)
    return out


# ---------------------------------------------------------------------------------------------
# parent
# ---------------------------------------------------------------------------------------------

def _run_oracles(ctx, wanted, label, batch):
    """wanted: list of oracle jobs; runs them NPROC at a time.  -> number missing."""
    wanted = [w for w in wanted
              if not os.path.exists(job_file(w))]
    if batch > 1:
        plain = [w for w in wanted if not (w.get('strict') or w.get('solo'))]
        wanted = [w for w in wanted if w.get('strict') or w.get('solo')]
        for grp in _batches(plain, batch):
            head = dict(grp[0])
            head['more'] = [{k: w[k] for k in ('base', 'text', 'disk', 'nocode') if k in w}
                            for w in grp[1:]]
            wanted.append(head)
    if not wanted:
        return 0
    pres = pool.run(wanted, 'jv.props.c08:_oracle_task', init=None, seed=ctx.seed,
                    deadline=ctx.deadline, tag='c08o')
    ctx.absorb(pres, label)
    for i in pres.crashed:
        ctx.harness_error('%s: oracle driver died on %r' % (label, wanted[i]['text'][:80]))
    return sum(1 + len(wanted[i].get('more', ())) for i in pres.skipped)


def state_job(base, state):
    """Oracle job fields for a buffer state (text, disk, nocode)."""
    text, disk, nocode = state
    job = {'base': base, 'text': text}
    if disk != model.BASES[base]:
        job['disk'] = disk
    if nocode:
        job['nocode'] = True
    return job


def modes_of(base):
    """Bases that live in a project with sibling modules are explored in path mode only (a
    path-less buffer has no project files around it)."""
    return ('path',) if base in model.SIBLINGS else MODES


def oracle_job(base, state, warm):
    """The oracle job of a buffer state.  Default: one interpreter answers mode none, then mode
    path (and may serve further texts, see oracle_batch).  For bases whose answers depend on
    other project files the interpreter is single-purpose (`solo`: one state, path mode), so
    that nothing it analysed before can reach into the cross-file search."""
    job = dict(state_job(base, state), warm=warm)
    if base in model.SIBLINGS:
        job.update(modes=['path'], solo=True)
    else:
        job['modes'] = list(reversed(MODES))
    return job


def _strict(ctx, base, state, mode, perturb):
    """A fresh interpreter with an EMPTY cache directory for exactly one (mode, buffer state)."""
    if isinstance(state, str):
        state = (state, model.BASES[base], False)
    job = dict(state_job(base, state), modes=[mode], perturb=perturb,
               strict='%s-%d' % (mode, perturb))
    out = job_file(job)
    if not os.path.exists(out):
        err = spawn_oracle(job, out)
        if err:
            ctx.harness_error(err)
            return None
    with open(out) as f:
        return json.load(f)[mode]


def run(ctx):
    levels = PLANS[os.environ.get('JV_C08_PLAN') or ctx.tier]
    batch = oracle_batch(ctx.tier)
    t_start = _real_time.time()
    warm = warm_dir()
    env = dict(os.environ)
    env['JV_SCRATCH'] = boot.scratch_root()
    p = subprocess.run([sys.executable, '-B', '-m', 'jv.props.c08', 'warm', warm], env=env,
                       capture_output=True, text=True, timeout=900)
    if p.returncode != 0:
        ctx.harness_error('warm-up process failed: ' + (p.stderr or '')[-1500:])
        return
    # self-check of the oracle on the base texts: one mode per process, empty cache directory
    checks = [{'base': b, 'text': model.BASES[b], 'modes': [m], 'strict': '%s-0' % m}
              for b in model.BASES for m in modes_of(b)]
    base_jobs = [oracle_job(b, (model.BASES[b], model.BASES[b], False), warm)
                 for b in model.BASES]
    seen_texts = {(b, model.BASES[b], model.BASES[b], False) for b in model.BASES}
    n_oracles = 1 + len(checks) + len(base_jobs)
    tot = {'histories': 0, 'steps': 0, 'evals': 0, 'judged': 0, 'no_oracle': 0, 'not_run': 0,
           'jedi_tree_wrong': 0}
    hits, modes = {}, {}
    vectors = set()
    diverged, ksexc = [], []
    unstable = 0
    n_ksexc = 0
    vstate = {'strict': set(), 'reported': {}, 'overridden': 0, 'not_reconfirmed': 0}
    done_levels = []
    exhaustive = True
    samples = []
    t_oracle = 0.0
    exclude = []
    for li, (lname, entries) in enumerate(levels):
        if ctx.time_left() < 40:
            exhaustive = False
            ctx.note('level %s not started (time cap)' % lname)
            continue
        hs = plan_histories(entries, exclude)
        # ---- oracle phase: every distinct (base, text) this level reaches -----------------------
        jobs = []
        for base, events, ts in hs:
            for st in model.history_states(base, events)[1:]:
                if (base,) + st not in seen_texts:
                    seen_texts.add((base,) + st)
                    jobs.append(oracle_job(base, st, warm))
        t1 = _real_time.time()
        extra = []
        if li == 0:
            # cross-check of a batched oracle: the text served LAST by each interpreter of the
            # first level is also answered by single-purpose fresh interpreters
            for grp in _batches([j for j in base_jobs + jobs if not j.get('solo')],
                                batch) if batch > 1 else []:
                if len(grp) > 1:
                    checks += [{'base': grp[-1]['base'], 'text': grp[-1]['text'], 'modes': [m],
                                'strict': '%s-0' % m} for m in MODES]
            uniq = {}
            for c in checks:            # a batch may end in a base text: one job per file
                uniq.setdefault(job_file(c), c)
            checks[:] = list(uniq.values())
            extra = checks + base_jobs
            n_oracles += len(checks) - 2 * len(model.BASES)
        n_oracles += len(jobs)
        missing = _run_oracles(ctx, extra + jobs, 'oracles of level ' + lname, batch)
        t_oracle += _real_time.time() - t1
        if li == 0:
            vstate['overridden'] += _self_check(ctx, checks)
        # ---- history phase ----------------------------------------------------------------------
        n = pool.NPROC
        tasks = [{'plan': [list(p) for p in entries], 'exclude': [list(p) for p in exclude],
                  'seed': ctx.seed, 'shard': k, 'nshards': n, 'modes': list(MODES),
                  'deadline': ctx.deadline - 15} for k in range(n)]
        pres = pool.run(tasks, 'jv.props.c08:_work', init='jv.props.c08:_init', seed=ctx.seed,
                        deadline=ctx.deadline, tag='c08')
        ctx.absorb(pres, 'histories of level ' + lname)
        mism = []
        lv = dict.fromkeys(tot, 0)
        for i, t in enumerate(tasks):
            if i in pres.crashed:
                ctx.violation('WorkerDied(exit=%s)' % pres.crashed[i],
                              '%s:shard:%d/%d' % (lname, i, n), {'task': t}, {'task': t})
                continue
            r = pres.results.get(i)
            if r is None:
                lv['not_run'] += len(task_sequence(t))
                continue
            for k in lv:
                lv[k] += r.get(k, 0)
            for k, v in r['hits'].items():
                hits[k] = hits.get(k, 0) + v
            for k, v in r['modes'].items():
                modes[k] = modes.get(k, 0) + v
            vectors.update(r['vectors'])
            for d in r['diverged']:
                diverged.append(d)
            for m in r['mism']:
                m['task'] = t
                mism.append(m)
            for m in r['keystroke_exc']:
                m['task'] = t
                ksexc.append(m)
        for k in tot:
            tot[k] += lv[k]
        unstable += _verdicts(ctx, mism, vstate)
        complete = not (missing or lv['not_run'] or lv['no_oracle'] or pres.skipped
                        or pres.crashed)
        if complete:
            done_levels.append('%s: %d event sequences, %d histories over the modes, %d steps, '
                               '%d new buffer states' % (lname, len(hs), lv['histories'],
                                                         lv['steps'], len(jobs)))
        else:
            exhaustive = False
            ctx.note('level %s incomplete: %d oracle processes and %d histories not run (time '
                     'cap), %d steps without oracle' % (lname, missing, lv['not_run'],
                                                       lv['no_oracle']))
        if hs:
            b, ev, ts = hs[len(hs) // 2]
            samples.append({'level': lname, 'history': hist_id(b, 'path', ev),
                            'final_text': ts[-1]})
        exclude += entries
        _keystroke_verdicts(ctx, ksexc)
        n_ksexc += len(ksexc)
        ksexc = []
        if findings.classify(findings.load(ID), ctx.violations)[0]:
            if li + 1 < len(levels):
                exhaustive = False
                ctx.note('stopped after level %s: it produced violations (shortest '
                         'counterexamples first); deeper levels not explored' % lname)
            break
    disabled = sorted({e for _, entries in levels for p in entries for e in ALPHABETS[p[1]]
                       if e not in hits})
    if disabled:
        ctx.note('events never enabled: %s' % disabled)
    ctx.coverage.update({
        'states': tot['histories'], 'transitions': tot['steps'], 'evaluations': tot['evals'],
        'distinct_nontrivial': len(vectors),
        'rule': 'state = one history (event sequence x mode x base) replayed from the base text;'
                ' transition = one event followed by a new Script and the whole battery; '
                'evaluations = query calls; distinct_nontrivial = distinct (text, canonical '
                'result vector) pairs observed after a step',
        'histories_per_mode': modes, 'steps_judged': tot['judged'],
        'distinct_texts': len(seen_texts), 'oracle_jobs': n_oracles,
        'texts_per_oracle_interpreter': batch,
        'oracle_cross_checks_by_single_purpose_interpreters': len(checks),
        'parso_diff_parser_divergences': len(diverged),
        'parso_divergence_samples': diverged[:10],
        'steps_where_only_jedis_tree_was_wrong(judged)': tot['jedi_tree_wrong'],
        'fresh_processes_disagreeing_with_each_other': unstable,
        'shared_oracle_contradicted_by_single_purpose_interpreters': vstate['overridden'],
        'mismatches_not_reconfirmed(not reported)': vstate['not_reconfirmed'],
        'keystroke_exceptions_seen': n_ksexc,
        'event_hits': hits, 'events_never_enabled': disabled,
        'levels_completed': done_levels,
        'plan': [[n_, [list(p) for p in e]] for n_, e in levels],
        'alphabets': {k: list(ALPHABETS[k]) for k in sorted({p[1] for _, e in levels
                                                             for p in e})},
        'exhaustive': exhaustive,
        'oracle_wall_s': round(t_oracle, 1), 'total_wall_s': round(_real_time.time() - t_start),
        'samples': samples,
    })
    if vstate['overridden'] and not ctx.violations:
        ctx.harness_error('the shared oracle interpreter was contradicted %d time(s) by '
                          'single-purpose fresh interpreters although no history shows any '
                          'dependence: the oracle itself is broken' % vstate['overridden'])
    ctx.assumptions += ASSUMPTIONS


def _self_check(ctx, checks):
    """-> number of cross-checked texts on which the shared oracle interpreter is contradicted by
    single-purpose fresh interpreters (judged at the end of the run: see `overridden`)."""
    bad = 0
    for c in checks:
        try:
            with open(oracle_file(c['base'], c['text'], c['strict'])) as f:
                strict = json.load(f)[c['modes'][0]]
            with open(oracle_file(c['base'], c['text'])) as f:
                fast = json.load(f)[c['modes'][0]]
        except (OSError, KeyError):
            continue
        d = compare(strict, fast)
        if d:
            again = _strict(ctx, c['base'], c['text'], c['modes'][0], 1) or {}
            d = [x for x in d if again.get(x[0]) == x[1]]
        if d:
            bad += 1
            ctx.note('oracle cross-check: the shared oracle interpreter differs from two '
                     'single-purpose fresh interpreters on base %s mode %s at %s'
                     % (c['base'], c['modes'][0], d[0][0]))
    return bad


def _pre_of(m):
    t = m['task']
    return {'plan': t['plan'], 'exclude': t['exclude'], 'seed': t['seed'], 'shard': t['shard'],
            'nshards': t['nshards'], 'modes': t['modes'], 'upto': m['seq']}


MAX_STRICT_STATES = 12      # buffer states re-judged by single-purpose interpreters per run
MAX_PER_SITE = 2            # violations reported per failure site


def _verdicts(ctx, mism, vs):
    """Turn a level's mismatches into violations; -> number set aside as oracle-unstable.
    Every reported violation is confirmed by two single-purpose fresh interpreters (one per
    (mode, buffer state), empty cache directory, the second with a shifted heap).  If those
    agree with the history's answer, the shared oracle interpreter (which answers mode none and
    then mode path, in the quick tier for several texts) was itself influenced by what it had
    analysed before: the step holds, the event is counted in `overridden` and judged at the
    end of the run."""
    mism.sort(key=lambda m: (len(m['events']), m['step'], m['site'], m['seq'],
                             m['task']['shard']))
    unstable = 0
    for m in mism:
        hid = hist_id(m['base'], m['mode'], m['events'])
        input_id = '%s#%d' % (hid, m['step'])
        state = model.history_states(m['base'], m['events'])[m['step']]
        skey = (m['base'], m['mode']) + state
        if vs['reported'].get(m['site'], 0) >= MAX_PER_SITE or ctx.time_left() < 30 or (
                skey not in vs['strict'] and len(vs['strict']) >= MAX_STRICT_STATES):
            vs['not_reconfirmed'] += 1
            continue
        vs['strict'].add(skey)
        a = _strict(ctx, m['base'], state, m['mode'], 0)
        b = _strict(ctx, m['base'], state, m['mode'], 1)
        if a is None or b is None:
            continue
        ea, eb = a.get(m['key'], '<not asked>'), b.get(m['key'], '<not asked>')
        if ea != eb:
            unstable += 1
            ctx.note('fresh processes disagree with each other at %s %s (not judged)'
                     % (input_id, m['key']))
            continue
        if not compare({m['key']: ea}, {m['key']: m['observed']}):
            vs['overridden'] += 1
            if vs['overridden'] <= 5:
                ctx.note('shared oracle interpreter contradicted by two single-purpose fresh '
                         'interpreters at %s %s; the history agrees with them (step holds)'
                         % (input_id, m['key']))
            continue
        case = {'mode': m['mode'], 'base': m['base'], 'events': m['events'], 'step': m['step'],
                'key': m['key']}
        if vs['reported'].get(m['site']) or not _reproduces_alone(case, m['site']):
            case['pre_task'] = _pre_of(m)       # shrinking is tried for the first of a site
        vs['reported'][m['site']] = vs['reported'].get(m['site'], 0) + 1
        ctx.violation(m['site'], input_id,
                      {'history': hid, 'step': m['step'], 'query': m['key'], 'text': state[0],
                       'on_disk_differs_from_base': state[1] != model.BASES[m['base']],
                       'script_without_code': state[2],
                       'expected(fresh process)': ea,
                       'observed(after history)': m['observed'],
                       'other_queries_differing': m['other_keys'],
                       'oracle': 'two single-purpose fresh interpreters (empty cache directory, '
                                 'second with a shifted heap) give the expected value',
                       'needs_preceding_histories_of_its_worker': 'pre_task' in case}, case)
    return unstable


def _keystroke_verdicts(ctx, ksexc):
    """Exceptions while typing: judged lazily against a fresh process for that keystroke text."""
    for m in ksexc[:20]:
        base, mode, evs = m['history'].split(':')
        job = {'base': base, 'text': m['text'], 'modes': [mode], 'cursor': True,
               'strict': 'ks-' + mode}
        out = oracle_file(base, m['text'], job['strict'])
        if not os.path.exists(out):
            err = spawn_oracle(job, out)
            if err:
                ctx.harness_error(err)
                continue
        with open(out) as f:
            exp = json.load(f)[mode]
        for k, o in m['exc'].items():
            e = exp.get(k)
            if not (isinstance(e, dict) and e.get('exc') == o.get('exc')):
                ctx.violation('%s(history only)/typing' % o['exc'],
                              '%s#%d~%d' % (m['history'], m['step'], len(m['text'])),
                              {'history': m['history'], 'keystroke_text': m['text'], 'query': k,
                               'expected(fresh process)': e, 'observed(after history)': o},
                              {'mode': mode, 'base': base, 'events': evs.split('/'),
                               'step': m['step'], 'key': k, 'keystroke': m['text'],
                               'pre_task': _pre_of(m)})


ASSUMPTIONS = [
    'configuration `stubs` (vendored typeshed); jedi.cache.time and parso.cache.time are a '
    'virtual clock starting at 2e9 s; default 0 s between Scripts, wait4/wait601 advance it; '
    'at most one clock event per history',
    'mode path: every history gets a directory and file never used before in the process; '
    'the file on disk holds the base text (mtime owned) while the buffer holds the edited '
    'text; the project is that directory.  mode none: path=None, one shared slot per '
    'process; per level a freshly forked worker replays its shard of histories back to back, '
    'path mode first, so its path-less histories form one long history',
    'oracle: a fresh interpreter answers, for one (base, text), mode none then mode path; in '
    'the quick tier it then serves up to 11 further texts, each under a never-used path with '
    'the path-less slot emptied in between (texts_per_oracle_interpreter; thorough: 1).  Its '
    'cache directory is a private copy of the stub pickles written by a warm-up process '
    '(the buffer itself is never pickled).  A mismatch is re-judged against two '
    'single-purpose fresh interpreters (one per (mode, buffer state), empty cache directory, '
    'the second with a shifted heap) and reported only if they contradict the history; the base '
    'texts and the text served last by every batched interpreter of the first level are '
    'cross-checked that way on every run.  If the single-purpose interpreters contradict the '
    'shared oracle interpreter but agree with the history, the step holds; such contradictions '
    'are a harness error only when the run found no history dependence at all',
    'proviso: after each step the tree jedi works on is compared (get_code(), structural dump, '
    'parent links) with a from-scratch parse; if it differs AND a shadow parso cache entry fed '
    'the same sequence of texts without jedi differs as well, the step is counted and listed '
    'as parso diff-parser divergence and not judged; if only jedi\'s tree is wrong the step is '
    'judged',
    'keystrokes of the typing event build a Script each and ask complete+get_signatures at '
    'the cursor; they are judged only if they raise (then against a fresh process)',
    'answers are compared as canonical JSON: infer/goto/help/get_references/get_signatures '
    'as sorted lists (set semantics), completions and get_names in order; completions of '
    'names defined outside the buffer are compared by name and type only',
    'every history first opens the buffer with the base text (step 0: Script + battery, judged '
    'like any step), so a history of depth d contains d incremental re-parses',
    'base `gen` (a plain function and a generator, both called and iterated at module level) '
    'is explored with the 5 yield-tail events + undo to depth 2 (thorough: 3): edits that touch '
    'only the last body line, for which parso keeps the funcdef node object',
    'disk events (path mode only): `save` writes the buffer to its file (file and directory '
    'mtime +1 s per save, owned) and re-analyses it; `reload` builds Script(path=...) WITHOUT '
    'code, the buffer becomes what is on disk.  The oracle for such a state has the same file '
    'content on disk and builds its Script the same way.  Explored on `funcs` with rename_def, '
    'change_params, paste, undo to depth 2 (thorough 3)',
    'base `dyn` lives in a project whose sibling module client.py (on disk) holds the only '
    'call of a buffer function (dynamic parameter search across files); explored with '
    'add_list_loop, rename_def, paste, undo to depth 2 (thorough 3), in path mode only; the '
    'oracle of each of its states is a single-purpose fresh interpreter (path mode, one state)',
    'a reported violation is always confirmed by two single-purpose fresh interpreters (at most '
    '2 per failure site and 12 buffer states per run; the rest is counted as not re-confirmed)',
    'quick tier: all histories of depth <= 2 over the 13-event alphabet on 3 bases x 2 modes '
    'and all depth-3 histories over the 5-event core alphabet on base `funcs`; thorough: '
    'depth 1 over all 28 events and depth <= 3 over 13 events on all bases, depth 2 over 28 '
    'events on `mixed`, depth 4 over the 5-event core alphabet on `funcs`',
]


def _reproduces_alone(case, site):
    """Does the single history reproduce the mismatch in a fresh process of its own?"""
    d = os.path.join(boot.scratch_root(), 'c08-shrink')
    os.makedirs(d, exist_ok=True)
    p = os.path.join(d, sha(json.dumps(case, sort_keys=True)) + '.json')
    with open(p, 'w') as f:
        json.dump({'property': ID, 'site': site, 'input': '', 'detail': {}, 'case': case}, f)
    env = dict(os.environ)
    env.pop('JV_SCRATCH', None)
    try:
        r = subprocess.run([sys.executable, '-B', '-m', 'jv.runner', ID, '--replay', p,
                            '--quiet'], env=env, capture_output=True, text=True, timeout=900)
    except subprocess.TimeoutExpired:
        return False
    return r.returncode == 1


def replay(case):
    """Re-execute one recorded case: the preceding histories of its worker (if it needed them),
    then the history itself up to the failing step; oracle = a fresh interpreter for that text."""
    if 'task' in case:          # a worker died: re-run the shard
        _init()
        try:
            _work(case['task'])
        except BaseException as e:
            return [(canon.exc_site(e), 'shard', canon.short_tb(e))]
        return []
    _init()
    ed = Editor('r')
    if case.get('pre_task'):
        for mode, base, events in task_sequence(case['pre_task'])[:case['pre_task']['upto']]:
            run_history(ed, mode, base, tuple(events))
    mode, base, events, step = case['mode'], case['base'], case['events'], case['step']
    r = run_history(ed, mode, base, tuple(events[:step]))
    st = r['steps'][step]
    out = []
    hid = hist_id(base, mode, events)
    if 'keystroke' in case:
        job = {'base': base, 'text': case['keystroke'], 'modes': [mode], 'cursor': True,
               'strict': 'ks-' + mode}
        path = oracle_file(base, job['text'], job['strict'])
        err = spawn_oracle(job, path)
        if err:
            raise RuntimeError(err)
        with open(path) as f:
            exp = json.load(f)[mode]
        for ks in st['keystroke_exc']:
            if ks['text'] != case['keystroke']:
                continue
            for k, o in ks['exc'].items():
                e = exp.get(k)
                if not (isinstance(e, dict) and e.get('exc') == o.get('exc')):
                    out.append(('%s(history only)/typing' % o['exc'], hid, {'query': k,
                                                                             'observed': o}))
        return out
    if st['diverged']:
        return []
    job = dict(state_job(base, model.history_states(base, events)[step]), modes=[mode],
               strict='%s-0' % mode)
    path = job_file(job)
    err = spawn_oracle(job, path)
    if err:
        raise RuntimeError(err)
    with open(path) as f:
        exp = json.load(f)[mode]
    for k, e, o in compare(exp, jsonify(st['answers'])):
        out.append((site_of(k, o), '%s#%d' % (hid, step),
                    {'query': k, 'expected(fresh process)': e, 'observed(after history)': o}))
    shutil.rmtree(ed.top, ignore_errors=True)
    return out


if __name__ == '__main__':
    if len(sys.argv) == 4 and sys.argv[1] == 'oracle':
        oracle_main(sys.argv[2], sys.argv[3])
    elif len(sys.argv) == 3 and sys.argv[1] == 'warm':
        warm_main(sys.argv[2])
    else:
        sys.exit('usage: python -m jv.props.c08 oracle <job.json> <out.json>')
