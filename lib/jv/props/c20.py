"""C20 — Project settings round-trip and shape sys.path as documented.

Engine E1 (smallscope) + a small reference model.  The full product of `Project` constructor
arguments over small domains

  path            {str, Path} x {absolute, relative, absolute with trailing slash, unicode}
  sys_path        None, [], [a], [a,b], [b,a], [a,a], [a,a/sub]   (lists as str and as Path)
  added_sys_path  [], [a], [a,b], [b,a], [a,a], [a,a/sub]         (lists as str and as Path)
  smart_sys_path, load_unsafe_extensions   {False, True}
  environment_path  None, str, Path

is (1) saved and loaded back (from the same and from another working directory, also through
`get_default_project`), and (2) combined with every script location — inside the project at
depth 0..4 with every with/without-`__init__.py` pattern on the way, outside it (also in a
sibling whose name extends the project's), and no path at all — to compare the composed
module search path with a reference model of exactly the documented clauses.  (3) Public
consequence: `import name` in the script resolves to the module CPython's own
`importlib.machinery.PathFinder` finds on that composed path (first entry wins).

(4) Histories: ONE explicitly built Project shared by two (all ordered pairs of the 36 script
locations) or three scripts: every later script must see what a freshly built equal Project
gives it, queries must leave the Project's settings untouched, save()/load() must not change.

(5) Default-project discovery below project markers.  (6) Histories over environments in one
fresh process: queries through Interpreter (live sys.path) and through Script with a
SameEnvironment, interleaved with changes of the host's sys.path; every query is judged
against the model fed with that environment's own current get_sys_path().

`a` = <project>/n1 and `a/sub` = <project>/n1/n2 lie on some of the script locations' ancestor
chains, `b` is a directory outside the project.
"""
import importlib
import importlib.machinery
import itertools
import json
import os
import sys
import subprocess
import shutil
from pathlib import Path

from .. import boot, canon, pool

ID = 'C20'
BUDGET = {'quick': 900, 'thorough': 2400}

DEPTH = 4
PATH_FORMS = [('str', 'abs'), ('str', 'rel'), ('str', 'slash'), ('str', 'uni'),
              ('Path', 'abs'), ('Path', 'rel'), ('Path', 'slash'), ('Path', 'uni')]
LISTS = [['a'], ['a', 'b'], ['b', 'a'], ['a', 'a'], ['a', 'a/sub']]
# lists that contain the project directory P itself: at every index, twice, among others
P_LISTS = [['P'], ['P', 'b'], ['b', 'P'], ['b', 'a', 'P'], ['b', 'P', 'P']]
SYS_PATHS = [None, ['str', []]] + [[k, l] for l in LISTS + P_LISTS for k in ('str', 'Path')]
ADDED = [['str', []]] + [[k, l] for l in LISTS for k in ('str', 'Path')] + [['str', ['P']],
                                                                            ['Path', ['b', 'P']]]
ENV_PATHS = [None, 'str', 'Path']
BINDINGS = {'inside': ('n1', 'n1/n2'), 'package': ('p1', 'p1/n2'), 'outside': ('../liba', '../liba/sub')}
MODNAMES = ['dupall', 'dupsome']
UNI = 'prøjé'


# ------------------------------------------------------------------ reference model

def _model(project_dir, sys_path, added, smart, env_sys_path, script, add_parent_paths=True,
           add_init_paths=False, dedupe=True):
    """The documented composition.  All arguments are strings (lists of strings).

    [project dir, if smart] + (given sys_path, else the environment's without '') +
    added_sys_path + (if smart: the script's ancestor folders strictly inside the project,
    nearest last, folders holding an __init__.py skipped unless add_init_paths) — first
    occurrence of every entry kept.  -> [(entry, segment)]
    """
    out = [(project_dir, 'project-dir')] if smart else []
    base = [p for p in env_sys_path if p != ''] if sys_path is None else sys_path
    out += [(p, 'base') for p in base]
    out += [(p, 'added') for p in added]
    if smart and script is not None and add_parent_paths:
        anc = []
        d = os.path.dirname(script)
        while d.startswith(project_dir + os.sep):
            if add_init_paths or not os.path.isfile(os.path.join(d, '__init__.py')):
                anc.append((d, 'ancestors'))
            d = os.path.dirname(d)
        out += anc[::-1]
    seen = set()
    return [(p, s) for p, s in out if not dedupe or not (p in seen or seen.add(p))]


# ------------------------------------------------------------------ world on disk

_world = {}


def _nodes(depth):
    """All inside locations: tuples of folder names, p<i> = package, n<i> = plain folder."""
    out = [()]
    for d in range(1, depth + 1):
        for bits in itertools.product('np', repeat=d):
            out.append(tuple('%s%d' % (b, i + 1) for i, b in enumerate(bits)))
    return out


def _build_world():
    if _world:
        return _world
    base = os.path.join(boot.scratch_root(), 'c20-%d' % os.getpid())
    for pname in ('proj', UNI):
        for node in _nodes(DEPTH):
            d = os.path.join(base, pname, *node)
            os.makedirs(d, exist_ok=True)
            if node and node[-1].startswith('p'):
                open(os.path.join(d, '__init__.py'), 'w').close()
            rel = '/'.join(node) or '.'
            with open(os.path.join(d, 'dupall.py'), 'w') as f:
                f.write('where = %r\n' % rel)
            if len(node) in (1, 2, 3):     # not in the project root, not at the leaves
                with open(os.path.join(d, 'dupsome.py'), 'w') as f:
                    f.write('where = %r\n' % rel)
    for rel in ('libb', 'liba', 'liba/sub', 'out', 'out/o1', 'out/o1/o2', 'projx', 'projx/n1',
                'elsewhere'):
        d = os.path.join(base, rel)
        os.makedirs(d, exist_ok=True)
        if rel.startswith('lib'):
            for m in MODNAMES:
                with open(os.path.join(d, m + '.py'), 'w') as f:
                    f.write('where = %r\n' % rel)
    _world.update(base=base)
    return _world


def _locations(pdir, depth):
    """[(label, script path or None)]"""
    base = os.path.dirname(pdir)
    locs = [('in:' + ('/'.join(n) or '.'), os.path.join(pdir, *(n + ('s.py',))))
            for n in _nodes(depth)]
    locs += [('out:' + r, os.path.join(base, r, 's.py'))
             for r in ('out', 'out/o1/o2', 'projx', 'projx/n1')]
    locs.append(('none', None))
    return locs


def _entries(kind_list, pdir, binding):
    """['str'|'Path', ['a', 'b', ...]] -> (constructor value, expected strings)"""
    if kind_list is None:
        return None, None
    kind, names = kind_list
    a, asub = BINDINGS[binding]
    base = os.path.dirname(pdir)
    full = {'a': os.path.normpath(os.path.join(pdir, a)),
            'a/sub': os.path.normpath(os.path.join(pdir, asub)),
            'b': os.path.join(base, 'libb'), 'P': pdir}
    vals = [full[n] for n in names]
    if kind == 'Path':
        return [Path(v) for v in vals], vals
    return list(vals), vals


def _project_path(form, base):
    kind, shape = form
    pname = UNI if shape == 'uni' else 'proj'
    pdir = os.path.join(base, pname)
    s = {'abs': pdir, 'uni': pdir, 'rel': pname, 'slash': pdir + os.sep}[shape]
    return (Path(s) if kind == 'Path' else s), pdir


def _fs(v):
    return None if v is None else os.fspath(v)


def _settings(p):
    # snapshots, not references: a query that mutates the Project's lists must be visible
    return {'path': str(Path(p.path).absolute()),
            'sys_path': None if p.sys_path is None else list(p.sys_path),
            'added_sys_path': list(p.added_sys_path), 'smart_sys_path': p.smart_sys_path,
            'load_unsafe_extensions': p.load_unsafe_extensions,
            'environment_path': _fs(p._environment_path)}


class _Out:
    def __init__(self):
        self.fails = []
        self.n = {'states': 0, 'evals': 0, 'roundtrips': 0, 'compositions': 0, 'imports': 0,
                  'model_steps': 0}
        self.classes = set()
        self.hits = {}

    def fail(self, site, what, detail):
        self.fails.append({'site': site, 'what': what, 'detail': detail})

    def hit(self, k):
        self.hits[k] = self.hits.get(k, 0) + 1

    def result(self):
        return {'fails': self.fails, 'n': self.n, 'classes': sorted(map(repr, self.classes)),
                'hits': self.hits}


def _guard(out, what, fn):
    try:
        return True, fn()
    except BaseException as e:
        if isinstance(e, (KeyboardInterrupt, SystemExit)):
            raise
        out.fail(canon.exc_site(e), what, {'traceback': canon.short_tb(e)})
        return False, None


# ------------------------------------------------------------------ the three explorations

def _roundtrip(jedi, env, out, cfg, base, only=None):
    """cfg: form, sys_path, added, smart, unsafe, env_path, binding"""
    pval, pdir = _project_path(cfg['form'], base)
    sp, sp_exp = _entries(cfg['sys_path'], pdir, cfg['binding'])
    ad, ad_exp = _entries(cfg['added'], pdir, cfg['binding'])
    ep = {None: None, 'str': '/venv', 'Path': Path('/venv')}[cfg['env_path']]
    kw = dict(sys_path=sp, added_sys_path=ad, smart_sys_path=cfg['smart'],
              load_unsafe_extensions=cfg['unsafe'], environment_path=ep)
    want = {'path': pdir, 'sys_path': sp_exp, 'added_sys_path': ad_exp,
            'smart_sys_path': cfg['smart'], 'load_unsafe_extensions': cfg['unsafe'],
            'environment_path': _fs(ep)}
    for step in ('same-cwd', 'other-cwd', 'default-project'):
        what = ['roundtrip', step]
        if only is not None and only != what:
            continue
        out.n['evals'] += 1
        out.n['roundtrips'] += 1
        os.chdir(base)
        try:
            ok, project = _guard(out, what, lambda: jedi.Project(pval, **kw))
            if not ok:
                continue
            ok, _ = _guard(out, what, project.save)
            if not ok:
                continue
            if step == 'same-cwd':
                load = lambda: jedi.Project.load(pval)
            elif step == 'other-cwd':
                os.chdir(os.path.join(base, 'elsewhere'))
                load = lambda: jedi.Project.load(Path(pdir) if cfg['form'][0] == 'Path' else pdir)
            else:
                os.chdir(os.path.join(base, 'elsewhere'))
                load = lambda: jedi.get_default_project(os.path.join(pdir, 'n1', 'p2', 's.py'))
            ok, loaded = _guard(out, what, load)
            if not ok:
                continue
            ok, got = _guard(out, what, lambda: _settings(loaded))
            if not ok:
                continue
            out.classes.add(('roundtrip', step, cfg['form'][1], cfg['env_path'], sp is None))
            for k in want:
                if got[k] != want[k]:
                    out.fail('roundtrip-differs@' + k, what,
                             {'constructed_with': {'path': repr(pval), **{a: repr(b) for a, b in kw.items()}},
                              'field': k, 'expected': want[k], 'loaded': got[k],
                              'cwd_at_load': os.getcwd()})
        finally:
            os.chdir(base)


VARIANTS = [{}, {'add_init_paths': True}, {'add_parent_paths': False}]


def _composition(jedi, env, out, cfg, base, depth, only=None):
    pval, pdir = _project_path(cfg['form'], base)
    sp, sp_exp = _entries(cfg['sys_path'], pdir, cfg['binding'])
    ad, ad_exp = _entries(cfg['added'], pdir, cfg['binding'])
    env_sp = list(env.get_sys_path())
    os.chdir(base)
    for label, script_path in _locations(pdir, depth):
        out.n['states'] += 1
        for vi, variant in enumerate(VARIANTS):
            what = ['compose', label, variant]
            if only is not None and only != what:
                continue
            out.n['evals'] += 1
            out.n['compositions'] += 1

            def run():
                project = jedi.Project(pval, sys_path=sp, added_sys_path=ad,
                                       smart_sys_path=cfg['smart'],
                                       load_unsafe_extensions=cfg['unsafe'])
                script = jedi.Script('', path=script_path, environment=env, project=project)
                return list(script._inference_state.get_sys_path(**variant))
            ok, got = _guard(out, what, run)
            if not ok:
                continue
            model = _model(pdir, sp_exp, ad_exp, cfg['smart'], env_sp, script_path, **variant)
            out.n['model_steps'] += 1
            exp = [p for p, _ in model]
            segs = {s for _, s in model}
            raw = _model(pdir, sp_exp, ad_exp, cfg['smart'], env_sp, script_path, dedupe=False,
                         **variant)
            out.classes.add(('compose', cfg['smart'], sp is None, tuple(sorted(segs)), vi,
                             len(raw) - len(model),
                             sum(1 for _, s in model if s == 'ancestors')))
            for s in segs:
                out.hit('segment:' + s)
            if len(set(got)) != len(got):
                out.fail('sys-path-has-duplicates@get_sys_path', what,
                         {'project': repr(pval), 'sys_path': repr(sp), 'added': repr(ad),
                          'smart': cfg['smart'], 'script': script_path, 'composed': got})
            if got != exp:
                k = next((i for i, (x, y) in enumerate(zip(got, exp)) if x != y), min(len(got), len(exp)))
                seg = model[k][1] if k < len(model) else 'extra-entries'
                out.fail('sys-path-differs-from-documented-composition@' + seg, what,
                         {'project': repr(pval), 'sys_path': repr(sp), 'added': repr(ad),
                          'smart': cfg['smart'], 'script': script_path, 'composed': got,
                          'documented': exp, 'first_difference_at': k})


def _imports(jedi, env, out, cfg, base, only=None):
    pval, pdir = _project_path(cfg['form'], base)
    sp, sp_exp = _entries(cfg['sys_path'], pdir, cfg['binding'])
    ad, ad_exp = _entries(cfg['added'], pdir, cfg['binding'])
    os.chdir(base)
    locs = [('in:.', ()), ('in:n1', ('n1',)), ('in:n1/n2', ('n1', 'n2')), ('in:p1', ('p1',)),
            ('in:p1/n2', ('p1', 'n2')), ('in:n1/p2/n3', ('n1', 'p2', 'n3')),
            ('in:p1/p2/p3/n4', ('p1', 'p2', 'p3', 'n4'))]
    spots = [(l, os.path.join(pdir, *n)) for l, n in locs] + [('out:out', os.path.join(base, 'out'))]
    for label, d in spots:
        for name in MODNAMES:
            what = ['import', label, name]
            if only is not None and only not in (what, ['import-after-syspath-edit', label, name]):
                continue
            out.n['evals'] += 1
            out.n['imports'] += 1
            script_path = os.path.join(d, 'imp_%s.py' % name)

            def run():
                project = jedi.Project(pval, sys_path=sp, added_sys_path=ad,
                                       smart_sys_path=cfg['smart'])
                script = jedi.Script('import %s\n' % name, path=script_path, environment=env,
                                     project=project)
                composed = list(script._inference_state.get_sys_path(add_init_paths=True))
                res = sorted({str(n.module_path) for n in script.infer(1, 7 + len(name) - 1)
                              if n.type == 'module'})
                return composed, res
            ok, r = _guard(out, what, run)
            if not ok:
                continue
            composed, res = r
            importlib.invalidate_caches()
            spec = importlib.machinery.PathFinder.find_spec(name, composed)
            exp = [] if spec is None or not spec.origin else [spec.origin]
            rank = None
            if exp:
                rank = next(i for i, p in enumerate(composed)
                            if os.path.abspath(os.path.join(p, name + '.py')) == os.path.abspath(exp[0]))
            ncand = sum(1 for p in composed if os.path.isfile(os.path.join(p, name + '.py')))
            out.classes.add(('import', name, bool(exp), min(rank or 0, 3), min(ncand, 3)))
            if [os.path.abspath(p) for p in res] != [os.path.abspath(p) for p in exp]:
                out.fail('import-resolves-differently-from-PathFinder@infer', what,
                         {'project': repr(pval), 'sys_path': repr(sp), 'added': repr(ad),
                          'smart': cfg['smart'], 'script': script_path, 'composed_path': composed,
                          'jedi': res, 'PathFinder': exp})
            # the same import in a buffer that edits sys.path for itself (`sys.path.append(V)`,
            # honoured by jedi for the imports of that module only): resolving it must leave the
            # Script's effective path - the composition checked above - exactly as it was
            what2 = ['import-after-syspath-edit', label, name]
            if only is not None and only != what2:
                continue
            out.n['evals'] += 1
            vend = os.path.join(base, 'vendx')
            os.makedirs(vend, exist_ok=True)

            def run2():
                project = jedi.Project(pval, sys_path=sp, added_sys_path=ad,
                                       smart_sys_path=cfg['smart'])
                text = 'import sys\nsys.path.append(%r)\nimport %s\n%s\n' % (vend, name, name)
                script = jedi.Script(text, path=script_path, environment=env, project=project)
                before = list(script._inference_state.get_sys_path(add_init_paths=True))
                script.infer(3, 7 + len(name) - 1)
                script.goto(4, 0, follow_imports=True)
                after = list(script._inference_state.get_sys_path(add_init_paths=True))
                return before, after
            ok, r = _guard(out, what2, run2)
            if ok and (r[0] != r[1] or r[0] != composed):
                out.fail('effective-path-changed-by-resolving-an-import@get_sys_path', what2,
                         {'project': repr(pval), 'sys_path': repr(sp), 'added': repr(ad),
                          'smart': cfg['smart'], 'script': script_path, 'plain_buffer': composed,
                          'before_query': r[0], 'after_query': r[1]})


HIST_SYS = [None, ['str', ['b']]]
HIST_ADDED = [['str', []], ['str', ['a']], ['str', ['a', 'b']]]
PROBE_SPOTS = ['in:.', 'in:n1', 'in:n1/n2', 'in:p1', 'in:p1/n2', 'in:n1/p2/n3', 'in:p1/p2/p3/n4',
               'out:out']
TRIPLE_SPOTS = ['in:n1/n2', 'in:p1/n2', 'in:n1/p2/n3', 'out:out', 'none']
_fresh = {}


def _ask(jedi, env, project, script_path, probe):
    """What one script sees: the composed path (both flavours) and where `import dupsome` goes."""
    script = jedi.Script('import dupsome\n', path=script_path, environment=env, project=project)
    state = script._inference_state
    r = {'get_sys_path': list(state.get_sys_path()),
         'get_sys_path(add_init_paths)': list(state.get_sys_path(add_init_paths=True))}
    if probe:
        r['import'] = sorted({str(n.module_path) for n in script.infer(1, 10) if n.type == 'module'})
    return r


def _saved(jedi, project, pdir):
    project.save()
    return _settings(jedi.Project.load(pdir))


def _histories(jedi, env, out, cfg, base, mode, only=None):
    pval, pdir = _project_path(cfg['form'], base)
    sp, _ = _entries(cfg['sys_path'], pdir, cfg['binding'])
    ad, _ = _entries(cfg['added'], pdir, cfg['binding'])
    locs = dict(_locations(pdir, DEPTH))
    probe = mode != 'pairs'
    if mode == 'pairs':
        seqs = itertools.product(locs, repeat=2)
    elif mode == 'probe-pairs':
        seqs = itertools.product(PROBE_SPOTS, repeat=2)
    else:
        seqs = itertools.product(TRIPLE_SPOTS, repeat=3)

    def build():
        return jedi.Project(pval, sys_path=sp, added_sys_path=ad, smart_sys_path=cfg['smart'])
    cid = _cfg_id(cfg)
    for seq in seqs:
        what = ['history', mode, list(seq)]
        if only is not None and only != what:
            continue
        out.n['histories'] = out.n.get('histories', 0) + 1

        def run():
            fails = []
            project = build()
            before = _settings(project)
            saved_before = _saved(jedi, project, pdir) if probe else None
            for k, label in enumerate(seq):
                out.n['evals'] += 1
                got = _ask(jedi, env, project, locs[label], probe)
                if k:
                    key = (cid, label, probe)
                    if key not in _fresh:
                        _fresh[key] = _ask(jedi, env, build(), locs[label], probe)
                        out.n['evals'] += 1
                    for f, v in _fresh[key].items():
                        if got[f] != v:
                            fails.append(('shared-project-differs-from-fresh-project@' + f,
                                          {'step': k, 'script': locs[label], 'shared_project': got[f],
                                           'fresh_project': v}))
                after = _settings(project)
                for f in before:
                    if after[f] != before[f]:
                        fails.append(('project-setting-changed-by-query@' + f,
                                      {'step': k, 'script': locs[label], 'before': before[f],
                                       'after': after[f]}))
            if probe:
                saved_after = _saved(jedi, project, pdir)
                for f in saved_before:
                    if saved_after[f] != saved_before[f]:
                        fails.append(('save-load-differs-after-queries@' + f,
                                      {'before': saved_before[f], 'after': saved_after[f]}))
            return fails
        ok, fails = _guard(out, what, run)
        if not ok:
            continue
        out.classes.add(('history', mode, cfg['smart'], sp is None, len(ad),
                         tuple(l.split(':')[0] + ('' if ':' not in l or l.endswith(':.') else '+') for l in seq)))
        for site, detail in fails:
            detail = dict(detail, history=list(seq), smart=cfg['smart'], sys_path=repr(sp),
                          added_sys_path=repr(ad))
            out.fail(site, what, detail)


# names exactly as jedi/api/project.py checks them (_CONTAINS_POTENTIAL_PROJECT, _is_django_path)
MARKERS = ['setup.py', '.git', '.hg', 'requirements.txt', 'MANIFEST.in', 'pyproject.toml',
           'manage.py:django']
DJANGO = 'import os\nos.environ.setdefault("DJANGO_SETTINGS_MODULE", "x.settings")\n'
SAVED = [dict(sys_path=None, added=['liba'], smart=True),
         dict(sys_path=['libb'], added=['liba', 'liba/sub'], smart=False)]


def _ref_default_project(script_path):
    """What get_default_project documents (and the pinned code does), read off the real file
    system: going up from the buffer, the first folder holding .jedi/project.json wins outright;
    a Django manage.py wins over anything above it; otherwise the first (nearest) folder with a
    project marker, else the nearest folder without __init__.py.  Folders with an __init__.py
    are passed over until the first folder without one has been seen.  -> (kind, folder)"""
    first_no_init = probable = None
    d = script_path
    while True:
        if os.path.isfile(os.path.join(d, '.jedi', 'project.json')):
            return 'saved', d
        if os.path.isdir(d):
            skip = first_no_init is None and os.path.exists(os.path.join(d, '__init__.py'))
            if not skip:
                if first_no_init is None:
                    first_no_init = d
                try:
                    with open(os.path.join(d, 'manage.py'), 'rb') as f:
                        if b'DJANGO_SETTINGS_MODULE' in f.read():
                            return 'django', d
                except OSError:
                    pass
                if probable is None and any(os.path.exists(os.path.join(d, m))
                                            for m in MARKERS[:-1]):
                    probable = d
        if os.path.dirname(d) == d:
            break
        d = os.path.dirname(d)
    return ('marker', probable) if probable else ('no-init', first_no_init)


def _discovery(jedi, env, out, case, base, only=None):
    """case: pk (folders are packages?), markers [[kind, depth]], sdepth, saved (index or None)"""
    what = ['discovery', case]
    if only is not None and only != what:
        return
    root = os.path.join(base, 'mk', 'root')
    names = ['q%d' if case['pk'] else 'd%d'] * 4
    dirs = [root]
    for i in range(4):
        dirs.append(os.path.join(dirs[-1], names[i] % (i + 1)))
    shutil.rmtree(os.path.join(base, 'mk'), ignore_errors=True)
    for i, d in enumerate(dirs):
        os.makedirs(d)
        open(os.path.join(d, 's.py'), 'w').close()
        if case['pk'] and i:
            open(os.path.join(d, '__init__.py'), 'w').close()
    for kind, depth in case['markers']:
        p = os.path.join(dirs[depth], kind.split(':')[0])
        if kind in ('.git', '.hg'):
            os.makedirs(p, exist_ok=True)
        else:
            with open(p, 'w') as f:
                f.write(DJANGO if kind.endswith(':django') else '')
    out.n['evals'] += 1
    out.n['discoveries'] = out.n.get('discoveries', 0) + 1
    script_path = os.path.join(dirs[case['sdepth']], 's.py')
    want = {'sys_path': None, 'added_sys_path': [], 'smart_sys_path': True,
            'load_unsafe_extensions': False, 'environment_path': None}

    def run():
        if case['saved'] is not None:
            c = SAVED[case['saved']]
            full = lambda l: None if l is None else [os.path.join(base, x) for x in l]
            jedi.Project(root, sys_path=full(c['sys_path']), added_sys_path=full(c['added']),
                         smart_sys_path=c['smart']).save()
            want.update(sys_path=full(c['sys_path']), added_sys_path=full(c['added']),
                        smart_sys_path=c['smart'])
        kind, folder = _ref_default_project(script_path)
        if kind != 'saved':
            want.update(sys_path=None, added_sys_path=[], smart_sys_path=True)
        want['path'] = folder
        found = jedi.get_default_project(script_path)
        got = _settings(found)
        fails = [('default-project-differs@' + k, {'field': k, 'expected': want[k], 'found': got[k],
                                                   'rule': kind})
                 for k in want if got[k] != want[k]]
        # a Script built without project= behaves like one built with that project
        explicit = jedi.Project.load(folder) if kind == 'saved' else jedi.Project(folder)
        for label, proj in (('default', None), ('explicit', explicit)):
            res = _ask(jedi, env, proj, script_path, True)
            if label == 'default':
                first = res
            else:
                for f, v in res.items():
                    if first[f] != v:
                        fails.append(('script-without-project-differs-from-loaded-project@' + f,
                                      {'without_project': first[f], 'with_project': v, 'rule': kind}))
        return kind, fails
    ok, r = _guard(out, what, run)
    if not ok:
        return
    kind, fails = r
    out.classes.add(('discovery', kind, case['pk'], case['saved'] is not None, case['sdepth'],
                     tuple(sorted(('django' if k.endswith('django') else 'marker',
                                   'above' if dp <= case['sdepth'] else 'beside')
                                  for k, dp in case['markers']))))
    out.hit('default-project-rule:' + kind)
    for site, detail in fails:
        out.fail(site, what, dict(detail, script=script_path, case=case))


ENV_EVENTS = ['QI', 'QS', 'APP', 'INS', 'INSP']
ENV_DEPTH = 4


def _env_sequences(first):
    return [seq for n in range(1, ENV_DEPTH + 1)
            for seq in itertools.product(ENV_EVENTS, repeat=n)
            if seq[0] == first and any(e[0] == 'Q' for e in seq)]


def _envhist(jedi, env, out, first, base, upto=None):
    """All event sequences that start with `first`, one after the other in THIS process (the
    caller guarantees it is a fresh one): the history of a step is everything before it.
      QI   query through Interpreter      (InterpreterEnvironment: the host's live sys.path)
      QS   query through Script with the private SameEnvironment (its helper's sys.path)
      APP  sys.path.append(<liba>)   INS  sys.path.insert(0, <libb>)
      INSP sys.path.insert(1, <project dir>)
    The host's sys.path is put back after every sequence (which is a change like any other)."""
    pdir = os.path.join(base, 'proj')
    script_path = os.path.join(pdir, 'n1', 'n2', 's.py')
    original = list(sys.path)
    for idx, seq in enumerate(_env_sequences(first)):
        if upto is not None and idx > upto:
            break
        out.n['envhistories'] = out.n.get('envhistories', 0) + 1
        try:
            for k, ev in enumerate(seq):
                what = ['envhist', first, idx, k]
                if ev == 'APP':
                    sys.path.append(os.path.join(base, 'liba'))
                elif ev == 'INS':
                    sys.path.insert(0, os.path.join(base, 'libb'))
                elif ev == 'INSP':
                    sys.path.insert(1, pdir)
                if ev[0] != 'Q':
                    continue
                out.n['evals'] += 1
                out.n['model_steps'] += 1

                def run():
                    project = jedi.Project(pdir)
                    if ev == 'QI':
                        script = jedi.Interpreter('import dupsome\n', [{}], path=script_path,
                                                  project=project)
                    else:
                        script = jedi.Script('import dupsome\n', path=script_path, environment=env,
                                             project=project)
                    state = script._inference_state
                    own = list(state.environment.get_sys_path())
                    got = list(state.get_sys_path())
                    composed = list(state.get_sys_path(add_init_paths=True))
                    res = sorted({str(n.module_path) for n in script.infer(1, 10)
                                  if n.type == 'module'})
                    return own, got, composed, res
                ok, r = _guard(out, what, run)
                if not ok:
                    continue
                own, got, composed, res = r
                exp = [p for p, _ in _model(pdir, None, [], True, own, script_path)]
                importlib.invalidate_caches()
                spec = importlib.machinery.PathFinder.find_spec('dupsome', composed)
                want = [] if spec is None or not spec.origin else [spec.origin]
                out.classes.add(('envhist', ev, tuple(sorted(set(seq[:k]))), pdir in own,
                                 len(own) - len(set(own)) > 0, bool(want)))
                out.hit('env-event:' + ev)
                detail = {'sequence': list(seq), 'step': k, 'batch': first, 'sequence_number': idx,
                          'history': 'all sequences %s* before it in one fresh process' % first}
                if got != exp:
                    out.fail('sys-path-differs-from-environments-own-path@' + ev, what,
                             dict(detail, composed=got, documented=exp, environment_sys_path=own))
                if res != want:
                    out.fail('import-resolves-differently-from-PathFinder@' + ev, what,
                             dict(detail, jedi=res, PathFinder=want, composed=composed))
        finally:
            sys.path[:] = original


def _envhist_child(first):
    """Run one batch in a fresh interpreter and hand back its result."""
    env = dict(os.environ)
    env.pop('JV_SCRATCH', None)
    code = ('import json, shutil, sys; from jv import boot; from jv.props import c20; '
            'c20._init(); r = c20._work({"kind": "envhist", "first": %r, "inline": True}); '
            'shutil.rmtree(boot.scratch_root(), ignore_errors=True); '
            'sys.stdout.write("\\nRESULT " + json.dumps(r))' % first)
    p = subprocess.run([sys.executable, '-B', '-c', code], env=env, capture_output=True, text=True,
                       timeout=1800)
    line = [l for l in p.stdout.splitlines() if l.startswith('RESULT ')]
    if p.returncode != 0 or not line:
        raise RuntimeError('environment-history child failed (%s): %s'
                           % (p.returncode, (p.stderr or p.stdout)[-1500:]))
    return json.loads(line[-1][len('RESULT '):])


def _environment_paths(jedi, out, base, only=None):
    """environment_path given as str and as Path selects the same interpreter."""
    exes = {}
    for kind, v in (('str', '/venv'), ('Path', Path('/venv'))):
        what = ['environment', kind]
        if only is not None and only != what:
            continue
        out.n['evals'] += 1
        ok, exe = _guard(out, what, lambda: str(jedi.Project(
            os.path.join(base, 'proj'), environment_path=v).get_environment().executable))
        if ok:
            exes[kind] = exe
    if len(exes) == 2 and exes['str'] != exes['Path']:
        out.fail('environment-differs-for-Path@get_environment', ['environment', 'Path'], exes)


def _init():
    boot.boot()
    boot.environment()


def _work(task):
    if task['kind'] == 'envhist' and not task.get('inline'):
        return _envhist_child(task['first'])
    jedi = boot.boot()
    env = boot.environment()
    base = _build_world()['base']
    out = _Out()
    only = task.get('only')
    cwd = os.getcwd()
    try:
        # The environment's helper process inherits the working directory it is started in;
        # relative path entries are resolved there.  Start it in a defined place.
        os.chdir(base)
        env.get_sys_path()
        if task['kind'] == 'environment':
            _environment_paths(jedi, out, base, only)
        if task['kind'] == 'envhist':
            _envhist(jedi, env, out, task['first'], base, task.get('upto'))
            if only is not None:
                out.fails = [f for f in out.fails if f['what'] == only]
        for case in task.get('cases', []):
            _discovery(jedi, env, out, case, base, only)
        for cfg in task.get('configs', []):
            before = len(out.fails)
            if task['kind'] == 'roundtrip':
                _roundtrip(jedi, env, out, cfg, base, only)
            elif task['kind'] == 'compose':
                _composition(jedi, env, out, cfg, base, task['depth'], only)
            elif task['kind'] == 'import':
                _imports(jedi, env, out, cfg, base, only)
            elif task['kind'] == 'history':
                _histories(jedi, env, out, cfg, base, task['mode'], only)
            for f in out.fails[before:]:
                f['cfg'] = cfg
    finally:
        os.chdir(cwd)
    return out.result()


def _cfg_id(cfg):
    def lst(v):
        return 'None' if v is None else '%s[%s]' % (v[0], ','.join(v[1]))
    return '%s-%s|sp=%s|add=%s|smart=%d|unsafe=%d|env=%s|%s' % (
        cfg['form'][0], cfg['form'][1], lst(cfg['sys_path']), lst(cfg['added']),
        cfg['smart'], cfg['unsafe'], cfg['env_path'], cfg['binding'])


def _tasks(tier):
    quick = tier == 'quick'
    bindings = ['inside'] if quick else ['inside', 'package', 'outside']
    levels = []
    # 1. round trip: the full constructor product
    tasks = []
    for form in PATH_FORMS:
        for sp in SYS_PATHS:
            for binding in bindings:
                cfgs = [dict(form=form, sys_path=sp, added=ad, smart=sm, unsafe=un, env_path=ep,
                             binding=binding)
                        for ad in ADDED for sm in (False, True) for un in (False, True)
                        for ep in ENV_PATHS]
                tasks.append({'kind': 'roundtrip', 'configs': cfgs})
    levels.append(('save/load round trip: full constructor product x {same cwd, other cwd, '
                   'get_default_project}', tasks))
    # 2. composition: (path, sys_path, added, smart) x every script location x 3 variants
    tasks = []
    for form in PATH_FORMS:
        for sp in SYS_PATHS:
            for binding in bindings:
                for un in ((False,) if quick else (False, True)):
                    cfgs = [dict(form=form, sys_path=sp, added=ad, smart=sm, unsafe=un,
                                 env_path=None, binding=binding)
                            for ad in ADDED for sm in (False, True)]
                    tasks.append({'kind': 'compose', 'configs': cfgs, 'depth': DEPTH})
    levels.append(('composed sys.path vs reference model: constructor product x script '
                   'locations (depth 0..%d, every __init__ pattern; outside; none)' % DEPTH, tasks))
    # 3. import resolution on the composed path
    tasks = []
    forms = [('str', 'abs'), ('Path', 'abs'), ('Path', 'rel')] if quick else PATH_FORMS
    added = [ADDED[0], ADDED[1], ADDED[6], ADDED[9]] if quick else ADDED
    for form in forms:
        for sp in SYS_PATHS:
            for binding in bindings:
                cfgs = [dict(form=form, sys_path=sp, added=ad, smart=sm, unsafe=False,
                             env_path=None, binding=binding)
                        for ad in added for sm in (False, True)]
                tasks.append({'kind': 'import', 'configs': cfgs})
    levels.append(('import resolves to what PathFinder finds on the composed path', tasks))
    # 4. histories: one Project object shared by several scripts
    tasks = []
    for mode in ('pairs', 'probe-pairs', 'triples'):
        for binding in bindings:
            for sp in HIST_SYS:
                for ad in HIST_ADDED:
                    for sm in (False, True):
                        cfg = dict(form=('str', 'abs'), sys_path=sp, added=ad, smart=sm,
                                   unsafe=False, env_path=None, binding=binding)
                        tasks.append({'kind': 'history', 'configs': [cfg], 'mode': mode})
    levels.append(('histories: one shared Project x all ordered pairs of script locations '
                   '(+ import probe on %d^2 pairs and %d^3 triples) vs a fresh Project'
                   % (len(PROBE_SPOTS), len(TRIPLE_SPOTS)), tasks))
    # 5. default-project discovery: saved config at depth 0 x marker kind x marker depth x
    #    script depth (x folders are packages) ; two markers at once ; no saved config
    cases = []
    for saved in (0, 1, None):
        for pk in (False, True):
            for sd in (1, 2, 3, 4):
                cases.append(dict(pk=pk, markers=[], sdepth=sd, saved=saved))
                for kind in MARKERS:
                    for md in (0, 1, 2, 3):
                        cases.append(dict(pk=pk, markers=[[kind, md]], sdepth=sd, saved=saved))
    for saved in (0, None):
        for sd in (2, 3, 4):
            for k1, k2 in itertools.product(MARKERS, MARKERS):
                for m1, m2 in ((1, 2), (1, 3), (2, 3)):
                    if m2 <= sd and (quick is False or k1 != k2):
                        cases.append(dict(pk=False, markers=[[k1, m1], [k2, m2]], sdepth=sd,
                                          saved=saved))
    n = 24
    levels.append(('get_default_project: saved config / marker kind x marker depth x script depth, '
                   'two markers, packages', [{'kind': 'discovery', 'cases': cases[i::n]}
                                             for i in range(n)]))
    levels.append(('environment histories in a fresh process: all sequences of length <= %d over '
                   '%s' % (ENV_DEPTH, '/'.join(ENV_EVENTS)),
                   [{'kind': 'envhist', 'first': e} for e in ENV_EVENTS]))
    levels.append(('environment_path as str and Path', [{'kind': 'environment'}]))
    return levels


def run(ctx):
    levels = _tasks(ctx.tier)
    for d in [Path(boot.scratch_root())] + list(Path(boot.scratch_root()).parents):
        if (d / 'buildout.cfg').exists() or (d / '.jedi').exists():
            ctx.harness_error('%s holds a buildout.cfg/.jedi: the scratch area is not neutral' % d)
            return
    tasks = [dict(t, level=name) for name, ts in levels for t in ts]
    pres = pool.run(tasks, 'jv.props.c20:_work', init='jv.props.c20:_init',
                    seed=ctx.seed, deadline=ctx.deadline, tag='c20')
    ctx.absorb(pres, 'C20')
    tot = {}
    classes = set()
    hits = {}
    per_level = {}
    skipped = set(pres.skipped)
    for i, t in enumerate(tasks):
        cnt = per_level.setdefault(t['level'], [0, 0])
        cnt[0] += 1
        if i in pres.crashed:
            ctx.violation('WorkerDied(exit=%s)' % pres.crashed[i], 'task:%d' % i, {}, {'task': t})
            continue
        r = pres.results.get(i)
        if r is None:
            if i in skipped:
                cnt[1] += 1
            continue
        for k, v in r['n'].items():
            tot[k] = tot.get(k, 0) + v
        classes.update(r['classes'])
        for k, v in r['hits'].items():
            hits[k] = hits.get(k, 0) + v
        for f in r['fails']:
            cfg = f.get('cfg')
            if t['kind'] == 'envhist':
                _, first, idx, k = f['what']
                iid = 'envhist|batch %s|#%d %s|step %d' % (
                    first, idx, '>'.join(f['detail'].get('sequence', [])), k)
                case = {'task': {'kind': 'envhist', 'first': first, 'upto': idx, 'inline': True,
                                 'only': f['what']}}
                ctx.violation(f['site'], iid, f['detail'], case)
                continue
            if t['kind'] == 'discovery':
                c = f['what'][1]
                iid = 'discovery|saved=%s|pk=%d|script@%d|%s' % (
                    c['saved'], c['pk'], c['sdepth'],
                    '+'.join('%s@%d' % (k, d) for k, d in c['markers']) or 'no-marker')
                case = {'task': {'kind': 'discovery', 'cases': [c], 'only': f['what']}}
                ctx.violation(f['site'], iid, f['detail'], case)
                continue
            iid = '%s|%s' % (_cfg_id(cfg) if cfg else 'environment', '/'.join(map(str, f['what'])))
            case = {'task': {'kind': t['kind'], 'configs': [cfg] if cfg else [],
                             'depth': t.get('depth', DEPTH), 'mode': t.get('mode'),
                             'only': f['what']}}
            ctx.violation(f['site'], iid, f['detail'], case)
    done = []
    exhaustive = True
    for name, ts in levels:
        n, nskip = per_level.get(name, [0, 0])
        if nskip:
            exhaustive = False
            ctx.note('level %s: %d of %d tasks not explored (time cap)' % (name, nskip, n))
        else:
            done.append('%s: %d tasks' % (name, n))
    ctx.coverage.update({
        'states': tot.get('states', 0) + tot.get('roundtrips', 0) + tot.get('imports', 0)
        + tot.get('histories', 0) + tot.get('discoveries', 0) + tot.get('envhistories', 0),
        'environment_histories': tot.get('envhistories', 0),
        'default_project_discoveries': tot.get('discoveries', 0),
        'histories': tot.get('histories', 0),
        'transitions': tot.get('evals', 0), 'evaluations': tot.get('evals', 0),
        'traces_validated_against_impl': tot.get('evals', 0),
        'reference_model_comparisons': tot.get('model_steps', 0),
        'roundtrips': tot.get('roundtrips', 0), 'compositions': tot.get('compositions', 0),
        'import_resolutions': tot.get('imports', 0),
        'distinct_nontrivial': len(classes),
        'rule': 'state = (constructor arguments, script location) resp. (constructor arguments, '
                'load route); transition = one save+load, one get_sys_path evaluation or one '
                'import inference; distinct_nontrivial = distinct (kind, smart, explicit sys_path?, '
                'segments present in the documented path, number of entries removed as duplicates, '
                'variant) / (import name, resolvable?, rank of the winning entry, number of '
                'candidates) / (load route, path shape, environment_path kind) classes',
        'levels_completed': done, 'exhaustive': exhaustive,
        'hits': dict(sorted(hits.items())),
        'domains': {'path': ['%s-%s' % f for f in PATH_FORMS], 'sys_path': len(SYS_PATHS),
                    'added_sys_path': len(ADDED), 'environment_path': ENV_PATHS,
                    'script_locations': len(_locations('/p', DEPTH)),
                    'bindings_of_a': ['inside'] if ctx.tier == 'quick' else sorted(BINDINGS)},
        'samples': [{'id': _cfg_id(levels[1][1][5]['configs'][7])}],
    })
    ctx.assumptions += [
        'configuration `stubs`; a private SameEnvironment is passed to every Script, so the base '
        'path is that environment\'s sys.path (minus the empty entry)',
        'no buildout.cfg above the scratch directory (checked): buildout paths are empty',
        'settings are compared by value: path after absolute(), environment_path after os.fspath()',
        'relative project paths are the plain folder name relative to the working directory (no ..)',
        'sys_path/added_sys_path entries are absolute; import resolution is checked with modules '
        'that exist as plain .py files only (no namespace folders, no stubs)',
    ]


def replay(case):
    _init()
    r = _work(case['task'])
    return [(f['site'], '/'.join(map(str, f['what'])), f['detail']) for f in r['fails']]
